#!/bin/sh
# Warm the build caches (harness with hooks on, GOARCH=386 standard library). Offline.
export GOFLAGS=-mod=mod GOPROXY=off GOSUMDB=off GOTOOLCHAIN=local
set -e
cd "$(dirname "$0")/harness"
mkdir -p bin
go build -tags verif -o bin/vcheck.setup ./cmd/vcheck
rm -f bin/vcheck.setup
tmp="$(mktemp -d)"
trap 'rm -rf "$tmp"' EXIT
mkdir -p "$tmp/cmd0"
printf 'module ref\n\ngo 1.20\n' > "$tmp/go.mod"
printf 'package main\nimport ("fmt";"math";"strings";"strconv";"errors")\nfunc main(){fmt.Println(math.Pi, strings.ToUpper("a"), strconv.Itoa(1), errors.New("x"))}\n' > "$tmp/cmd0/main.go"
(cd "$tmp" && GOCACHE="$(cd "$OLDPWD" && pwd)/bin/gocache-ref" GOARCH=386 GOOS=linux CGO_ENABLED=0 go build -o bin/ ./...)
echo setup ok
