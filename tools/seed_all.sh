#!/bin/sh
# Re-verifies every sub-agent seeded change found under /tmp/seed/<Cxx>/seeded/<i>/ and refreshes /verif/seeded/.
# Each change is run against its own property's check and against the broad differential checks C01, C02 and C07.
for id in C01 C02 C03 C04 C05 C06 C07 C08 C09 C10 C11 C12 C13 C14 C15 C16 C17 C18 C19 C20; do
  for i in 1 2; do
    [ -f /tmp/seed/$id/seeded/$i/patch.diff ] || continue
    extra=""
    for b in C01 C02 C07; do [ "$b" != "$id" ] && extra="$extra $b"; done
    echo "=== $id $i"
    /verif/tools/seed_verify.sh $id $i $extra 2>&1 | tail -8 | cut -c1-300
  done
done
