#!/bin/sh
# usage: mutate.sh <patch> <ID>... ; applies a patch to /repo's working tree, runs the quick checks, reverts.
# Validation tooling only; not used by registered commands.
patch="$1"; shift
cd /repo || exit 2
if ! git diff --quiet; then echo "/repo working tree is dirty"; exit 2; fi
git apply "$patch" || { echo "patch does not apply"; exit 2; }
trap 'git -C /repo checkout -- . ; git -C /repo clean -fdq' EXIT INT TERM
for id in "$@"; do
  tier=${TIER:-quick}
  out=$(cd /verif && ./check "$id" "$tier" 2>&1); rc=$?
  echo "== $id rc=$rc"; echo "$out" | grep -E "VIOLATION|KNOWN|OK|INCONCLUSIVE|what:" | head -6
done
