#!/bin/sh
# usage: mutate.sh <patch> <ID>... ; applies a patch to a scratch copy of /repo (HEAD), runs the quick
# checks against that copy, removes the copy. /repo itself is never touched.
# Validation tooling only; not used by registered commands.
patch="$1"; shift
scratch="$(mktemp -d /tmp/mut.XXXXXX)"
evroot="$scratch/verifroot"
trap 'rm -rf "$scratch"' EXIT INT TERM
git -C /repo archive HEAD | tar -x -C "$scratch" || exit 2
mkdir -p "$scratch/repo" && (cd "$scratch" && for f in *; do [ "$f" = repo ] || [ "$f" = verifroot ] || mv "$f" repo/; done)
(cd "$scratch/repo" && git init -q . && git apply "$patch") || { echo "patch does not apply"; exit 2; }
mkdir -p "$evroot" && cp /verif/known_findings.json "$evroot/"
for id in "$@"; do
  tier=${TIER:-quick}
  out=$(cd /verif && VERIF_REPO="$scratch/repo" VERIF_ROOT="$evroot" ./check "$id" "$tier" 2>&1); rc=$?
  echo "== $id rc=$rc"; echo "$out" | grep -E "VIOLATION|KNOWN|^OK|INCONCLUSIVE|what:" | head -6
done
