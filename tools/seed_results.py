#!/usr/bin/env python3
"""Writes /verif/seeded/RESULTS.md from the meta.json files that tools/seed_verify.sh stored."""
import json, glob, os, re
rows = []
for d in sorted(glob.glob('/verif/seeded/C*-*')):
    m = json.load(open(os.path.join(d, 'meta.json'), errors='replace'))
    name = os.path.basename(d)
    notes = open(os.path.join(d, 'notes.md')).read() if os.path.exists(os.path.join(d, 'notes.md')) else ''
    title = next((l.lstrip('# ').strip() for l in notes.splitlines() if l.startswith('#')), '')
    title = re.sub(r'^Seeded change \d+\s*[:—-]+\s*', '', title)
    caught = [c['check'] for c in m['checks_run'] if c['exit'] == 'rc=1']
    missed = [c['check'] for c in m['checks_run'] if c['exit'] == 'rc=0']
    own = next((c for c in m['checks_run'] if c['check'] == m['property']), None)
    rows.append((name, title, own, caught, missed, m))
with open('/verif/seeded/RESULTS.md', 'w', errors='replace') as f:
    f.write("# Breaking changes written by independent sub-agents\n\n")
    f.write("Each change was written by a fresh sub-agent that saw only the text of one property and a scratch\n"
            "worktree of /repo. Every one compiles, passes the repository's own suite, and fails its own\n"
            "demonstration test (`demo_test.go`) only with the change applied - re-confirmed by\n"
            "`tools/seed_verify.sh` on a scratch copy of /repo's HEAD (see `confirmed` in each `meta.json`).\n"
            "The checks were then run (quick tier, seed 1) against the changed copy; `rc=1` = VIOLATION reported.\n"
            "C01, C02 and C07 were run against every change as well, to see how far the broad checks reach.\n\n")
    f.write("| change | what it does | property's own check | first report | also caught by | not caught by |\n|---|---|---|---|---|---|\n")
    for name, title, own, caught, missed, m in rows:
        o = 'caught' if own and own['exit'] == 'rc=1' else 'MISSED'
        rep = (own or {}).get('first_report', '')[:110].replace('|', '\\|')
        others = ', '.join(c for c in caught if c != m['property']) or '-'
        ms = ', '.join(c for c in missed if c != m['property']) or '-'
        f.write(f"| {name} | {title.replace('|','/')} | {o} | {rep} | {others} | {ms} |\n")
    n = len(rows); c = sum(1 for r in rows if r[2] and r[2]['exit'] == 'rc=1')
    f.write(f"\n{c} of {n} changes are reported by the check of the property they were written against.\n")
    f.write("""
## Changes the checks missed when they were first run, and what was strengthened

The table above is the state after strengthening. Against the checks as they stood when each batch of
changes arrived, these were not reported by the property's own check:

| change | first result | what was added (never anything specific to the patch: only the input class it needs) |
|---|---|---|
| C01-1 | C01 silent (C12 reported it) | generator: field names from a shared pool, now and then a wide struct type followed by types that reuse two of its names sixteen interned indexes apart; C01 quick raised from 168 to 960 programs |
| C01-2 | C01 silent (C08 reported it) | generator: a shadowing declaration prefers a name that is already shadowed (three and more nested declarations of one name) |
| C03-2 | silent | C03 mutator that replaces index / operand literals by boundary numbers (4000000000, -1, 1<<31) in programs dumped with the disassembler option on |
| C05-2 | C05 silent (C02, C07 reported it) | C05 operands may be literals and constant expressions, so that the peephole pass changes the length of the right operand of && and // |
| C07-2 | C07 silent | generator: typed multi-variable declarations initialised from one multi-result call |
| C09-1 | C09 silent (C07 reported it) | C09: function literals between declarations, results counted after a literal's body |
| C09-2 | silent | C09: recursion deep enough to make the VM stack grow between parameter conversion and use |
| C13-1 | silent | C13 "literal-pair": the same characters as an interpreted and as a raw literal in one VM, both orders, and again in a later Eval |
| C16-2 | silent | C16 packages (and the C01 generator) declare functions and a variable that share their names with a field / a method |
| C17-1 | silent | C17 state kept across reloads now includes no-initialiser variables declared `any`, an interface type and `error`, holding concrete values |
| C17-2 | silent | C17 captures bound methods that take parameters (variable and struct field) before the reload |
| C19-1 | silent | C19 case "reentrant-native": one native re-entered 1-5 levels deep through script code it calls back, every activation re-reads its arguments after the nested one returned |
| C19-2 | C19 silent (C09 reported it) | C19 calls every native also as the sole operand of `return` in a forwarding function, the variadic form with its surplus spread from a slice |
| C20-1 | silent | C20 call chains contain function literals before the line of interest |

Second round (changes 3-5 of each property; the sub-agents were told the titles of the first two so as not to repeat them):

| change | first result | what was added |
|---|---|---|
| C01-4 | silent | generator: a parameter named like an imported package, with field stores through it |
| C03-3 | silent (C14 had reported the same kind of change in round 1) | C03 ill-formed catalogue: cyclic values reaching println / fmt / panic texts |
| C03-4 | INCONCLUSIVE after 30 min (a loader that loops) | per-input watchdog inside the workers and confirmation in a separate process; workers die with their parent; the test-only directory that triggers it was already generated |
| C03-5 | silent | type expressions nested beyond the width of a packed type, with the dump options |
| C04-5 | C04 silent (C01 reported it) | every typed-constant context returns `any` (no return conversion hides an untyped store); variadic, method, multi-result, nested-composite contexts |
| C05-4 | silent | every expression is also evaluated as the body of a function over parameters |
| C06-3, C06-4, C06-5 | C06 silent (C01/C02/C07 reported two of them) | varied spelling of every shape: compound conditions with fusible operands, loop variable redeclared in the body, case lists of mixed length |
| C07-3 | C07 silent (C01 reported it) | monitor rule T9: the own slots of a new frame are blank |
| C07-5 | silent | wide-frame programs (100-300 locals), also in C01 |
| C08-5 | C08 silent (C01 reported it after the C01-4 change) | two-package programs with names shadowing the imported package |
| C09-3 | silent | spread calls through methods reached as attributes of locals, fields and globals |
| C09-4 | silent | ill-formed call table: variadic callees with fewer arguments than fixed parameters, with live locals around |
| C10-3 | silent | `maps.Clone`, then one insert into the original and one into the clone |
| C10-5 | silent | float64 / uint8 elements observed through type-sensitive expressions |
| C11-3 | silent | make / literal lengths up to 20 |
| C11-4 | silent | element types float64 / uint8 with a type-sensitive probe of the first element |
| C12-4 | silent | up to 700 junk names before the type, receiver-guarding methods called on nil references, a second type declared late |
| C12-5 | C12 silent (C01 reported it) | struct types and methods in imported packages (nested paths, two packages of one name) |
| C13-3 | silent | `string(b)` for byte / s[i] / int8 / uint32 operands |
| C14-5 | silent | struct references printed after their type declaration ran several times |
| C15-3, C15-4, C15-5 | silent | top-level block statements in imported packages; comments mentioning `package` around build constraints; adjacent `_test.go` files |
| C16-4 | C16 silent (C01 reported it) | a 20-field type and a narrow type reusing two of its names sixteen apart |
| C16-5 | silent | struct types sharing field names in another order, printed whole |
| C17-4 | C17 silent (C01 reported it) | a function whose locals shadow package variables, updated with `+=` and `++` |
| C17-5 | silent | variables whose initialiser spells the zero value |
| C18-3 | C18 silent (C01/C07 reported it) | long programs (50-140 top-level block statements) |
| C18-4 | silent | block header variables named like existing globals |
| C18-5 | silent | function literals declaring same-named local types |
| C19-3 | C19 silent (C01 reported it) | -0 and Inf as arguments and results, boundary floats in the round trip |
| C19-4 | silent | the native held in a struct field and called with a spread slice through a local; every call's received arguments are judged, not only the last |
| C19-5 | C19 silent (C01/C07 reported it) | typed multi-variable declaration initialised from a multi-result native |

Third round (changes 6-8; the sub-agents were told the titles of the first five and were asked to hide their
changes in interactions with other language features and APIs):

| change | first result | what was added |
|---|---|---|
| C01-7 | silent (C10 reports it) | generator: delete followed by an insert of the same key |
| C02-6, C02-7, C02-8 | silent | snippets: a function-typed variable reassigned between two executions of one call site; spread calls through methods of locals; chains of constant additions on float64 and on locals |
| C04-6 | C04 silent (C01, C07 reported it) | variables declared from untyped constants right after a sibling call whose frame held values of other types |
| C04-7 | silent | chains of constant operands (a + 1 + 1, a + 1 - 1, ...) for every type |
| C04-8 | C04 silent (C01 reported it) | typed-constant stores and appends through re-sliced slices |
| C05-7 | C05 silent (C01, C02 reported it) | unary operators on parenthesised groups, the whole expression included |
| C05-8 | silent | expressions continued on the next line after a binary operator |
| C06-6 | silent | nested range loops that start on one source line |
| C06-7 | C06 silent (C01 reported it) | variables of an if-init statement read in the else-if condition and the else branch |
| C07-7 | silent | host functions that leave more values than they declare |
| C07-8 | silent | copy(...) as the operand of return |
| C08-7 | C08 silent (C01, C02 reported it) | function literals (with parameters named like outer names) inside the scope trees |
| C08-8 | C08 silent (C01 reported it) | parallel assignment whose targets resolve to a local and a global |
| C09-6 | silent | histories that define a function again with another parameter list, called from script and host |
| C09-8 | silent | callees that write to the elements of a spread slice |
| C10-6 | silent | reads of a nil map through literal and variable keys |
| C10-7 | silent | element type any with stored nils |
| C10-8 | silent | a range whose value variable has the name of the ranged map |
| C11-8 | silent | the slice a variadic function received and returned, kept across later calls |
| C12-6, C12-8 | silent | host-side instances: NewStruct without data, SetAttr/GetAttr, methods fetched by name |
| C12-7 | C12 silent (C01 reported it) | a local named like the import whose fields collide with package members |
| C13-6 | silent | carriage returns inside raw string literals |
| C13-7 | silent | []byte(literal) evaluated repeatedly with writes in between |
| C14-6 | silent | maps that are single-entry because the other entries were deleted (host, script, nested) |
| C14-7 | silent | struct references built by the host with NewStruct |
| C15-8 | silent | blank imports |
| C16-6 | silent | a function with a local type named like a package type, and package-level blocks using the package type |
| C16-7 | silent | every third layout variant is loaded as an imported package |
| C16-8 | silent | two like-shaped functions with literal-local types at the head of two files with identical headers |
| C17-6 | silent | a version loaded by a host function while a script function is running; every version brings 130 literals of its own |
| C17-7 | silent | an imported package whose source never changes (initialised variable starts over, the other is kept) |
| C18-7 | silent | init functions between statements |
| C18-8 | silent | a function with a local type named like a global type, then package-level blocks using the global one |
| C19-6, C19-7, C19-8 | silent | names whose meaning changes between host calls (redefinition with another variadic-ness, Set again, function variable reassigned); methods fetched with GetAttr and called through Func |
| C20-7 | silent | files that begin with blank lines and comments |
| C20-8 | silent | a second package whose import path differs from its name |

Fourth round (changes 9-11; the authors knew the titles of the first eight and were told that ordinary programs
would not do: the change had to need something specific and unusual):

| change | first result | what was added |
|---|---|---|
| C01-9 | silent | generator: a loop variable named like the variable that is ranged over |
| C01-10 | silent | initialisation-order programs: 3-7 packages that import fmt and each other and print while they are initialised (the order is fixed by Go since 1.21) |
| C01-11 | silent | sentinel: methods entered with a nil receiver that call further methods on it or hand it on |
| C02-11 | silent | snippets: case values and conditions ending in local +- constant; a missing string-map entry used as a string |
| C03-9 | silent | file trees: files whose header comment never ends (also as a dependency of a loaded package) |
| C03-11 | silent | Call / Func on script variables that hold nil functions, nil references, nil slices and maps |
| C05-9, C05-11 | silent / C01, C02 reported | character and bool literals as operands, unary operators on literals |
| C05-10 | C05 silent (C01 reported it) | every expression also in the header of an if / switch statement |
| C06-11 | C06 silent (C01 reported it) | nested loops that all call their variable i |
| C08-9 | silent | range expressions that mention the names the loop declares |
| C09-9 | silent | methods entered with a nil receiver that call further methods on it |
| C09-10 | silent | callees that keep the slice their surplus arguments were packed into |
| C09-11 | C09 silent (C01, C07 reported it) | typed multi-variable declaration from one call |
| C10-9 | silent | two range loops over the map starting on one source line |
| C10-11 | silent | make with a size hint |
| C11-10 | silent | a literal of nine constants evaluated again and again |
| C12-9 | silent | a local type declared before a function literal and used after it, named like the package type |
| C12-10 | silent | a type declared again with 12-20 more methods; instances made before call them |
| C12-11 | silent | the library's methods in a file that sorts before the file with its types |
| C14-10 | silent | two types using the same field names in opposite orders |
| C15-9 | silent | init functions that use a function and a variable of the file that sorts last |
| C16-10 | silent | package functions named max, min and clear |
| C16-11 | silent | a multi-valued call as the only argument of another call (compared between layouts; see K07) |
| C17-9 | silent | a package variable initialised with a function literal, pointed at a declared function in between |
| C17-10 | silent | a version whose top-level code fails at run time, followed by further loads |
| C17-11 | silent | the host calls the variable that holds a function by name after every step |
| C18-9, C18-10 | silent | named scalar types with a block-local namesake and a later re-declaration around identical statements |
| C18-11 | silent | script packages imported by separate statements, two of them sharing their package name |
| C19-9 | C19 silent (C07 reported it) | natives that leave more values than they declare, called by name |
| C19-10 | INCONCLUSIVE: every check hung (the harness wraps natives with Set, and under this change the wrapper replaced the wrapped function itself) | guard wrappers detect being re-entered; one function value under two names, one of them set again |
| C19-11 | caught once the rebind case existed | natives registered by a loader under stock names |
| C20-9 | silent | the same failing call made twice on one VM |
| C20-10 | silent | a const block whose implicitly repeated expression fails at run time |

Fifth round (changes 12-14; the sub-agents were told the titles of the eleven earlier ones of their property).
41 of 60 were missed by the property's own check at first; C05, C10 and C14 caught all three of theirs:

| change | first result | what was added |
|---|---|---|
| C01-13 | silent | generator: a sub-slice of a literal, an append through it that fits, a re-slice up to the capacity |
| C02-12 | silent | C02: x OP literal / literal OP x / x OP= literal functions per numeric type over boundary operands (the identities a strength reduction would use) |
| C02-13 | silent | C02: histories in which one VM compiles twice (a later Eval or a second Load declares a constant, function or type again) |
| C02-14 | silent | C02: untyped constants stored into typed elements, fields and variables through every storage form, read back through type-sensitive arithmetic |
| C03-12 | silent | C03 trees: an import cycle inside a larger graph with leaf packages, stock packages and packages leading into the cycle |
| C03-14 | silent | C03: one identifier declared again in 2-40 nested scopes |
| C04-13 | silent | C04 contexts: containers built by maps.Keys, maps.Clone, slices.Delete and sorted in place |
| C04-14 | C04 silent (C01 reported it) | C04: the spellings of minus zero (-0.0, -0e0, -(0.0)) and negative float constants in every constant context; this met K08 (0.0 * -1) on the unchanged tree |
| C06-12 | C06 silent (C01 reported it) | C06 style: a range value variable named like the slice ranged over |
| C06-13 | C06 silent (C01 reported it) | C06 style: names declared again inside a default clause that the other clauses' tests and bodies use |
| C06-14 | C06 silent (C01 reported it) | C06 style: case lists of calls that leave a trace (order and number of evaluations) |
| C07-12 | silent | generator: make(map, hint) |
| C07-13 | silent | generator: delete on, range over and reads of a nil map |
| C07-14 | silent | generator: switches with only a default clause and with no clause |
| C08-13 | C08 silent (C01 reported it) | C08 package family: the imported package assigns to its own variables with = and a parallel assignment |
| C08-14 | silent | C08: a loop, range, init variable or parameter of type float64 / byte / uint32 / string declared again in the body from a constant of another type |
| C09-12 | silent | C09: histories of host calls on one VM whose result slices are all read again after every later call |
| C09-14 | silent | C09: generated callees are now and then methods of *T, called through a global and as method values (variadic tails of every element type) |
| C11-12 | silent | C11: literals of 13-48 elements |
| C11-13 | silent | C11: the rows of a slice of slices (made with make, grown from nil, written as a literal of nils) are variables of the history |
| C11-14 | C11 silent (C07 reported it) | C11: copy's count returned directly from a function |
| C12-12 | silent | C12 host family: a type gets its first methods from a later Eval, instances made before call them |
| C12-13 | silent | C12 package family: fields and variables of qualified types defined from float64 / uint8 and of an alias |
| C12-14 | silent | C12 package family: methods named init |
| C13-13 | silent | C13: repeated string(b) of one byte slice with writes through it, an alias, copy and append in between |
| C13-14 | C13 silent (C01, C02 reported it) | C13: byte arithmetic on literal-indexed elements of local strings |
| C15-12 | silent | C15: excluded files may hold Go the script language does not have (generics, channels, goto) |
| C15-13 | silent | C15: import paths written as raw strings |
| C16-12 | silent | C16: three field-less struct types with a method of the same name each |
| C16-13 | silent | C16: a string constant whose lines look like build constraints (the seeded demo itself is not valid Go: the Go compiler rejects a misplaced //go:build comment) |
| C17-12 | silent | C17 state: two ints and two floats declared in one var statement |
| C17-13 | silent | C17 state: a map and a slice that exist but are empty at some reloads |
| C17-14 | silent | C17: the host spells the package directory in several equivalent ways (./app, app/, app/../app) |
| C18-12 | silent | C18: a package-level function named print, declared and used |
| C18-13 | silent | C18: constant blocks that count with iota |
| C18-14 | silent | C18: a package and a second package that imports it, imported by separate statements |
| C19-12 | silent | C19 case "struct": NewStruct with and without initialisers next to script-made instances, stores through SetAttr, every instance read back from host and script after every step |
| C19-13 | silent | C19 case "echo": natives whose results are or overlap the argument slice they were given |
| C19-14 | C19 silent (C01, C07 reported it) | C19: Call/Func on functions that forward with return f() behind a function literal of another result count |
| C20-13 | silent | C20: the chain starts in the initialiser of a package variable that follows a method declaration, or in an Eval that declares a method ahead of the call (outermost entry without a function name) |
| C20-14 | silent | C20: one case in six uses \\r\\n line endings |

Sixth round (changes 15-16, two per property; the authors had the titles of all fourteen earlier ones). Two of
the 40 were not stored (and a third, C16-15, was withdrawn later): C02-16 and C12-15 stopped being observable through their demonstrations once the
defects their authors had stumbled over were repaired in /repo (F53: inside a method the receiver lost its
declared type; the repair moved the code C12-15 had changed out of the script's path, and made C02-16's fast
path equivalent to the ordinary one). Because the authors' summaries arrive before their changes can be run,
five checks were widened from the summaries alone (C04-15 absent keys of maps whose key type differs from the
element type; C06-15 a package variable as switch tag that case expressions change; C06-16 negated && / ||
groups ending in == or !=; C20-15 spread calls in the chain; C20-16 compound shift assignments as faults) and
then reported their changes at the first run; those five are counted as missed below, since the checks as
they stood would not have seen them. Caught outright: C01-15, C04-16, C05-15/16, C10-15/16, C11-15/16,
C12-16, C13-16, C17-16. Missed at first (21 stored + 5 pre-empted of 38 stored):

| change | first result | what was added |
|---|---|---|
| C01-16 | silent | generator: strconv.FormatFloat with bit size 32 and more precisions; string literals with invalid UTF-8 |
| C02-15 | silent | C02 operator tables: integer literals next to float64 operands (x + 0, x - 0, x * 1); this met F55 on the unchanged tree (x - 0 fused into an addition of +0) |
| C03-15 | every check ended with exit 2: the harness itself enumerates opcode names at start-up and the changed name table panics for the pseudo-opcodes | the enumeration recovers; C03 then reports the change through WithCodeDump on a stray break / continue |
| C03-16 | silent | C03 trees: import paths spelled relative to the importing directory (./x, ../x) inside cycles |
| C07-15 | silent (C09 had reported the same change in round 5) | generator: return f(xs...) forwarding to variadic callees; C07 snippet with spread calls in every call position |
| C07-16 | silent | generator: a variable assigned to itself plus and minus several constants; C07 snippet with such statements at every nesting |
| C08-15 | silent | C08: constants declared in if / for / switch-clause blocks under the name of an outer variable |
| C09-15 | C09 silent (C01, C07 reported it; C01-12 was the same change) | C09: the callee as the post statement of a for loop ahead of a forwarding return |
| C09-16 | silent | C09: one []any argument for a ...any parameter, next to the spread form |
| C13-15 | silent | C13: control characters written as they are inside interpreted and character literals |
| C14-15, C14-16 | silent | C14 kind "derived": values that script operations derive from host-supplied ones (whole-range slice expressions, maps.Clone, maps.Keys, slices.Delete), nested two and three containers deep |
| C15-15 | silent | C15: packages whose import path lies below another package's path (the parent's full-path directory then holds only the sub-package) |
| C15-16 | silent | C15: one graph in sixty has 60-80 packages, all reachable |
| C16-15 | silent | C16: variables of function type without an initialiser (one without results) in the spine |
| C16-16 | silent | C16 file names that contain _test without being test files (ab_testing.go, x_testdata.go) |
| C17-15 | silent | C17: a struct type declared inside a function whose fields differ from version to version, used before and after every load |
| C18-15 | silent | C18: two independent packages, one importing a third under an alias, the other using that alias's name for a variable of its own |
| C18-16 | silent | C18: one program in four begins with its package clause |
| C19-15 | silent (C09 had reported the same change in round 5) | C19 runs the host-call histories of C09 as a kind of its own |
| C19-16 | silent | C19: natives registered under package-level names that are also predeclared (print, println) |
| C04-15, C06-15, C06-16, C20-15, C20-16 | (pre-empted, see above) | |

C16-15 (stored at first) was withdrawn later: repair F59 (round 7) made it unobservable.

Seventh round (changes 17-18 for ten properties: C02, C07, C09, C11, C12, C15, C16, C17, C18, C19; the authors were
also asked to list what the unchanged tree gets wrong and not to build demonstrations on it; nothing was widened
before the first run). C18-18 is not stored: the defect it exploited (a result-less function type at the very end
of an input is a parse error) was repaired as F59, after which the change is harmless. Caught outright: C02-18,
C11-18, C18-17. Missed at first (16 of 19 stored):

| change | first result | what was added |
|---|---|---|
| C02-17 | silent | C02: concatenations of string literals next to literals spelled like their value |
| C07-17 | silent | C07 snippet: a sort whose comparator sorts |
| C07-18 | silent | generator and C07 snippet: the comma-ok map lookup written as a var declaration |
| C09-17 | silent | C09: f(nil...) |
| C09-18 | silent | C09: package variables of function type reassigned between two runs of one call site |
| C11-17 | silent | C11: the bytes of a string spread into append (non-ASCII, invalid UTF-8), also through a sub-slice |
| C12-17 | silent | C12 package family: file names ending in test.go that are not test files (latest.go, contest.go) |
| C12-18 | silent | C12: a method with a variadic tail that stores into a field, called through locals with 0, 1, several and spread arguments |
| C15-17 | silent | C15: every third cyclic graph also imports more stock packages than it has script packages |
| C15-18 | silent | C15: in Eval mode the same VM evaluated the import once before against an empty tree |
| C16-17 | silent | C16: one hoistable uses a script sub-package, so whichever file holds it imports that package |
| C16-18 | silent | C16: local constants (in a function and in a method) named like package-level constants used by other functions |
| C17-17 | silent | C17: a function literal inside a function at the same position in every version, its body carrying the version tag |
| C17-18 | silent | C17: an initialiser above the function it calls; the package also loaded by the name of its file |
| C19-17 | silent | C19: natives without parameters as the first thing a fresh VM runs |
| C19-18 | silent | C19: a slice handed to Call / Func as the only surplus parameter of a variadic function |

The lists of unchanged-tree observations led to repairs F56-F60 and to the recorded findings K09-K11 (DESIGN 10.4
also lists the observations that were not followed up).

Two more defects of the unchanged tree came out of the sixth round: F53 and F54 (an any-typed operand holding a
scalar compared with nil), both first noticed by sub-agents while writing their demonstrations.

A reverse-of-fix mutant of F52 (blank parameters) was also found to be reported by C01 only; C09's
generated callees now spell unused parameters _ now and then.

While these inputs were added, the strengthened checks met more genuine defects of the pinned tree
(F44-F60 and K05-K11 in known_findings.json), among them two the C03 sub-agent had noticed on the
unchanged tree while looking for places to plant its changes.
""")
print(open('/verif/seeded/RESULTS.md').read())
