#!/usr/bin/env python3
"""Writes /verif/seeded/RESULTS.md from the meta.json files that tools/seed_verify.sh stored."""
import json, glob, os, re
rows = []
for d in sorted(glob.glob('/verif/seeded/C*-*')):
    m = json.load(open(os.path.join(d, 'meta.json')))
    name = os.path.basename(d)
    notes = open(os.path.join(d, 'notes.md')).read() if os.path.exists(os.path.join(d, 'notes.md')) else ''
    title = next((l.lstrip('# ').strip() for l in notes.splitlines() if l.startswith('#')), '')
    title = re.sub(r'^Seeded change \d+\s*[:—-]+\s*', '', title)
    caught = [c['check'] for c in m['checks_run'] if c['exit'] == 'rc=1']
    missed = [c['check'] for c in m['checks_run'] if c['exit'] == 'rc=0']
    own = next((c for c in m['checks_run'] if c['check'] == m['property']), None)
    rows.append((name, title, own, caught, missed, m))
with open('/verif/seeded/RESULTS.md', 'w') as f:
    f.write("# Breaking changes written by independent sub-agents\n\n")
    f.write("Each change was written by a fresh sub-agent that saw only the text of one property and a scratch\n"
            "worktree of /repo. Every one compiles, passes the repository's own suite, and fails its own\n"
            "demonstration test (`demo_test.go`) only with the change applied - re-confirmed by\n"
            "`tools/seed_verify.sh` on a scratch copy of /repo's HEAD (see `confirmed` in each `meta.json`).\n"
            "The checks were then run (quick tier, seed 1) against the changed copy; `rc=1` = VIOLATION reported.\n"
            "C01, C02 and C07 were run against every change as well, to see how far the broad checks reach.\n\n")
    f.write("| change | what it does | property's own check | first report | also caught by | not caught by |\n|---|---|---|---|---|---|\n")
    for name, title, own, caught, missed, m in rows:
        o = 'caught' if own and own['exit'] == 'rc=1' else 'MISSED'
        rep = (own or {}).get('first_report', '')[:110].replace('|', '\\|')
        others = ', '.join(c for c in caught if c != m['property']) or '-'
        ms = ', '.join(c for c in missed if c != m['property']) or '-'
        f.write(f"| {name} | {title.replace('|','/')} | {o} | {rep} | {others} | {ms} |\n")
    n = len(rows); c = sum(1 for r in rows if r[2] and r[2]['exit'] == 'rc=1')
    f.write(f"\n{c} of {n} changes are reported by the check of the property they were written against.\n")
    f.write("""
## Changes the checks missed when they were first run, and what was strengthened

The table above is the state after strengthening. Against the checks as they stood when each batch of
changes arrived, these were not reported by the property's own check:

| change | first result | what was added (never anything specific to the patch: only the input class it needs) |
|---|---|---|
| C01-1 | C01 silent (C12 reported it) | generator: field names from a shared pool, now and then a wide struct type followed by types that reuse two of its names sixteen interned indexes apart; C01 quick raised from 168 to 960 programs |
| C01-2 | C01 silent (C08 reported it) | generator: a shadowing declaration prefers a name that is already shadowed (three and more nested declarations of one name) |
| C03-2 | silent | C03 mutator that replaces index / operand literals by boundary numbers (4000000000, -1, 1<<31) in programs dumped with the disassembler option on |
| C05-2 | C05 silent (C02, C07 reported it) | C05 operands may be literals and constant expressions, so that the peephole pass changes the length of the right operand of && and // |
| C07-2 | C07 silent | generator: typed multi-variable declarations initialised from one multi-result call |
| C09-1 | C09 silent (C07 reported it) | C09: function literals between declarations, results counted after a literal's body |
| C09-2 | silent | C09: recursion deep enough to make the VM stack grow between parameter conversion and use |
| C13-1 | silent | C13 "literal-pair": the same characters as an interpreted and as a raw literal in one VM, both orders, and again in a later Eval |
| C16-2 | silent | C16 packages (and the C01 generator) declare functions and a variable that share their names with a field / a method |
| C17-1 | silent | C17 state kept across reloads now includes no-initialiser variables declared `any`, an interface type and `error`, holding concrete values |
| C17-2 | silent | C17 captures bound methods that take parameters (variable and struct field) before the reload |
| C19-1 | silent | C19 case "reentrant-native": one native re-entered 1-5 levels deep through script code it calls back, every activation re-reads its arguments after the nested one returned |
| C19-2 | C19 silent (C09 reported it) | C19 calls every native also as the sole operand of `return` in a forwarding function, the variadic form with its surplus spread from a slice |
| C20-1 | silent | C20 call chains contain function literals before the line of interest |
""")
print(open('/verif/seeded/RESULTS.md').read())
