#!/bin/sh
# Runs every patch in /verif/mutants against the check named by its file-name prefix (quick tier) and
# writes /verif/MUTATION_RESULTS.md. Validation tooling only.
out=/verif/MUTATION_RESULTS.md
echo "| mutant | check | caught | first report |" > $out
echo "|---|---|---|---|" >> $out
for p in /verif/mutants/*.patch; do
  id=$(basename $p | cut -c1-3)
  res=$(/verif/tools/mutate.sh $p $id 2>&1)
  rc=$(echo "$res" | grep -o "rc=[0-9]*" | head -1)
  what=$(echo "$res" | grep "what:" | head -1 | sed 's/^ *what: //' | cut -c1-140 | tr '|' '/')
  caught=no; [ "$rc" = "rc=1" ] && caught=yes; [ "$rc" = "rc=2" ] && caught="inconclusive"
  echo "| $(basename $p .patch) | $id | $caught | $what |" >> $out
  echo "$(basename $p) $rc"
done
