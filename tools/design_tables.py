#!/usr/bin/env python3
"""Regenerates the tables of DESIGN.md section 10.4 (findings, from known_findings.json) between the
markers <!-- FINDINGS-BEGIN --> / <!-- FINDINGS-END -->."""
import json, re
d = json.load(open('/verif/known_findings.json'))
rows = ["| id | property | status | commit | what failed |", "|---|---|---|---|---|"]
for f in d['findings']:
    rows.append("| %s | %s | %s | %s | %s |" % (f['id'], f['property'], f['status'], f.get('commit', ''), f['what'].replace('|', '\\|')))
s = open('/verif/DESIGN.md').read()
block = '<!-- FINDINGS-BEGIN -->\n' + '\n'.join(rows) + '\n<!-- FINDINGS-END -->'
s = re.sub(r'<!-- FINDINGS-BEGIN -->.*?<!-- FINDINGS-END -->', lambda m: block, s, flags=re.S)
open('/verif/DESIGN.md', 'w').write(s)
print(len(rows) - 2, "findings")
