check("C05",
      "runtime differential monitoring: goatlang's parse-tree dump and Eval result vs go/parser grouping evaluated with native int32/bool operators, exhaustive for <=3 operators",
      "Every well-typed operator sequence of up to three binary operators (19 operators), every parenthesisation of them and every unary placement for up to two operators is executed on the real parser/VM and compared, structurally and by value on 8 operand vectors, with go/parser's grouping; sequences of four operators are sampled. Exploration: it decides the executed expressions only, but the space up to three operators is covered completely.",
      "Trusts go/parser and native Go operators as the specification; operands are int32/bool variables bound through VM.Set.",
      "DESIGN.md §5 C05")
