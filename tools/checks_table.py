check("C05",
      "runtime differential monitoring: goatlang's parse-tree dump and Eval result vs go/parser grouping evaluated with native int32/bool operators, exhaustive for <=3 operators",
      "Every well-typed operator sequence of up to three binary operators (19 operators), every parenthesisation of them and every unary placement for up to two operators is executed on the real parser/VM and compared, structurally and by value on 8 operand vectors, with go/parser's grouping; sequences of four operators are sampled. Exploration: it decides the executed expressions only, but the space up to three operators is covered completely.",
      "Trusts go/parser and native Go operators as the specification; operands are int32/bool variables bound through VM.Set.",
      "DESIGN.md §5 C05")
check("C04",
      "runtime differential monitoring: value and dynamic type returned by script functions vs the same operation compiled natively into the harness (Go compiler arithmetic), exhaustive over all 8-bit operand pairs",
      "Every binary operator, compound assignment, ++/--, unary operator, conversion, constant operand (literal, named untyped and typed constants) and typed declaration is executed by the real compiler+VM, with the operands held in locals (fused opcodes), globals, struct fields, slice and map elements, and compared bit-for-bit (including -0, NaN and the dynamic type, and panic vs error) with native Go. int8/uint8: all 65536 operand pairs per operator; int32/uint32/float64: boundary x boundary plus random pairs. Exploration level: complete for the 8-bit types, sampled for the wide ones.",
      "Trusts the Go compiler that builds the harness as the definition of Go arithmetic. Mixed operand types are invalid Go and not generated, except shift counts (any integer type). float->int conversions out of range / NaN are implementation-defined in Go and left out.",
      "DESIGN.md §5 C04")
