#!/usr/bin/env python3
"""usage: mkmutant.py <name> <file> <old> <new> [<file> <old> <new> ...]
Creates /verif/mutants/<name>.patch by replacing text in /repo files (working tree restored afterwards)."""
import sys,subprocess
name=sys.argv[1]; args=sys.argv[2:]
assert subprocess.run(['git','-C','/repo','diff','--quiet']).returncode==0, "repo dirty"
try:
    for i in range(0,len(args),3):
        f,old,new=args[i:i+3]
        p='/repo/'+f; s=open(p).read()
        assert s.count(old)==1, (f, old, s.count(old))
        open(p,'w').write(s.replace(old,new))
    d=subprocess.run(['git','-C','/repo','diff'],capture_output=True,text=True).stdout
    open('/verif/mutants/%s.patch'%name,'w').write(d)
    b=subprocess.run('cd /repo && GOFLAGS=-mod=mod go build ./... && go test -mod=mod -vet=off -count=1 . 2>&1 | tail -1',shell=True,capture_output=True,text=True)
    print(name, 'suite:', b.stdout.strip(), b.stderr.strip()[:300])
finally:
    subprocess.run(['git','-C','/repo','checkout','--','.'])
