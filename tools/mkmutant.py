#!/usr/bin/env python3
"""usage: mkmutant.py <name> <file> <old> <new> [<file> <old> <new> ...]
Creates /verif/mutants/<name>.patch by replacing text in a scratch copy of /repo (HEAD); /repo is not touched.
Also reports whether the repository's own suite still passes with the change."""
import sys,subprocess,tempfile,shutil,os
name=sys.argv[1]; args=sys.argv[2:]
d=tempfile.mkdtemp(prefix='mkmut.')
try:
    subprocess.run('git -C /repo archive HEAD | tar -x -C %s && cd %s && git init -q . && git add -A && git -c user.email=a@b -c user.name=x commit -qm base'%(d,d),shell=True,check=True)
    for i in range(0,len(args),3):
        f,old,new=args[i:i+3]
        p=os.path.join(d,f); s=open(p).read()
        assert s.count(old)==1, (f, old, s.count(old))
        open(p,'w').write(s.replace(old,new))
    diff=subprocess.run(['git','-C',d,'diff'],capture_output=True,text=True).stdout
    open('/verif/mutants/%s.patch'%name,'w').write(diff)
    b=subprocess.run('cd %s && export GOFLAGS=-mod=mod GOPROXY=off GOSUMDB=off GOTOOLCHAIN=local && go build ./... && go test -mod=mod -vet=off -count=1 . 2>&1 | tail -1'%d,shell=True,capture_output=True,text=True)
    print(name, 'suite:', b.stdout.strip(), b.stderr.strip()[:300])
finally:
    shutil.rmtree(d,ignore_errors=True)
