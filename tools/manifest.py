#!/usr/bin/env python3
"""Regenerates /verif/MANIFEST.json from the table below (run after adding a check)."""
import json, subprocess, os
ROOT = os.path.dirname(os.path.dirname(os.path.abspath(__file__)))
props = [json.loads(l) for l in open(os.path.join(ROOT, 'properties.jsonl'))]

# id -> (technique, level text, level note, design ref)
CHECKS = {}
def check(id, technique, text, note, ref):
    CHECKS[id] = dict(technique=technique, text=text, note=note, ref=ref)

exec(open(os.path.join(ROOT, 'tools', 'checks_table.py')).read())

hooks = subprocess.run(['git', '-C', '/repo', 'log', '--format=%H %s'], capture_output=True, text=True).stdout.splitlines()
hook_commits = [l.split()[0] for l in hooks if l.split(' ', 1)[1].startswith('verif hooks')]

m = {
    "version": 1,
    "setup_cmd": "cd /verif && ./setup.sh",
    "hooks": {
        "guard": "verif",
        "enable": "go build -tags verif (the harness module in /verif/harness replaces github.com/philhassey/goatlang with /repo, so every check compiles the current working tree with the hooks on)",
        "baseline_off_cmd": "cd /repo && go test -mod=mod -vet=off -count=1 ./...",
        "source_commits": hook_commits,
        "add_only": True,
    },
    "engines": [
        {"name": "vcheck", "path": "harness/cmd/vcheck", "serves_properties": sorted(CHECKS), "kind_free_text": "Go harness: workload generators, reference oracles (Go toolchain GOARCH=386, native Go operators, reference models) and monitors; one sub-command per property"},
        {"name": "mon", "path": "harness/internal/mon", "serves_properties": [i for i in ["C02", "C06", "C07", "C09"] if i in CHECKS], "kind_free_text": "online VM trace monitor fed by the verif hooks (per-instruction stack-effect specification, depth-is-a-function-of-pc, frame isolation, branch forcing, opcode and branch coverage)"},
        {"name": "goref", "path": "harness/internal/core/goref.go", "serves_properties": [i for i in ["C01", "C06", "C08", "C09", "C16"] if i in CHECKS], "kind_free_text": "differential reference executor: the same source files compiled by the Go toolchain with GOARCH=386 (int is 32 bit) and run natively"},
    ],
    "checks": [],
    "notes": "All checks: ./check <ID> <quick|thorough>; VERIF_SEED selects the PRNG seed. Known findings: known_findings.json. See DESIGN.md.",
    "not_applicable": [],
}
for p in props:
    id = p['id']
    if id in CHECKS:
        c = CHECKS[id]
        m["checks"].append({
            "property_id": id,
            "quick_cmd": f"./check {id} quick",
            "thorough_cmd": f"./check {id} thorough",
            "evidence_file": f"/verif/evidence/{id}.json",
            "replay_cmd_template": f"./check {id} --replay {{path}}",
            "engine": "vcheck",
            "level_claimed": {"category": "exploration", "text": c['text'], "design_ref": c['ref']},
            "level_note": c['note'],
            "technique": c['technique'],
        })
    else:
        m["not_applicable"].append({"property_id": id, "reason": "check not built yet (work in progress); the property is decidable by runtime monitoring, see DESIGN.md"})
json.dump(m, open(os.path.join(ROOT, 'MANIFEST.json'), 'w'), indent=1)
print("checks:", sorted(CHECKS), "not_applicable:", [x['property_id'] for x in m['not_applicable']])
