#!/bin/sh
# Round 7: verifies the sub-agent changes under /tmp/seed7/<Cxx>/seeded/<1..3>/ and stores them as /verif/seeded/<Cxx>-<17..18>/.
# usage: seed_all2.sh [Cxx ...]   (default: all)
ids="$@"; [ -n "$ids" ] || ids="C01 C02 C03 C04 C05 C06 C07 C08 C09 C10 C11 C12 C13 C14 C15 C16 C17 C18 C19 C20"
for id in $ids; do
  for i in 1 2 3; do
    [ -f /tmp/seed7/$id/seeded/$i/patch.diff ] || continue
    extra=""
    for b in C01 C02 C07; do [ "$b" != "$id" ] && extra="$extra $b"; done
    echo "=== $id $i"
    SEEDROOT=/tmp/seed7 SEEDOFFSET=16 /verif/tools/seed_verify.sh $id $i $extra 2>&1 | tail -8 | cut -c1-300
  done
done
