#!/usr/bin/env python3
import json,sys,re
v=json.load(open(sys.argv[1]))
ex=v.get('extra') or {}
print("WHAT:",v['what']); print("DIFF:",ex)
p=v['case']['program']
tag=None
for s in (ex.get('go',''),ex.get('goatlang','')):
    m=re.match(r'^(\w+\d+)\b',s)
    if m: tag=m.group(1); break
ctx=int(sys.argv[2]) if len(sys.argv)>2 else 6
for k,src in p['files'].items():
    lines=src.split('\n')
    for i,l in enumerate(lines):
        if tag and '"'+tag+'"' in l:
            print('---',k,'line',i+1)
            for j in range(max(0,i-ctx),min(len(lines),i+3)): print(j+1,lines[j])
if not tag or len(sys.argv)>3:
    for k,src in p['files'].items(): print('=====',k); print(src)
    print("GO OUT:\n",v['expected']['stdout']); print("GOAT OUT:\n",v['observed']['out'])
