#!/bin/sh
# usage: seed_verify.sh <Cxx> <i> [extra check ids...]
# Confirms a sub-agent's seeded change (/tmp/seed/<Cxx>/seeded/<i>/) on a scratch copy of /repo HEAD:
#   demo passes without the change, suite passes with it, demo fails with it;
# then runs the property's own check (and any extra ones) against the changed copy and stores everything
# under /verif/seeded/<Cxx>-<i>/ (patch.diff, demo_test.go, notes.md, meta.json). /repo is never touched.
id="$1"; i="$2"; shift 2
# SEEDROOT: where the sub-agents' worktrees are; SEEDOFFSET: added to <i> for the stored name (round 2 stores 3..5)
n=$((i + ${SEEDOFFSET:-0}))
src="${SEEDROOT:-/tmp/seed}/$id/seeded/$i"
# once the sub-agent's worktree is gone, re-verify from the stored copy
[ -f "$src/patch.diff" ] || { src="$(mktemp -d /tmp/seedsrc.XXXXXX)"; tmpsrc="$src"; cp /verif/seeded/$id-$n/patch.diff /verif/seeded/$id-$n/demo_test.go "$src/" 2>/dev/null; cp /verif/seeded/$id-$n/notes.md "$src/" 2>/dev/null; }
[ -f "$src/patch.diff" ] || { echo "no patch at $src"; exit 2; }
export GOFLAGS=-mod=mod GOPROXY=off GOSUMDB=off GOTOOLCHAIN=local
d="$(mktemp -d /tmp/seedv.XXXXXX)"
trap 'rm -rf "$d" $tmpsrc' EXIT INT TERM
git -C /repo archive HEAD | tar -x -C "$d"
cd "$d" && git init -q . 
cp "$src/demo_test.go" "$d/zz_seeded_demo_test.go"
base=$(go test -mod=mod -vet=off -count=1 -run TestSeededDemo . 2>&1 | tail -1)
git apply "$src/patch.diff" || { echo "patch does not apply"; exit 2; }
rm "$d/zz_seeded_demo_test.go"
build=$(go build ./... 2>&1 | tail -2)
suite=$(go test -mod=mod -vet=off -count=1 ./... 2>&1 | grep -v "no test files" | tail -1)
cp "$src/demo_test.go" "$d/zz_seeded_demo_test.go"
demo=$(go test -mod=mod -vet=off -count=1 -run TestSeededDemo . 2>&1 | tail -1)
rm "$d/zz_seeded_demo_test.go"
echo "demo on unchanged tree : $base"
echo "build with change      : ${build:-ok}"
echo "suite with change      : $suite"
echo "demo with change       : $demo"
dest="/verif/seeded/$id-$n"
mkdir -p "$dest"
cp "$src/patch.diff" "$src/demo_test.go" "$dest/"
[ -f "$src/notes.md" ] && cp "$src/notes.md" "$dest/"
results=""
for c in "$id" "$@"; do
  r=$(/verif/tools/mutate.sh "$src/patch.diff" "$c" 2>&1)
  rc=$(echo "$r" | grep -o "rc=[0-9]*" | head -1)
  what=$(echo "$r" | grep "what:" | head -1 | sed 's/^ *what: //' | cut -c1-200)
  echo "check $c: $rc  $what"
  results="$results{\"check\":\"$c\",\"exit\":\"$rc\",\"first_report\":$(printf '%s' "$what" | python3 -c 'import json,sys; print(json.dumps(sys.stdin.read()))')},"
done
python3 - "$dest" "$id" "$base" "$suite" "$demo" "[${results%,}]" <<'PY'
import json,sys,re,os
dest,pid,base,suite,demo,results=sys.argv[1:7]
notes=open(os.path.join(dest,'notes.md')).read() if os.path.exists(os.path.join(dest,'notes.md')) else ''
def needs(n):
    # the section of the author's notes that says what the change needs in order to show
    out=[];take=False
    for line in n.splitlines():
        if line.startswith('#'):
            take=bool(re.search(r'need|manifest|trigger',line,re.I))
            continue
        if take: out.append(line)
    t=' '.join(' '.join(out).split())
    return t or 'see notes.md'
meta={"property":pid,"origin":"independent sub-agent given only the property text and a scratch worktree",
 "needs_to_manifest":needs(notes),
 "confirmed":{"demo_on_unchanged_tree":base,"suite_with_change":suite,"demo_with_change":demo},
 "checks_run":json.loads(results)}
json.dump(meta,open(os.path.join(dest,'meta.json'),'w'),indent=1)
PY
