// vcheck runs one property check: vcheck <ID> <quick|thorough> | vcheck <ID> --replay <file>
package main

import (
	"fmt"
	"os"
	"sort"
	"time"

	"verif/internal/checks"
	"verif/internal/core"
	"verif/internal/gen"
)

func main() {
	if len(os.Args) < 3 {
		ids := []string{}
		for id := range checks.Registry {
			ids = append(ids, id)
		}
		sort.Strings(ids)
		fmt.Fprintln(os.Stderr, "usage: vcheck <ID> <quick|thorough> | vcheck <ID> --replay <file>; checks:", ids)
		os.Exit(2)
	}
	id, mode := os.Args[1], os.Args[2]
	if id == "gen" && len(os.Args) >= 4 {
		// debugging aid: vcheck gen <profile> <index> prints one generated program
		var idx int
		fmt.Sscan(os.Args[3], &idx)
		p := gen.Generate(core.Derive(core.Seed(), "c01-"+mode, idx), idx, mode)
		fmt.Print(p.Source())
		return
	}
	if id == "C03" && mode == "worker" {
		os.Exit(checks.C03Worker(os.Args[3:]))
	}
	if id == "C14" && mode == "worker" {
		os.Exit(checks.C14Worker(os.Args[3:]))
	}
	c, ok := checks.Registry[id]
	if !ok {
		fmt.Fprintln(os.Stderr, "unknown check", id)
		os.Exit(2)
	}
	if mode == "--replay" {
		if len(os.Args) < 4 || c.Replay == nil {
			fmt.Fprintln(os.Stderr, "replay needs a file / is not supported by this check")
			os.Exit(2)
		}
		v, err := checks.LoadViolation(os.Args[3])
		if err != nil {
			fmt.Fprintln(os.Stderr, err)
			os.Exit(2)
		}
		r := core.NewRun(id, "quick")
		r.NoEvidence = true
		c.Replay(r, v)
		os.Exit(r.FinishReplay())
	}
	if mode != "quick" && mode != "thorough" {
		fmt.Fprintln(os.Stderr, "mode must be quick or thorough")
		os.Exit(2)
	}
	r := core.NewRun(id, mode)
	// generous wall-clock watchdog: firing is inconclusive, never a violation
	limit := 30 * time.Minute
	if mode == "thorough" {
		limit = 4 * time.Hour
	}
	go func() {
		time.Sleep(limit)
		fmt.Printf("INCONCLUSIVE property=%s: wall-clock watchdog (%v) fired\n", id, limit)
		os.Exit(2)
	}()
	c.Run(r)
	os.Exit(r.Finish())
}
