// Package mon is the online trace monitor for the goatlang VM (property C07)
// and the source of instruction / branch coverage numbers for other checks.
//
// It is fed by the verif hooks (Top/Step/Enter/Leave/End) and checks a trace
// specification that is written from the instruction-set semantics, not from
// the compiler: it never looks at how code was generated, only at what
// executes.
package mon

import (
	"fmt"

	"github.com/philhassey/goatlang"

	"verif/internal/core"
)

type opKind int

const (
	kUnknown opKind = iota
	kFixed          // depth += delta; pc+1
	kCall           // depth effect from operands; pc+1; caller locals must be untouched
	kCond           // pops 1; pc+1 or pc+A+1
	kShort          // AND/OR: jump keeps the operand, fallthrough pops it
	kJump           // pc+A+1
	kFunc           // +1, skips its data region
	kReturn         // ends the frame
	kRange          // pops 1; pc+B+1
	kIter           // pc+1 or pc+C+1
	kPanic          // never continues
	kData           // must never execute (TYPE, BREAK, CONTINUE, TODO, NEWLOCALSTRUCT)
)

type opInfo struct {
	kind  opKind
	delta int
	// operand-dependent deltas
	f func(a, b, c int) int
	// local slot operands: which of A,B are slot indexes (C handled per op)
	slotA, slotB bool
}

var ops = map[string]opInfo{}

func fixed(d int) opInfo { return opInfo{kind: kFixed, delta: d} }

func init() {
	for _, n := range []string{"PUSH", "GLOBALREF", "ZERO", "GLOBALGET", "CONST"} {
		ops[n] = fixed(+1)
	}
	for _, n := range []string{"ADD", "SUB", "MUL", "DIV", "MOD", "LTE", "GTE", "NEQ", "BITAND", "BITOR", "BITLSH", "BITRSH", "BITXOR", "EQ", "LT", "GT", "GET", "POP", "GLOBALSET", "GLOBALFUNC", "GLOBALSTRUCT"} {
		ops[n] = fixed(-1)
	}
	for _, n := range []string{"INCDEC", "CONVERT", "CAST", "NEGATE", "BITCOMPLEMENT", "NOT", "GLOBALZERO", "LEN", "GETOK", "MAKE", "GETATTR", "PASS"} {
		ops[n] = fixed(0)
	}
	ops["GETOK"] = fixed(0)
	ops["DELETE"] = fixed(-2)
	ops["SLICE"] = fixed(-2)
	ops["SET"] = fixed(-3)
	ops["SETMETHOD"] = fixed(-2)
	ops["SETATTR"] = fixed(-2)
	ops["COPY"] = opInfo{kind: kFixed, f: func(a, b, c int) int {
		if c != 0 {
			return -1 // the count is pushed when the call's value is wanted
		}
		return -2
	}}
	ops["LOCALGET"] = opInfo{kind: kFixed, delta: +1, slotA: true}
	ops["LOCALSET"] = opInfo{kind: kFixed, delta: -1, slotA: true}
	ops["LOCALZERO"] = opInfo{kind: kFixed, delta: 0, slotA: true}
	ops["LOCALINCDEC"] = opInfo{kind: kFixed, delta: 0, slotA: true}
	for _, n := range []string{"LOCALADD", "LOCALSUB", "LOCALMUL", "LOCALDIV"} {
		ops[n] = opInfo{kind: kFixed, delta: +1, slotA: true, slotB: true}
	}
	for _, n := range []string{"FASTGET", "FASTGETINT", "FASTGETATTR"} {
		ops[n] = opInfo{kind: kFixed, delta: +1, slotA: true}
	}
	for _, n := range []string{"FASTSET", "FASTSETINT", "FASTSETATTR"} {
		ops[n] = opInfo{kind: kFixed, delta: -1, slotA: true}
	}
	ops["APPEND"] = opInfo{kind: kFixed, f: func(a, b, c int) int { return -(a - 1) }}
	ops["NEWSLICE"] = opInfo{kind: kFixed, f: func(a, b, c int) int { return -b + 1 }}
	ops["NEWMAP"] = opInfo{kind: kFixed, f: func(a, b, c int) int { return -c + 1 }}
	ops["STRUCT"] = opInfo{kind: kFixed, f: func(a, b, c int) int { return -a + 1 }}
	ops["NEWSTRUCT"] = opInfo{kind: kFixed, f: func(a, b, c int) int { return -b + 1 }}
	ops["CALL"] = opInfo{kind: kCall, f: func(a, b, c int) int { return -1 - a + b }}
	ops["CALLVARIADIC"] = opInfo{kind: kCall, f: func(a, b, c int) int { return -1 - a + b }}
	ops["FASTCALL"] = opInfo{kind: kCall, f: func(a, b, c int) int { return -b + c }}
	ops["FASTCALLATTR"] = opInfo{kind: kCall, slotA: true, f: func(a, b, c int) int {
		c1, c2 := goatlang.VerifSplit(c)
		return -c1 + c2
	}}
	ops["JUMPFALSE"] = opInfo{kind: kCond}
	ops["JUMPTRUE"] = opInfo{kind: kCond}
	ops["AND"] = opInfo{kind: kShort}
	ops["OR"] = opInfo{kind: kShort}
	ops["JUMP"] = opInfo{kind: kJump}
	ops["FUNC"] = opInfo{kind: kFunc}
	ops["RETURN"] = opInfo{kind: kReturn}
	ops["RANGE"] = opInfo{kind: kRange, slotA: true}
	ops["ITER"] = opInfo{kind: kIter, slotA: true}
	ops["PANIC"] = opInfo{kind: kPanic}
	for _, n := range []string{"TYPE", "BREAK", "CONTINUE", "TODO", "NEWLOCALSTRUCT"} {
		ops[n] = opInfo{kind: kData}
	}
}

// opTable is ops indexed by numeric opcode+8.
var opTable [264]opInfo
var opName [264]string

func init() {
	for code, name := range core.OpNames {
		opName[code+8] = name
		if oi, ok := ops[name]; ok {
			opTable[code+8] = oi
		}
	}
}

// Unknown opcodes (a new opcode added to the VM that the table does not know)
// are reported once as "unmodelled", which makes the run inconclusive for that
// opcode rather than a violation.

type codeInfo struct {
	id      any
	n       int
	valid   []bool // valid instruction starts
	depthAt []int  // relative operand depth at first visit, -1 = not visited
	visited int
	// branch outcomes: bit0 = fell through, bit1 = jumped
	outcome []uint8
	name    string
}

type frameState struct {
	code     *codeInfo
	base     int
	slots    int
	floor    int // absolute stack index where the operand stack starts
	isFunc   bool
	hasPrev  bool
	prevPC   int
	prevDep  int
	prevOp   int
	a, b, c  int
	snapshot []goatlang.Value // caller locals at a call instruction
	forcedAt int
}

type stackState struct {
	frames []*frameState
}

type Event struct {
	Code  string `json:"code"`
	PC    int    `json:"pc"`
	Op    string `json:"op"`
	A     int    `json:"a"`
	B     int    `json:"b"`
	C     int    `json:"c"`
	Depth int    `json:"depth"` // relative to the frame's operand floor
	Level int    `json:"level"`
}

type Finding struct {
	Rule  string  `json:"rule"`
	What  string  `json:"what"`
	Pos   string  `json:"pos"`
	Trace []Event `json:"trace"`
}

// Monitor implements goatlang.VerifObserver.
type Monitor struct {
	codes      map[any]*codeInfo
	Findings   []Finding
	Unmodelled map[string]int
	Residual   int // operand values left by the last completed top-level run
	TopRuns    int
	Steps      int

	ring    [64]Event
	ringN   int
	tracing bool

	// branch forcing: decision bits consumed at JUMPFALSE/JUMPTRUE/AND/OR
	Force      []bool
	forcePos   int
	ForceTail  *core.Rng // after Force is exhausted: random bits if non-nil, else natural
	Forced     int
	maxFinding int
}

func New() *Monitor {
	return &Monitor{codes: map[any]*codeInfo{}, Unmodelled: map[string]int{}, tracing: true, maxFinding: 8}
}

// ResetRun prepares for another execution on the same VM (keeps code tables
// and coverage, which belong to the compiled code).
func (m *Monitor) ResetRun() {
	m.forcePos = 0
	m.Residual = 0
}

func (m *Monitor) SetForce(bits []bool, tail *core.Rng) {
	m.Force = bits
	m.ForceTail = tail
	m.forcePos = 0
}

func (m *Monitor) report(v *goatlang.VM, rule, what string) {
	if len(m.Findings) >= m.maxFinding {
		return
	}
	pos := ""
	if v.VerifCodeLen() > 0 && v.VerifPC() < v.VerifCodeLen() {
		pos = v.VerifInsPos(v.VerifPC())
	}
	f := Finding{Rule: rule, What: what, Pos: pos}
	n := m.ringN
	if n > len(m.ring) {
		n = len(m.ring)
	}
	for i := m.ringN - n; i < m.ringN; i++ {
		f.Trace = append(f.Trace, m.ring[i%len(m.ring)])
	}
	m.Findings = append(m.Findings, f)
}

func (m *Monitor) info(v *goatlang.VM) *codeInfo {
	id := v.VerifCodeID()
	if ci, ok := m.codes[id]; ok {
		return ci
	}
	n := v.VerifCodeLen()
	ci := &codeInfo{id: id, n: n, valid: make([]bool, n+1), depthAt: make([]int, n+1), outcome: make([]uint8, n)}
	for i := range ci.depthAt {
		ci.depthAt[i] = -1
	}
	ci.name = fmt.Sprintf("code#%d", len(m.codes))
	for pc := 0; pc < n; {
		ci.valid[pc] = true
		op, a, _, c := v.VerifIns(pc)
		if op == "FUNC" {
			args, rets := goatlang.VerifSplit(a)
			if args < 0 {
				args = -args
			}
			skip := args + rets + c
			if skip < 0 {
				skip = 0
			}
			pc += skip + 1
			continue
		}
		pc++
	}
	ci.valid[n] = true // falling off the end is a legal exit
	if id != nil {
		m.codes[id] = ci
	}
	return ci
}

func (m *Monitor) state(v *goatlang.VM) *stackState {
	if s, ok := v.VerifData().(*stackState); ok {
		return s
	}
	s := &stackState{}
	v.VerifSetData(s)
	return s
}

func (m *Monitor) Top(v *goatlang.VM, slots int) {
	s := &stackState{}
	v.VerifSetData(s)
	f := &frameState{code: m.info(v), base: v.VerifBase(), slots: slots, floor: v.VerifBase() + slots}
	s.frames = append(s.frames, f)
	m.TopRuns++
}

func (m *Monitor) End(v *goatlang.VM) {
	s := m.state(v)
	if len(s.frames) != 1 {
		m.report(v, "T7", fmt.Sprintf("top-level run ended with %d shadow frames", len(s.frames)))
		return
	}
	f := s.frames[0]
	if !(f.hasPrev && opTable[f.prevOp+8].kind == kReturn) { // a top-level return simply ends the run
		m.checkTransition(v, f, f.code.n, v.VerifDepth(), true)
	}
	m.Residual = v.VerifDepth() - f.floor
}

func (m *Monitor) Enter(v *goatlang.VM, args, rets, slots int) {
	s := m.state(v)
	f := &frameState{code: m.info(v), base: v.VerifBase(), slots: slots, floor: v.VerifDepth(), isFunc: true}
	if f.base+slots != f.floor {
		m.report(v, "T2", fmt.Sprintf("frame set-up: base %d + slots %d != stack length %d", f.base, slots, f.floor))
	}
	// T9: the new frame's own slots (beyond its parameters) are blank - nothing of an earlier frame shows through
	for i := f.base + args; i < f.base+slots && i < f.floor; i++ {
		if t, num, obj := goatlang.VerifRaw(v.VerifStack(i)); t != 0 || num != 0 || obj != nil {
			m.report(v, "T9", fmt.Sprintf("frame set-up: local slot %d of the new frame is not blank (type tag %d, number %v): a value of an earlier frame shows through", i-f.base, t, num))
			break
		}
	}
	s.frames = append(s.frames, f)
}

func (m *Monitor) Leave(v *goatlang.VM, topN, rets int) {
	s := m.state(v)
	if len(s.frames) == 0 {
		return
	}
	f := s.frames[len(s.frames)-1]
	s.frames = s.frames[:len(s.frames)-1]
	if !f.isFunc {
		m.report(v, "T7", "Leave without matching Enter")
		return
	}
	depth := v.VerifDepth()
	if f.hasPrev && opTable[f.prevOp+8].kind == kReturn {
		return // depth at RETURN was checked when it was dispatched
	}
	// fell off the end
	m.checkTransition(v, f, f.code.n, depth, true)
	if rel := depth - f.floor; rel != 0 {
		m.report(v, "T6", fmt.Sprintf("function body fell off its end with %d operand(s) on the stack", rel))
	}
}

// checkTransition validates the step from the previously dispatched
// instruction of frame f to (pc, depth).
func (m *Monitor) checkTransition(v *goatlang.VM, f *frameState, pc, depth int, exit bool) {
	if !f.hasPrev {
		if pc != 0 && !(exit && f.code.n == 0) {
			m.report(v, "T5", fmt.Sprintf("frame starts at pc %d", pc))
		}
		return
	}
	oi := opTable[f.prevOp+8]
	ppc, pd := f.prevPC, f.prevDep
	ok := true
	var want string
	switch oi.kind {
	case kFixed, kCall:
		d := oi.delta
		if oi.f != nil {
			d = oi.f(f.a, f.b, f.c)
		}
		ok = pc == ppc+1 && depth == pd+d
		want = fmt.Sprintf("pc %d depth%+d", ppc+1, d)
		if oi.kind == kCall && f.snapshot != nil {
			for i, old := range f.snapshot {
				idx := f.base + i
				if idx >= depth {
					break
				}
				if !sameValue(old, v.VerifStack(idx)) {
					m.report(v, "T7", fmt.Sprintf("local slot %d of the calling frame changed across the call at pc %d (%s -> %s)", i, ppc, safeString(old), safeString(v.VerifStack(idx))))
					break
				}
			}
			f.snapshot = f.snapshot[:0]
		}
	case kCond:
		fall := pc == ppc+1 && depth == pd-1
		jump := pc == ppc+f.a+1 && depth == pd-1
		ok = fall || jump
		want = fmt.Sprintf("pc %d or %d, depth-1", ppc+1, ppc+f.a+1)
		m.outcome(f, ppc, fall, jump, f.a == 0)
	case kShort:
		fall := pc == ppc+1 && depth == pd-1
		jump := pc == ppc+f.a+1 && depth == pd
		ok = fall || jump
		want = fmt.Sprintf("pc %d depth-1 or pc %d depth+0", ppc+1, ppc+f.a+1)
		m.outcome(f, ppc, fall, jump, false)
	case kJump:
		ok = pc == ppc+f.a+1 && depth == pd
		want = fmt.Sprintf("pc %d depth+0", ppc+f.a+1)
	case kFunc:
		args, rets := goatlang.VerifSplit(f.a)
		if args < 0 {
			args = -args
		}
		ok = pc == ppc+args+rets+f.c+1 && depth == pd+1
		want = fmt.Sprintf("pc %d depth+1", ppc+args+rets+f.c+1)
	case kRange:
		ok = pc == ppc+f.b+1 && depth == pd-1
		want = fmt.Sprintf("pc %d depth-1", ppc+f.b+1)
	case kIter:
		fall := pc == ppc+1 && depth == pd
		jump := pc == ppc+f.c+1 && depth == pd
		ok = fall || jump
		want = fmt.Sprintf("pc %d or %d, depth+0", ppc+1, ppc+f.c+1)
		m.outcome(f, ppc, fall, jump, false)
	case kReturn, kPanic:
		ok = false
		want = "no successor"
	case kData:
		ok = false
		want = "never executed"
	case kUnknown:
		m.Unmodelled[opName[f.prevOp+8]]++
		return
	}
	if !ok {
		m.report(v, "T1", fmt.Sprintf("after %s %d %d %d at pc %d (depth %d) the VM is at pc %d depth %d; the instruction set allows %s",
			opName[f.prevOp+8], f.a, f.b, f.c, ppc, pd-f.floor, pc, depth-f.floor, want))
	}
}

func (m *Monitor) outcome(f *frameState, pc int, fall, jump, same bool) {
	if pc < 0 || pc >= len(f.code.outcome) {
		return
	}
	if same {
		f.code.outcome[pc] |= 3
		return
	}
	if fall {
		f.code.outcome[pc] |= 1
	}
	if jump {
		f.code.outcome[pc] |= 2
	}
}

func (m *Monitor) Step(v *goatlang.VM) {
	m.Steps++
	s := m.state(v)
	if len(s.frames) == 0 {
		// exec without Top (cannot happen with the hooks in place)
		m.Top(v, 0)
	}
	f := s.frames[len(s.frames)-1]
	pc, depth := v.VerifPC(), v.VerifDepth()
	op := v.VerifOp()
	ci := f.code
	if id := v.VerifCodeID(); id != ci.id {
		m.report(v, "T5", "the running frame's code is not the code the frame was entered with")
		ci = m.info(v)
		f.code = ci
	}
	_, a, b, c := v.VerifIns(pc)
	if m.tracing {
		m.ring[m.ringN%len(m.ring)] = Event{Code: ci.name, PC: pc, Op: opName[op+8], A: a, B: b, C: c, Depth: depth - f.floor, Level: len(s.frames)}
		m.ringN++
	}
	// T5: only valid instruction starts execute
	if pc < 0 || pc >= ci.n || !ci.valid[pc] {
		m.report(v, "T5", fmt.Sprintf("pc %d is not an instruction start of the running function (inside a nested function's region or past the end)", pc))
	}
	// T1 / T7 for the previous instruction of this frame
	m.checkTransition(v, f, pc, depth, false)
	// T2: operand stack never dips into the locals
	if depth < f.floor {
		m.report(v, "T2", fmt.Sprintf("operand stack depth %d is below the frame's locals (floor %d)", depth, f.floor))
	}
	// T3: depth is a function of pc
	rel := depth - f.floor
	if pc >= 0 && pc < len(ci.depthAt) {
		if ci.depthAt[pc] == -1 {
			ci.depthAt[pc] = rel
			ci.visited++
		} else if ci.depthAt[pc] != rel {
			m.report(v, "T3", fmt.Sprintf("operand depth at pc %d (%s) is %d, but it was %d on an earlier visit: some path is not stack-neutral", pc, opName[op+8], rel, ci.depthAt[pc]))
			ci.depthAt[pc] = rel // report once per drift
		}
	}
	oi := opTable[op+8]
	// T4: slot operands
	if oi.slotA && (a < 0 || a >= f.slots) {
		m.report(v, "T4", fmt.Sprintf("%s addresses local slot %d, the frame has %d", opName[op+8], a, f.slots))
	}
	if oi.slotB && (b < 0 || b >= f.slots) {
		m.report(v, "T4", fmt.Sprintf("%s addresses local slot %d, the frame has %d", opName[op+8], b, f.slots))
	}
	switch oi.kind {
	case kIter:
		k, val := goatlang.VerifSplit(b)
		if k < 0 || k >= f.slots || val < 0 || val >= f.slots {
			m.report(v, "T4", fmt.Sprintf("ITER addresses local slots %d,%d, the frame has %d", k, val, f.slots))
		}
		m.target(v, ci, pc, pc+c+1)
	case kCond, kShort, kJump:
		m.target(v, ci, pc, pc+a+1)
	case kRange:
		m.target(v, ci, pc, pc+b+1)
	case kReturn:
		// T6
		if f.isFunc && rel != a {
			m.report(v, "T6", fmt.Sprintf("RETURN %d executes with %d operand(s) on the stack", a, rel))
		}
	case kData:
		m.report(v, "T5", fmt.Sprintf("%s reached the dispatch loop", opName[op+8]))
	case kCall:
		if cap(f.snapshot) < f.slots {
			f.snapshot = make([]goatlang.Value, 0, f.slots)
		}
		f.snapshot = f.snapshot[:0]
		for i := 0; i < f.slots && f.base+i < depth; i++ {
			f.snapshot = append(f.snapshot, v.VerifStack(f.base+i))
		}
	}
	// forcing
	if (oi.kind == kCond || oi.kind == kShort) && depth > f.floor {
		if bit, ok := m.nextForce(); ok {
			v.VerifSetStack(depth-1, goatlang.Bool(bit))
			m.Forced++
		}
	}
	f.hasPrev, f.prevPC, f.prevDep, f.prevOp = true, pc, depth, op
	f.a, f.b, f.c = a, b, c
}

func (m *Monitor) nextForce() (bool, bool) {
	if m.forcePos < len(m.Force) {
		b := m.Force[m.forcePos]
		m.forcePos++
		return b, true
	}
	if m.ForceTail != nil {
		return m.ForceTail.Bool(), true
	}
	return false, false
}

func (m *Monitor) target(v *goatlang.VM, ci *codeInfo, pc, t int) {
	if t < 0 || t > ci.n || !ci.valid[t] {
		m.report(v, "T5", fmt.Sprintf("branch at pc %d targets pc %d, which is not an instruction start of this function (length %d)", pc, t, ci.n))
	}
}

func sameValue(a, b goatlang.Value) (same bool) {
	defer func() {
		if recover() != nil {
			same = true // uncomparable dynamic types: cannot judge
		}
	}()
	at, an, ao := goatlang.VerifRaw(a)
	bt, bn, bo := goatlang.VerifRaw(b)
	if at != bt {
		return false
	}
	if an != bn && !(an != an && bn != bn) {
		return false
	}
	return ao == bo
}

func safeString(v goatlang.Value) (s string) {
	defer func() {
		if recover() != nil {
			s = "?"
		}
	}()
	s = v.String()
	if len(s) > 40 {
		s = s[:40] + "..."
	}
	return s
}

// Coverage summarises what the monitor saw.
type Coverage struct {
	Codes          int `json:"code_slices"`
	Instructions   int `json:"instructions"`
	Visited        int `json:"instructions_executed"`
	Branches       int `json:"branch_sites_executed"`
	BranchesBoth   int `json:"branch_sites_both_ways"`
	BranchesInCode int `json:"branch_sites"`
}

func (m *Monitor) Coverage() Coverage {
	var c Coverage
	c.Codes = len(m.codes)
	for _, ci := range m.codes {
		for pc := 0; pc < ci.n; pc++ {
			if ci.valid[pc] {
				c.Instructions++
			}
		}
		c.Visited += ci.visited
		for _, o := range ci.outcome {
			if o != 0 {
				c.Branches++
			}
			if o == 3 {
				c.BranchesBoth++
			}
		}
	}
	return c
}
