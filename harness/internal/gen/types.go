// Package gen generates well-typed Go programs inside goatlang's supported
// subset. The same bytes are given to the Go toolchain (GOARCH=386) and to
// goatlang. Every random choice comes from the *core.Rng handed in, so a case
// index identifies a program.
package gen

import (
	"fmt"
	"strings"
)

type Kind int

const (
	KInt Kind = iota
	KInt8
	KUint8
	KUint32
	KRune
	KFloat
	KString
	KBool
	KSlice
	KMap
	KPtr
	KFunc
	KAny
	KError
)

type Type struct {
	K       Kind
	Elem    *Type
	Key     *Type
	S       *Struct
	Params  []*Type
	Results []*Type
}

type Field struct {
	Name string
	T    *Type
}

type Method struct {
	Name    string
	Params  []*Type
	Results []*Type
	NilSafe bool // begins with 'if r == nil { return literals }': callable on a nil reference
}

type Struct struct {
	Name    string
	Pkg     string // "" for package main
	Fields  []Field
	Methods []*Method
}

var (
	TInt    = &Type{K: KInt}
	TInt8   = &Type{K: KInt8}
	TUint8  = &Type{K: KUint8}
	TUint32 = &Type{K: KUint32}
	TRune   = &Type{K: KRune}
	TFloat  = &Type{K: KFloat}
	TString = &Type{K: KString}
	TBool   = &Type{K: KBool}
	TAny    = &Type{K: KAny}
	TError  = &Type{K: KError}
)

func SliceOf(e *Type) *Type  { return &Type{K: KSlice, Elem: e} }
func MapOf(k, e *Type) *Type { return &Type{K: KMap, Key: k, Elem: e} }
func PtrTo(s *Struct) *Type  { return &Type{K: KPtr, S: s} }

func (t *Type) String() string { return t.str("") }

// str spells the type as seen from package pkg.
func (t *Type) str(pkg string) string {
	switch t.K {
	case KInt:
		return "int"
	case KInt8:
		return "int8"
	case KUint8:
		return "byte"
	case KUint32:
		return "uint32"
	case KRune:
		return "rune"
	case KFloat:
		return "float64"
	case KString:
		return "string"
	case KBool:
		return "bool"
	case KAny:
		return "any"
	case KError:
		return "error"
	case KSlice:
		return "[]" + t.Elem.str(pkg)
	case KMap:
		return "map[" + t.Key.str(pkg) + "]" + t.Elem.str(pkg)
	case KPtr:
		if t.S.Pkg != "" && t.S.Pkg != pkg {
			return "*" + t.S.Pkg + "." + t.S.Name
		}
		return "*" + t.S.Name
	case KFunc:
		var ps, rs []string
		for _, p := range t.Params {
			ps = append(ps, p.str(pkg))
		}
		for _, r := range t.Results {
			rs = append(rs, r.str(pkg))
		}
		s := "func(" + strings.Join(ps, ", ") + ")"
		switch len(rs) {
		case 0:
		case 1:
			s += " " + rs[0]
		default:
			s += " (" + strings.Join(rs, ", ") + ")"
		}
		return s
	}
	panic(fmt.Sprint("kind ", t.K))
}

func (t *Type) Eq(o *Type) bool { return t.String() == o.String() }

func (t *Type) IsInteger() bool {
	switch t.K {
	case KInt, KInt8, KUint8, KUint32, KRune:
		return true
	}
	return false
}
func (t *Type) IsNumeric() bool { return t.IsInteger() || t.K == KFloat }
func (t *Type) IsScalar() bool  { return t.IsNumeric() || t.K == KString || t.K == KBool }

// Printable: fmt.Println renders it identically in Go and goatlang (C14
// concedes scalars and nested slices; multi-entry maps, struct references and
// nil pointers are not printed by generated programs).
func (t *Type) Printable() bool {
	switch t.K {
	case KSlice:
		return t.Elem.Printable() && t.Elem.K != KAny
	case KAny, KMap, KPtr, KFunc, KError:
		return false
	}
	return true
}

func (t *Type) Comparable() bool { return t.IsScalar() }

func intRange(t *Type) (lo, hi int64) {
	switch t.K {
	case KInt8:
		return -128, 127
	case KUint8:
		return 0, 255
	case KUint32:
		return 0, 4294967295
	}
	return -2147483648, 2147483647
}
