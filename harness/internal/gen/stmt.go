package gen

import (
	"fmt"
	"strings"

	"verif/internal/core"
)

const exprDepth = 3

// block emits n statements in a fresh scope and, at the end, a print of the
// block's own printable variables (so every declaration is used and its final
// value is observed).
func (g *G) block(n int) {
	g.push()
	start := len(g.scope)
	for i := 0; i < n && g.budget > 0; i++ {
		g.stmt()
	}
	g.printVars(g.scope[start:])
	g.pop()
}

func (g *G) printVars(vs []*Var) {
	if g.inMapRange {
		return
	}
	var as []string
	seen := map[string]bool{}
	for i := len(vs) - 1; i >= 0; i-- {
		v := vs[i]
		if seen[v.Name] || v.Name == "_" {
			continue
		}
		seen[v.Name] = true
		if v.T.Printable() {
			as = append(as, g.typed(v.T, v.Name, v.Const))
		} else if v.T.K == KMap || v.T.K == KSlice {
			as = append(as, "len("+v.Name+")")
		}
	}
	if len(as) == 0 {
		return
	}
	if len(as) > 6 {
		as = as[:6]
	}
	g.use("fmt")
	g.line("fmt.Println(%q, %s)", g.name("b"), strings.Join(as, ", "))
}

func (g *G) newLocal(t *Type) *Var {
	return &Var{Name: g.name("v"), T: t}
}

// declareLocal emits a declaration, sometimes shadowing an existing name.
func (g *G) declareLocal(t *Type) {
	if t.K == KSlice && g.r.Chance(1, 5) {
		// an explicit alias of another local slice; both are then Shared
		src := g.varsWhere(func(o *Var) bool { return o.T.Eq(t) && g.isLocalOnly(o) })
		if len(src) > 0 {
			o := core.Pick(g.r, src)
			v := g.newLocal(t)
			v.Shared, o.Shared = true, true
			switch g.r.Intn(3) {
			case 0:
				g.line("%s := %s", v.Name, o.Name)
			case 1:
				g.line("%s := %s[len(%s)/3:]", v.Name, o.Name, o.Name)
			default:
				g.line("%s := %s[:len(%s)/2]", v.Name, o.Name, o.Name)
			}
			g.declare(v)
			g.line("_ = %s", v.Name)
			return
		}
	}
	v := g.newLocal(t)
	// shadow an outer variable's name now and then (never one from the same block)
	if g.r.Chance(1, 4) {
		outer := g.scope
		if len(g.marks) > 0 {
			outer = g.scope[:g.marks[len(g.marks)-1]]
		}
		var cands []*Var
		for _, o := range outer {
			if o.Name != "_" && !g.declaredInCurrentBlock(o.Name) {
				cands = append(cands, o)
			}
		}
		for _, o := range g.globals {
			if !g.declaredInCurrentBlock(o.Name) && !g.hidden[o.Name] {
				cands = append(cands, o)
			}
		}
		if len(cands) > 0 {
			v.Name = core.Pick(g.r, cands).Name
			// prefer a name that is already shadowed once: three and more declarations of one name in nested blocks
			seen := map[string]int{}
			var deep []*Var
			for _, o := range cands {
				seen[o.Name]++
				if seen[o.Name] == 2 {
					deep = append(deep, o)
				}
			}
			if len(deep) > 0 && g.r.Chance(2, 3) {
				v.Name = core.Pick(g.r, deep).Name
			}
		}
	}
	init, initConst := g.expr(t, exprDepth)
	if strings.Contains(init, v.Name) && v.Name[0] != 'v' {
		// x := x + 1 style shadowing reads the outer x: legal and interesting, but
		// only when the outer variable has the same type
		ok := false
		for _, o := range g.visible() {
			if o.Name == v.Name && o.T.Eq(t) {
				ok = true
			}
		}
		if !ok {
			v.Name = g.name("v")
		}
	}
	switch n := g.r.Intn(10); {
	case t.K == KMap && g.r.Chance(1, 4):
		// an empty map made with (or without) a size hint
		if g.r.Bool() {
			g.line("%s := make(%s, %d)", v.Name, t.str(g.pkg), g.r.Intn(12))
		} else {
			g.line("var %s %s = make(%s)", v.Name, t.str(g.pkg), t.str(g.pkg))
		}
	case n < 5 && t.K != KAny && !needsTypedDecl(t, init):
		g.line("%s := %s", v.Name, g.typed(t, init, initConst))
	case n < 8:
		g.line("var %s %s = %s", v.Name, t.str(g.pkg), init)
	default:
		if t.K == KMap || t.K == KPtr {
			g.line("var %s %s = %s", v.Name, t.str(g.pkg), init)
		} else {
			g.line("var %s %s", v.Name, t.str(g.pkg))
		}
	}
	g.declare(v)
	g.line("_ = %s", v.Name)
}

// needsTypedDecl: `x := 5` would give int, `x := 1.5` float64; for other
// numeric types a constant initialiser needs the typed form.
func needsTypedDecl(t *Type, init string) bool {
	switch t.K {
	case KInt8, KUint8, KUint32, KRune:
		return isLiteralish(init)
	case KInt:
		return strings.HasPrefix(init, "'")
	case KFloat:
		return isLiteralish(init) && !strings.ContainsAny(init, ".e")
	case KSlice, KMap:
		return init == "nil"
	}
	return false
}

func isLiteralish(s string) bool {
	if s == "" {
		return false
	}
	c := s[0]
	return c == '-' || c == '\'' || (c >= '0' && c <= '9')
}

func (g *G) declaredInCurrentBlock(name string) bool {
	start := 0
	if len(g.marks) > 0 {
		start = g.marks[len(g.marks)-1]
	}
	for _, v := range g.scope[start:] {
		if v.Name == name {
			return true
		}
	}
	return false
}

func (g *G) stmt() {
	g.budget--
	if g.inMapRange {
		g.mapRangeStmt()
		return
	}
	w := g.w
	total := w.declare + w.assign + w.print + w.ifs + w.fors + w.ranges + w.switches + w.callStmt + w.appendS + w.mapOp + w.structOp + w.multi + w.strOp + w.stdlib
	n := g.r.Intn(total)
	pick := func(k int) bool {
		if n < k {
			return true
		}
		n -= k
		return false
	}
	deep := len(g.marks) > 4
	switch {
	case pick(w.declare):
		g.declareLocal(g.anyType(2))
	case pick(w.assign):
		g.assignStmt()
	case pick(w.print):
		g.printStmt()
	case pick(w.ifs):
		if deep {
			g.assignStmt()
			return
		}
		g.ifStmt()
	case pick(w.fors):
		if deep || g.loopDepth >= g.maxLoopDepth() {
			g.assignStmt()
			return
		}
		g.forStmt()
	case pick(w.ranges):
		if deep || g.loopDepth >= g.maxLoopDepth() {
			g.printStmt()
			return
		}
		g.rangeStmt()
	case pick(w.switches):
		if deep {
			g.assignStmt()
			return
		}
		g.switchStmt()
	case pick(w.callStmt):
		if g.r.Chance(1, 4) && len(g.marks) <= 3 && g.hidden == nil {
			g.lambdaStmt()
			return
		}
		g.callStmt()
	case pick(w.appendS):
		g.appendStmt()
	case pick(w.mapOp):
		g.mapStmt()
	case pick(w.structOp):
		g.structStmt()
	case pick(w.multi):
		g.multiStmt()
	case pick(w.strOp):
		g.strStmt()
	default:
		g.stdlibStmt()
	}
}

// maxLoopDepth: functions other than main may be called from loops of their
// callers, so they nest loops one level only (the call tree multiplies).
func (g *G) maxLoopDepth() int {
	if g.inRecursive {
		return 1
	}
	return 2
}

func (g *G) printStmt() {
	g.use("fmt")
	n := g.r.Range(1, 3)
	var as []string
	for i := 0; i < n; i++ {
		t := g.scalarType()
		if g.r.Chance(1, 5) {
			vs := g.varsWhere(func(v *Var) bool { return v.T.K == KSlice && v.T.Printable() })
			if len(vs) > 0 {
				as = append(as, g.ref(core.Pick(g.r, vs)))
				continue
			}
		}
		as = append(as, g.exprT(t, exprDepth))
	}
	switch g.r.Intn(8) {
	case 0:
		g.line("fmt.Print(%s)", as[0])
		g.line("fmt.Println()")
	case 1:
		g.line("fmt.Println(fmt.Sprint(%s))", as[0])
	default:
		g.line("fmt.Println(%s)", strings.Join(as, ", "))
	}
}

// lvalue picks something assignable of a scalar-ish type and returns its text
// and type; guard is a condition that must hold for the access to be safe.
func (g *G) lvalue() (lv string, t *Type, guard string, ok bool) {
	type cand struct {
		s, guard string
		t        *Type
	}
	var cs []cand
	for _, v := range g.visible() {
		if v.Const {
			continue
		}
		if g.curPure && g.isGlobal(v) {
			continue
		}
		name := g.ref(v)
		switch v.T.K {
		case KPtr:
			if g.curPure {
				continue
			}
			for _, f := range v.T.S.Fields {
				if f.T.IsScalar() {
					cs = append(cs, cand{s: name + "." + f.Name, t: f.T})
				}
				if f.T.K == KSlice && f.T.Elem.IsScalar() {
					cs = append(cs, cand{s: name + "." + f.Name + "[0]", guard: "len(" + name + "." + f.Name + ") > 0", t: f.T.Elem})
				}
			}
		case KSlice:
			if g.curPure && !g.isLocalOnly(v) {
				continue
			}
			if v.T.Elem.IsScalar() {
				i := g.r.Intn(3)
				cs = append(cs, cand{s: fmt.Sprintf("%s[%d]", name, i), guard: fmt.Sprintf("len(%s) > %d", name, i), t: v.T.Elem})
				for _, iv := range g.visible() {
					if iv.Small && iv.T.K == KInt {
						cs = append(cs, cand{s: fmt.Sprintf("%s[%s]", name, iv.Name), guard: fmt.Sprintf("%s < len(%s)", iv.Name, name), t: v.T.Elem})
						break
					}
				}
			}
			if v.T.Elem.K == KPtr {
				for _, f := range v.T.Elem.S.Fields {
					if f.T.IsScalar() {
						cs = append(cs, cand{s: fmt.Sprintf("%s[0].%s", name, f.Name), guard: fmt.Sprintf("len(%s) > 0 && %s[0] != nil", name, name), t: f.T})
					}
				}
			}
		case KMap:
			if g.curPure && !g.isLocalOnly(v) {
				continue
			}
			if v.T.Elem.IsScalar() {
				save := g.noCalls
				g.noCalls = true
				k := g.keyLeaf(v.T.Key)
				g.noCalls = save
				cs = append(cs, cand{s: name + "[" + k + "]", t: v.T.Elem})
			}
		default:
			if !v.RO && v.T.IsScalar() {
				cs = append(cs, cand{s: name, t: v.T}, cand{s: name, t: v.T})
			}
		}
	}
	if len(cs) == 0 {
		return "", nil, "", false
	}
	c := core.Pick(g.r, cs)
	return c.s, c.t, c.guard, true
}

// isLocalOnly: the variable was created inside the current function (so a
// pure function may mutate it).
func (g *G) isLocalOnly(v *Var) bool {
	return strings.HasPrefix(v.Name, "v") && !g.isGlobal(v) && !v.RO
}

func (g *G) assignStmt() {
	lv, t, guard, ok := g.lvalue()
	if !ok {
		g.declareLocal(g.scalarType())
		return
	}
	open := false
	if guard != "" {
		g.line("if %s {", guard)
		g.ind++
		open = true
	}
	switch {
	case t.IsInteger():
		switch n := g.r.Intn(11); {
		case n == 10:
			// the variable plus and minus several constants, assigned to itself: chains of constant additions on one line
			chain := lv
			for k := g.r.Range(2, 4); k > 0; k-- {
				chain += core.Pick(g.r, []string{" + ", " - "}) + fmt.Sprint(g.r.Range(1, 3))
			}
			g.line("%s = %s", lv, chain)
		case n < 3:
			g.line("%s%s", lv, core.Pick(g.r, []string{"++", "--"}))
		case n < 7:
			op := core.Pick(g.r, []string{"+=", "-=", "*=", "|=", "&=", "^=", "<<=", ">>=", "/=", "%="})
			e := g.intEx(t, exprDepth-1)
			switch op {
			case "<<=", ">>=":
				g.line("%s %s %d", lv, op, g.r.Intn(9))
			case "/=", "%=":
				if e.cnst {
					g.line("%s %s %d", lv, op, g.r.Range(1, 9))
				} else {
					g.line("%s %s (%s) | 1", lv, op, e.s)
				}
			default:
				g.line("%s %s %s", lv, op, e.s)
			}
		default:
			e, _ := g.expr(t, exprDepth)
			g.line("%s = %s", lv, e)
		}
	case t.K == KFloat:
		if g.r.Bool() {
			e := g.floatEx(exprDepth - 1)
			op := core.Pick(g.r, []string{"+=", "-=", "*=", "/="})
			if op == "/=" && e.cnst {
				g.line("%s /= 4.0", lv)
			} else {
				g.line("%s %s %s", lv, op, e.s)
			}
		} else {
			e, _ := g.expr(t, exprDepth)
			g.line("%s = %s", lv, e)
		}
	case t.K == KString:
		if g.r.Bool() {
			// bounded growth: never s += s
			save := g.noCalls
			g.noCalls = true
			g.line("%s += %s", lv, core.Pick(g.r, []string{core.Pick(g.r, strLits), "string(rune(97 + len(" + lv + ")%26))"}))
			g.noCalls = save
		} else if g.loopDepth == 0 && !g.inRecursive {
			g.line("%s = %s", lv, g.strExpr(exprDepth))
		} else {
			// inside loops (and recursive functions) a string may only grow additively: an assignment
			// whose right-hand side mentions string variables could double it on every iteration
			switch g.r.Intn(3) {
			case 0:
				g.line("%s = %s", lv, core.Pick(g.r, strLits))
			case 1:
				g.line("%s = %s[:len(%s)/2]", lv, lv, lv)
			default:
				g.line("%s = %s[len(%s)/2:] + %s", lv, lv, lv, core.Pick(g.r, strLits))
			}
		}
	default:
		e, _ := g.expr(t, exprDepth)
		g.line("%s = %s", lv, e)
	}
	if open {
		g.ind--
		g.line("}")
	}
}

func (g *G) ifStmt() {
	g.push()
	cond := g.boolExpr(exprDepth)
	if g.r.Chance(1, 4) {
		// init statement
		t := g.scalarType()
		v := g.newLocal(t)
		init := g.exprT(t, 2)
		g.declare(v)
		cond2 := g.boolExpr(2)
		g.line("if %s := %s; %s {", v.Name, init, cond2)
		g.ind++
		g.line("_ = %s", v.Name)
		g.ind--
	} else if call := g.callForHeader(); call != "" && g.r.Chance(1, 3) {
		g.line("if %s; %s {", call, cond)
	} else {
		g.line("if %s {", cond)
	}
	g.ind++
	g.block(g.r.Range(1, 3))
	g.ind--
	nElse := g.r.Intn(3)
	for i := 0; i < nElse; i++ {
		g.line("} else if %s {", g.boolExpr(2))
		g.ind++
		g.block(g.r.Range(1, 2))
		g.ind--
	}
	if g.r.Bool() {
		g.line("} else {")
		g.ind++
		g.block(g.r.Range(1, 2))
		g.ind--
	}
	g.line("}")
	g.pop()
}

// callForHeader renders a call usable as the simple statement of an if / for
// header: any callable function with variable-or-literal arguments, results
// discarded.
func (g *G) callForHeader() string {
	if g.noCalls {
		return ""
	}
	var cands []*Func
	for _, f := range g.callable() {
		if f.Recv == nil && !f.Rec && (!g.curPure || f.Pure) {
			cands = append(cands, f)
		}
	}
	if len(cands) == 0 {
		return ""
	}
	f := core.Pick(g.r, cands)
	save := g.noCalls
	g.noCalls = true
	args, ok := g.callArgs(f)
	g.noCalls = save
	if !ok || strings.Contains(args, "...") {
		return ""
	}
	return g.fname(f) + "(" + args + ")"
}

func (g *G) loopBody(n int) {
	g.loopDepth++
	g.push()
	start := len(g.scope)
	for i := 0; i < n && g.budget > 0; i++ {
		if g.r.Chance(1, 7) {
			g.line("if %s {", g.boolExpr(2))
			g.ind++
			g.line(core.Pick(g.r, []string{"break", "continue", "continue"}))
			g.ind--
			g.line("}")
			continue
		}
		g.stmt()
	}
	g.printVars(g.scope[start:])
	g.pop()
	g.loopDepth--
}

func (g *G) forStmt() {
	g.push()
	kind := g.r.Intn(5)
	if call := g.callForHeader(); call != "" && g.r.Chance(1, 4) {
		// a call as init and/or post statement of the for clause
		c := &Var{Name: g.name("n"), T: TInt, RO: true, Small: true}
		g.line("%s := 0", c.Name)
		g.declare(c)
		switch g.r.Intn(3) {
		case 0:
			g.line("for %s; %s < %d; %s++ {", call, c.Name, g.r.Range(1, 3), c.Name)
			g.ind++
		case 1:
			g.line("for %s = 0; %s < %d; %s {", c.Name, c.Name, g.r.Range(1, 3), call)
			g.ind++
			g.line("%s++", c.Name)
		default:
			g.line("for %s; %s < %d; %s {", call, c.Name, g.r.Range(1, 3), call)
			g.ind++
			g.line("%s++", c.Name)
		}
		g.loopBody(g.r.Range(1, 3))
		g.ind--
		g.line("}")
		g.pop()
		return
	}
	switch kind {
	case 0, 1:
		i := &Var{Name: g.name("i"), T: TInt, RO: true, Small: true}
		n := g.r.Range(1, 4)
		g.declare(i)
		switch g.r.Intn(3) {
		case 0:
			g.line("for %s := 0; %s < %d; %s++ {", i.Name, i.Name, n, i.Name)
		case 1:
			g.line("for %s := 0; %s < %d; %s += 1 {", i.Name, i.Name, n, i.Name)
		default:
			g.line("for %s := 0; %s < %d; %s = %s + 1 {", i.Name, i.Name, n, i.Name, i.Name)
		}
		g.ind++
		g.loopBody(g.r.Range(1, 4))
		g.ind--
		g.line("}")
	case 2:
		// loop over a slice by index
		vs := g.varsWhere(func(v *Var) bool { return v.T.K == KSlice && v.T.Elem.IsScalar() })
		if len(vs) == 0 {
			g.pop()
			g.declareLocal(SliceOf(g.scalarType()))
			return
		}
		s := core.Pick(g.r, vs)
		i := &Var{Name: g.name("i"), T: TInt, RO: true, Small: true}
		g.declare(i)
		lock := *s
		lock.RO = true
		g.declare(&lock)
		g.line("for %s := 0; %s < len(%s) && %s < 5; %s++ {", i.Name, i.Name, g.ref(s), i.Name, i.Name)
		g.ind++
		g.use("fmt")
		g.line("fmt.Println(%q, %s, %s[%s])", g.name("e"), i.Name, g.ref(s), i.Name)
		g.loopBody(g.r.Range(1, 3))
		g.ind--
		g.line("}")
	case 3:
		// condition-only loop with its own counter
		c := &Var{Name: g.name("n"), T: TInt, RO: true, Small: true}
		g.line("%s := 0", c.Name)
		g.declare(c)
		g.line("for %s < %d {", c.Name, g.r.Range(1, 4))
		g.ind++
		g.line("%s++", c.Name)
		g.loopBody(g.r.Range(1, 3))
		g.ind--
		g.line("}")
	default:
		c := &Var{Name: g.name("n"), T: TInt, RO: true, Small: true}
		g.line("%s := 0", c.Name)
		g.declare(c)
		g.line("for {")
		g.ind++
		g.line("%s++", c.Name)
		g.line("if %s > %d {", c.Name, g.r.Range(1, 4))
		g.line("\tbreak")
		g.line("}")
		g.loopBody(g.r.Range(1, 3))
		g.ind--
		g.line("}")
	}
	g.pop()
}

func (g *G) rangeStmt() {
	vs := g.varsWhere(func(v *Var) bool { return v.T.K == KSlice || v.T.K == KString || v.T.K == KMap })
	if len(vs) == 0 {
		g.declareLocal(SliceOf(g.scalarType()))
		return
	}
	s := core.Pick(g.r, vs)
	g.push()
	defer g.pop()
	name := g.ref(s)
	switch s.T.K {
	case KMap:
		// order must not be observable: commutative integer accumulation only
		acc := g.name("acc")
		g.line("%s := 0", acc)
		k := &Var{Name: g.name("k"), T: s.T.Key, RO: true}
		v := &Var{Name: g.name("x"), T: s.T.Elem, RO: true}
		if !strings.Contains(name, ".") && g.r.Chance(1, 4) {
			// a loop variable may have the name of the variable that is ranged over: the range expression is
			// evaluated before the loop variable exists
			if g.r.Bool() {
				v.Name = name
			} else {
				k.Name = name
			}
		}
		switch g.r.Intn(3) {
		case 0:
			g.line("for %s, %s := range %s {", k.Name, v.Name, name)
			g.ind++
			g.line("_, _ = %s, %s", k.Name, v.Name)
			g.line("%s += %s + %s", acc, g.hashOf(k), g.hashOf(v))
		case 1:
			g.line("for %s := range %s {", k.Name, name)
			g.ind++
			g.line("%s ^= %s * 31", acc, g.hashOf(k))
		default:
			g.line("for _, %s := range %s {", v.Name, name)
			g.ind++
			g.line("_ = %s", v.Name)
			g.line("%s += %s", acc, g.hashOf(v))
			g.line("%s++", acc)
		}
		g.ind--
		g.line("}")
		g.use("fmt")
		g.line("fmt.Println(%q, %s, len(%s))", g.name("m"), acc, name)
		return
	case KString:
		i := &Var{Name: g.name("i"), T: TInt, RO: true, Small: true}
		c := &Var{Name: g.name("c"), T: TRune, RO: true}
		g.declare(i)
		g.declare(c)
		switch g.r.Intn(3) {
		case 0:
			g.line("for %s, %s := range %s {", i.Name, c.Name, name)
			g.ind++
			g.line("_, _ = %s, %s", i.Name, c.Name)
		case 1:
			g.scope = g.scope[:len(g.scope)-1]
			g.line("for %s := range %s {", i.Name, name)
			g.ind++
			g.line("_ = %s", i.Name)
		default:
			g.scope = g.scope[:len(g.scope)-2]
			g.declare(c)
			g.line("for _, %s := range %s {", c.Name, name)
			g.ind++
			g.line("_ = %s", c.Name)
		}
	default:
		if !strings.Contains(name, ".") && g.r.Chance(1, 6) {
			// (the same for a slice: the element variable takes the slice's name)
			acc := g.name("acc")
			g.line("%s := 0", acc)
			e := &Var{Name: name, T: s.T.Elem}
			g.line("for i, %s := range %s {", name, name)
			g.ind++
			g.line("%s += (i + 1) * (%s & 1023)", acc, g.hashOf(e))
			g.ind--
			g.line("}")
			g.use("fmt")
			g.line("fmt.Println(%q, %s, len(%s))", g.name("q"), acc, name)
			return
		}
		i := &Var{Name: g.name("i"), T: TInt, RO: true, Small: true}
		e := &Var{Name: g.name("e"), T: s.T.Elem, RO: true}
		lock := *s
		lock.RO = true
		switch g.r.Intn(4) {
		case 0:
			g.declare(i)
			g.declare(e)
			g.line("for %s, %s := range %s {", i.Name, e.Name, name)
			g.ind++
			g.line("_, _ = %s, %s", i.Name, e.Name)
		case 1:
			g.declare(i)
			g.line("for %s := range %s {", i.Name, name)
			g.ind++
			g.line("_ = %s", i.Name)
		case 2:
			g.declare(e)
			g.line("for _, %s := range %s {", e.Name, name)
			g.ind++
			g.line("_ = %s", e.Name)
		default:
			g.line("for range %s {", name)
			g.ind++
		}
		g.declare(&lock)
	}
	if g.r.Bool() {
		g.use("fmt")
		var as []string
		for _, v := range g.scope[g.marks[len(g.marks)-1]:] {
			if v.T.Printable() && v.RO && v.Name != s.Name {
				as = append(as, v.Name)
			}
		}
		if len(as) > 0 {
			g.line("fmt.Println(%q, %s)", g.name("r"), strings.Join(as, ", "))
		}
	}
	g.loopBody(g.r.Range(1, 3))
	g.ind--
	g.line("}")
}

// hashOf maps a value of any hashable scalar kind to an int expression.
func (g *G) hashOf(v *Var) string {
	switch v.T.K {
	case KInt:
		return v.Name
	case KInt8, KUint8, KUint32, KRune:
		return "int(" + v.Name + ")"
	case KFloat:
		g.needClamp()
		return "int(clampf(" + v.Name + " * 8))"
	case KString:
		return "len(" + v.Name + ")"
	case KBool:
		g.needB2i()
		return "b2i(" + v.Name + ")"
	case KSlice, KMap:
		return "len(" + v.Name + ")"
	}
	return "1"
}

func (g *G) needB2i() { g.imports["#b2i"] = true }

// mapRangeStmt is unused (map range bodies are generated inline); kept for the
// inMapRange guard.
func (g *G) mapRangeStmt() {}

func (g *G) switchStmt() {
	g.push()
	defer g.pop()
	tagged := g.r.Chance(2, 3)
	var t *Type
	if tagged {
		t = core.Pick(g.r, []*Type{TInt, TInt, TString, TUint8, TBool})
		tag, tagConst := g.expr(t, 2)
		if tagConst || isLiteralish(tag) || tag == "true" || tag == "false" || strings.HasPrefix(tag, `"`) || strings.HasPrefix(tag, "`") {
			// a constant tag with constant cases makes Go reject duplicate/mismatched constants; use a variable
			v := g.newLocal(t)
			g.line("var %s %s = %s", v.Name, t.str(g.pkg), tag)
			g.declare(v)
			tag = v.Name
		}
		g.line("switch %s {", tag)
	} else {
		g.line("switch {")
	}
	nCases := g.r.Range(1, 4)
	if g.r.Chance(1, 8) {
		nCases = 0 // only a default clause, or no clause at all
	}
	defPos := g.r.Intn(nCases + 2) // nCases+1 = no default
	used := map[string]bool{}
	for i := 0; i <= nCases; i++ {
		if i == defPos {
			g.line("default:")
			g.ind++
			g.caseBody()
			g.ind--
		}
		if i == nCases {
			break
		}
		var vals []string
		nv := 1
		if g.r.Chance(1, 4) {
			nv = g.r.Range(2, 3)
		}
		for j := 0; j < nv; j++ {
			var c string
			if tagged {
				c = g.literal(t)
				if used[normLit(c)] {
					continue // duplicate constant cases are a compile error in Go
				}
				used[normLit(c)] = true
				if t.K == KBool && g.r.Bool() {
					c = g.boolExpr(1)
					if c == "true" || c == "false" {
						continue
					}
				} else if g.r.Chance(1, 4) {
					save := g.noCalls
					g.noCalls = true
					e := g.exNonConst(t)
					g.noCalls = save
					if e != "" {
						c = e
					}
				}
			} else {
				c = g.boolExpr(2)
			}
			vals = append(vals, c)
		}
		if len(vals) == 0 {
			continue
		}
		g.line("case %s:", strings.Join(vals, ", "))
		g.ind++
		g.caseBody()
		g.ind--
	}
	g.line("}")
}

func (g *G) exNonConst(t *Type) string {
	vs := g.varsWhere(func(v *Var) bool { return v.T.Eq(t) && !v.Const })
	if len(vs) == 0 {
		return ""
	}
	return g.ref(core.Pick(g.r, vs))
}

func (g *G) caseBody() {
	g.push()
	start := len(g.scope)
	n := g.r.Range(0, 3)
	for i := 0; i < n && g.budget > 0; i++ {
		if g.r.Chance(1, 8) {
			g.line("if %s {", g.boolExpr(2))
			g.line("\tbreak")
			g.line("}")
			continue
		}
		g.stmt()
	}
	g.printVars(g.scope[start:])
	g.pop()
}

func (g *G) appendStmt() {
	vs := g.varsWhere(func(v *Var) bool {
		return v.T.K == KSlice && !v.RO && !v.Const && !v.Shared && !(g.curPure && !g.isLocalOnly(v))
	})
	if len(vs) == 0 {
		g.declareLocal(SliceOf(g.scalarType()))
		return
	}
	s := core.Pick(g.r, vs)
	name := g.ref(s)
	switch n := g.r.Intn(11); {
	case n == 10 && s.T.Printable():
		// a sub-slice of a literal (cap == len in both implementations) keeps the spare capacity: an
		// append through it that fits writes the parent's array, and it can be re-sliced up to the capacity
		var es []string
		for i := g.r.Range(4, 6); i > 0; i-- {
			es = append(es, g.elemLiteral(s.T.Elem))
		}
		base, head := g.name("base"), g.name("head")
		k := g.r.Range(0, 2)
		g.use("fmt")
		g.line("%s := %s{%s}", base, s.T.str(g.pkg), strings.Join(es, ", "))
		g.line("%s := %s[%s:%d]", head, base, core.Pick(g.r, []string{"", "0", "1"}), k+1)
		g.line("%s = append(%s, %s)", head, head, g.elemLiteral(s.T.Elem))
		g.line("fmt.Println(%q, %s, %s, len(%s))", g.name("s"), base, head, head)
		g.line("%s = %s[:%d]", head, head, len(es)-1)
		g.line("fmt.Println(%q, %s)", g.name("s"), head)
		return
	case n < 5:
		var es []string
		for i := g.r.Range(1, 3); i > 0; i-- {
			e, _ := g.expr(s.T.Elem, 2)
			es = append(es, e)
		}
		g.line("%s = append(%s, %s)", name, name, strings.Join(es, ", "))
	case n < 7 && g.loopDepth == 0:
		others := g.varsOf(s.T, false)
		g.line("%s = append(%s, %s...)", name, name, g.ref(core.Pick(g.r, others)))
	case n < 8:
		g.line("%s = %s[:len(%s)/2]", name, name, name)
	case n < 9:
		others := g.varsOf(s.T, false)
		o := g.ref(core.Pick(g.r, others))
		g.use("fmt")
		g.line("fmt.Println(%q, copy(%s, %s))", g.name("c"), name, o)
	default:
		if s.T.Elem.K == KUint8 {
			g.line("%s = append(%s, %s...)", name, name, core.Pick(g.r, strLits))
		} else {
			g.line("%s = append(%s[:0], %s...)", name, name, g.literal(s.T))
		}
	}
	if s.T.Printable() && g.r.Bool() {
		g.use("fmt")
		g.line("fmt.Println(%q, %s, len(%s))", g.name("s"), name, name)
	}
}

func (g *G) mapStmt() {
	vs := g.varsWhere(func(v *Var) bool { return v.T.K == KMap && !(g.curPure && !g.isLocalOnly(v)) })
	if len(vs) == 0 {
		g.declareLocal(MapOf(core.Pick(g.r, []*Type{TString, TInt}), g.scalarType()))
		return
	}
	m := core.Pick(g.r, vs)
	name := g.ref(m)
	save := g.noCalls
	g.noCalls = true
	k := g.keyLeaf(m.T.Key)
	g.noCalls = save
	g.use("fmt")
	switch g.r.Intn(7) {
	case 6:
		// a nil map can be read, measured, ranged over and deleted from
		nm := g.name("nm")
		g.line("var %s %s", nm, m.T.str(g.pkg))
		g.line("delete(%s, %s)", nm, k)
		g.line("for range %s {", nm)
		g.line("\tfmt.Println(%q)", g.name("l"))
		g.line("}")
		if m.T.Elem.Printable() {
			g.line("fmt.Println(%q, len(%s), %s[%s], %s == nil)", g.name("l"), nm, nm, k, nm)
		} else {
			g.line("fmt.Println(%q, len(%s), %s == nil)", g.name("l"), nm, nm)
		}
	case 0, 1:
		e, _ := g.expr(m.T.Elem, 2)
		g.line("%s[%s] = %s", name, k, e)
	case 2:
		g.line("delete(%s, %s)", name, k)
		if g.r.Bool() {
			// delete, then insert the same key again: it is one key afterwards
			e, _ := g.expr(m.T.Elem, 1)
			g.line("%s[%s] = %s", name, k, e)
		}
	case 3:
		v, ok := g.name("v"), g.name("ok")
		if g.r.Chance(1, 3) {
			g.line("var %s, %s = %s[%s]", v, ok, name, k) // the same lookup written as a var declaration
		} else {
			g.line("%s, %s := %s[%s]", v, ok, name, k)
		}
		if m.T.Elem.Printable() {
			g.line("fmt.Println(%q, %s, %s)", g.name("l"), v, ok)
		} else {
			g.line("_ = %s", v)
			g.line("fmt.Println(%q, %s)", g.name("l"), ok)
		}
	case 4:
		if m.T.Elem.IsInteger() {
			g.line("%s[%s]++", name, k)
		} else if m.T.Elem.K == KSlice {
			e, _ := g.expr(m.T.Elem.Elem, 1)
			g.line("%s[%s] = append(%s[%s], %s)", name, k, name, k, e)
		} else {
			g.line("delete(%s, %s)", name, k)
		}
	default:
		if m.T.Elem.Printable() {
			g.line("fmt.Println(%q, len(%s), %s[%s])", g.name("m"), name, name, k)
		} else {
			g.line("fmt.Println(%q, len(%s))", g.name("m"), name)
		}
	}
}

func (g *G) structStmt() {
	if len(g.structs) == 0 && g.libStructs() == nil {
		g.assignStmt()
		return
	}
	vs := g.varsWhere(func(v *Var) bool { return v.T.K == KPtr })
	if len(vs) == 0 || g.r.Chance(1, 5) {
		all := append(append([]*Struct{}, g.structs...), g.libStructs()...)
		s := core.Pick(g.r, all)
		v := g.newLocal(PtrTo(s))
		g.line("%s := %s", v.Name, g.structLit(s, 1))
		g.declare(v)
		g.line("_ = %s", v.Name)
		return
	}
	p := core.Pick(g.r, vs)
	name := g.ref(p)
	g.use("fmt")
	if len(p.T.S.Methods) > 0 && g.r.Bool() && !g.noCalls {
		m := core.Pick(g.r, p.T.S.Methods)
		if g.curPure && !strings.HasPrefix(m.Name, "Get") {
			g.printFields(p)
			return
		}
		args, ok := g.simpleArgs(m.Params)
		if ok {
			call := fmt.Sprintf("%s.%s(%s)", name, m.Name, args)
			switch {
			case len(m.Results) == 0:
				g.line("%s", call)
			case len(m.Results) == 1 && m.Results[0].Printable():
				if g.r.Chance(1, 4) {
					// method value taken first
					mv := g.name("mv")
					g.line("%s := %s.%s", mv, name, m.Name)
					g.line("fmt.Println(%q, %s(%s))", g.name("c"), mv, args)
				} else {
					g.line("fmt.Println(%q, %s)", g.name("c"), call)
				}
			default:
				var ls []string
				for range m.Results {
					ls = append(ls, g.name("r"))
				}
				g.line("%s := %s", strings.Join(ls, ", "), call)
				g.line("_, _ = %s, %s", ls[0], ls[len(ls)-1])
				for i, rt := range m.Results {
					if rt.Printable() {
						g.line("fmt.Println(%q, %s)", g.name("c"), ls[i])
					}
				}
			}
			return
		}
	}
	// pointer-typed field: link / follow under a nil guard
	for _, f := range p.T.S.Fields {
		if f.T.K == KPtr && !g.curPure && g.r.Chance(1, 3) {
			// a method that guards its receiver is called on a reference that may be nil
			for _, m := range f.T.S.Methods {
				if !m.NilSafe {
					continue
				}
				if args, ok := g.simpleArgs(m.Params); ok {
					var ls []string
					for range m.Results {
						ls = append(ls, g.name("r"))
					}
					g.use("fmt")
					g.line("%s := %s.%s.%s(%s)", strings.Join(ls, ", "), name, f.Name, m.Name, args)
					g.line("fmt.Println(%q, %s)", g.name("n"), strings.Join(ls, ", "))
					return
				}
			}
		}
		if f.T.K == KPtr && g.r.Chance(1, 2) && !g.curPure {
			if g.r.Bool() {
				g.line("%s.%s = %s", name, f.Name, g.structLit(f.T.S, 0))
			} else {
				g.line("if %s.%s != nil {", name, f.Name)
				q := &Var{Name: name + "." + f.Name, T: f.T}
				g.ind++
				g.printFields(q)
				g.ind--
				g.line("}")
			}
			return
		}
	}
	g.printFields(p)
}

func (g *G) printFields(p *Var) {
	var as []string
	pn := g.ref(p)
	for _, f := range p.T.S.Fields {
		if f.T.Printable() {
			as = append(as, pn+"."+f.Name)
		} else if f.T.K == KPtr {
			as = append(as, pn+"."+f.Name+" == nil")
		} else if f.T.K == KMap || f.T.K == KSlice {
			as = append(as, "len("+pn+"."+f.Name+")")
		}
	}
	if len(as) == 0 {
		as = []string{pn + " != nil"}
	}
	if len(as) > 6 {
		as = as[:6]
	}
	g.use("fmt")
	g.line("fmt.Println(%q, %s)", g.name("f"), strings.Join(as, ", "))
}

func (g *G) libStructs() []*Struct {
	if g.pkg != "" {
		return nil
	}
	var res []*Struct
	for _, l := range g.libs {
		res = append(res, l.structs...)
	}
	return res
}

func (g *G) callStmt() {
	fs := g.callable()
	var cands []*Func
	for _, f := range fs {
		if f.Recv == nil && (!g.curPure || f.Pure) {
			cands = append(cands, f)
		}
	}
	if len(cands) == 0 || g.noCalls {
		g.assignStmt()
		return
	}
	f := core.Pick(g.r, cands)
	args, ok := g.callArgs(f)
	if !ok {
		g.assignStmt()
		return
	}
	call := g.fname(f) + "(" + args + ")"
	g.use("fmt")
	switch {
	case len(f.Results) == 0:
		g.line("%s", call)
	case len(f.Results) == 1:
		switch g.r.Intn(4) {
		case 0:
			g.line("%s", call) // result discarded
		case 1:
			vs := g.varsOf(f.Results[0], true)
			if len(vs) > 0 && vs[0].T.IsScalar() {
				g.line("%s = %s", g.ref(vs[0]), call)
				break
			}
			fallthrough
		default:
			v := g.newLocal(f.Results[0])
			g.line("%s := %s", v.Name, call)
			g.declare(v)
			g.line("_ = %s", v.Name)
		}
	default:
		var ls []string
		var nv []*Var
		for _, rt := range f.Results {
			if g.r.Chance(1, 5) {
				ls = append(ls, "_")
				continue
			}
			v := g.newLocal(rt)
			ls = append(ls, v.Name)
			nv = append(nv, v)
		}
		if len(nv) == 0 {
			g.line("%s", call)
			return
		}
		sameType := len(nv) == len(f.Results)
		for _, rt := range f.Results {
			if !rt.Eq(f.Results[0]) {
				sameType = false
			}
		}
		if sameType && g.r.Chance(1, 2) {
			// var a, b T = f(): typed declaration of several variables from one multi-result call
			g.line("var %s %s = %s", strings.Join(ls, ", "), f.Results[0].str(g.pkg), call)
		} else if g.r.Chance(1, 5) {
			g.line("var %s = %s", strings.Join(ls, ", "), call)
		} else {
			g.line("%s := %s", strings.Join(ls, ", "), call)
		}
		for _, v := range nv {
			g.declare(v)
			g.line("_ = %s", v.Name)
		}
	}
}

func (g *G) callArgs(f *Func) (string, bool) {
	var as []string
	for i, p := range f.Params {
		if f.Variadic && i == len(f.Params)-1 {
			switch g.r.Intn(4) {
			case 0: // no surplus arguments
			case 1:
				vs := g.varsOf(p.T, false)
				if len(vs) > 0 {
					as = append(as, g.ref(core.Pick(g.r, vs))+"...")
					break
				}
				fallthrough
			default:
				for n := g.r.Range(1, 3); n > 0; n-- {
					save := g.noCalls
					g.noCalls = true
					e, _ := g.leaf(p.T.Elem)
					g.noCalls = save
					as = append(as, e)
				}
			}
			continue
		}
		if f.Rec && i == 0 {
			as = append(as, fmt.Sprint(g.r.Range(0, 6)))
			continue
		}
		if p.T.K == KFunc {
			fn := g.funcOfType(p.T)
			if fn == "" {
				return "", false
			}
			as = append(as, fn)
			continue
		}
		if f.Pure {
			g.aliasOK = true
			e, _ := g.expr(p.T, 2)
			g.aliasOK = false
			as = append(as, e)
		} else if p.T.K == KSlice {
			loc := g.varsWhere(func(o *Var) bool { return o.T.Eq(p.T) && g.isLocalOnly(o) })
			if len(loc) > 0 && g.r.Chance(2, 3) {
				as = append(as, core.Pick(g.r, loc).Name)
			} else {
				as = append(as, g.literal(p.T))
			}
		} else {
			save := g.noCalls
			g.noCalls = true
			e, _ := g.leaf(p.T)
			g.noCalls = save
			as = append(as, e)
		}
	}
	return strings.Join(as, ", "), true
}

// lambdaStmt declares a function literal (no captured variables: closures are
// outside the subset), calls it, and passes it on where a function-typed
// parameter wants one.
func (g *G) lambdaStmt() {
	np := g.r.Intn(3)
	var ps []*Var
	for i := 0; i < np; i++ {
		ps = append(ps, &Var{Name: fmt.Sprintf("a%d", i), T: g.scalarType()})
	}
	nr := g.r.Range(1, 2)
	var rts []*Type
	for i := 0; i < nr; i++ {
		rts = append(rts, g.scalarType())
	}
	if g.r.Chance(1, 3) {
		// the func(int) int shape that function-typed parameters use
		ps = []*Var{{Name: "a0", T: TInt}}
		rts = []*Type{TInt}
	}
	// generate the body in an isolated context: only its parameters and the globals are visible
	saveScope, saveMarks, saveRes, savePure, saveBudget, saveLoop, saveNoCalls := g.scope, g.marks, g.curResults, g.curPure, g.budget, g.loopDepth, g.noCalls
	g.hidden = map[string]bool{}
	for _, v := range saveScope {
		g.hidden[v.Name] = true
	}
	g.scope, g.marks = nil, nil
	g.push()
	for _, p := range ps {
		g.declare(p)
	}
	g.curResults, g.curPure, g.budget, g.loopDepth, g.noCalls = rts, true, g.r.Range(1, 3), 0, true
	name := g.name("fn")
	var sig []string
	for _, p := range ps {
		sig = append(sig, p.Name+" "+p.T.str(g.pkg))
	}
	var rs []string
	for _, t := range rts {
		rs = append(rs, t.str(g.pkg))
	}
	rt := " " + rs[0]
	if len(rs) > 1 {
		rt = " (" + strings.Join(rs, ", ") + ")"
	}
	g.line("%s := func(%s)%s {", name, strings.Join(sig, ", "), rt)
	g.ind++
	for _, p := range ps {
		g.line("_ = %s", p.Name)
	}
	for i := 0; i < 2 && g.budget > 0; i++ {
		g.stmt()
	}
	g.returnStmt()
	g.ind--
	g.line("}")
	g.pop()
	g.scope, g.marks, g.curResults, g.curPure, g.budget, g.loopDepth, g.noCalls = saveScope, saveMarks, saveRes, savePure, saveBudget, saveLoop, saveNoCalls
	g.hidden = nil
	// call it
	var args []string
	for _, p := range ps {
		save := g.noCalls
		g.noCalls = true
		e, _ := g.leaf(p.T)
		g.noCalls = save
		args = append(args, e)
	}
	var ls []string
	for range rts {
		ls = append(ls, g.name("v"))
	}
	g.line("%s := %s(%s)", strings.Join(ls, ", "), name, strings.Join(args, ", "))
	for i, l := range ls {
		g.declare(&Var{Name: l, T: rts[i]})
		g.line("_ = %s", l)
	}
	ft := &Type{K: KFunc, Results: rts}
	for _, p := range ps {
		ft.Params = append(ft.Params, p.T)
	}
	g.declare(&Var{Name: name, T: ft, RO: true})
}

func (g *G) multiStmt() {
	// swap / parallel assignment of two plain variables
	t := g.scalarType()
	vs := g.varsOf(t, true)
	var plain []*Var
	for _, v := range vs {
		if v.T.IsScalar() {
			plain = append(plain, v)
		}
	}
	if len(plain) >= 2 {
		a, b := plain[0], plain[1]
		if a.Name != b.Name {
			switch g.r.Intn(3) {
			case 0:
				g.line("%s, %s = %s, %s", g.ref(a), g.ref(b), g.ref(b), g.ref(a))
			case 1:
				e1, _ := g.expr(t, 2)
				e2, _ := g.expr(t, 2)
				g.line("%s, %s = %s, %s", g.ref(a), g.ref(b), e1, e2)
			default:
				e1, _ := g.expr(t, 2)
				g.line("%s, %s = %s, %s", g.ref(b), g.ref(a), g.ref(a), e1)
			}
			return
		}
	}
	a, b := g.newLocal(t), g.newLocal(g.scalarType())
	e1 := g.exprT(a.T, 2)
	e2 := g.exprT(b.T, 2)
	if needsTypedDecl(a.T, e1) || needsTypedDecl(b.T, e2) {
		g.line("var %s %s = %s", a.Name, a.T.str(g.pkg), e1)
		g.line("var %s %s = %s", b.Name, b.T.str(g.pkg), e2)
	} else {
		g.line("%s, %s := %s, %s", a.Name, b.Name, e1, e2)
	}
	g.declare(a)
	g.declare(b)
	g.line("_, _ = %s, %s", a.Name, b.Name)
}

func (g *G) strStmt() {
	vs := g.varsWhere(func(v *Var) bool { return v.T.K == KString && !v.Const })
	if len(vs) == 0 {
		g.declareLocal(TString)
		return
	}
	s := g.ref(core.Pick(g.r, vs))
	g.use("fmt")
	switch g.r.Intn(6) {
	case 0:
		g.line("if len(%s) > 0 {", s)
		g.line("\tfmt.Println(%q, %s[0], %s[len(%s)-1], len(%s))", g.name("s"), s, s, s, s)
		g.line("}")
	case 1:
		g.line("fmt.Println(%q, []byte(%s))", g.name("s"), s)
	case 2:
		o := g.strExpr(2)
		g.line("fmt.Println(%q, %s < %s, %s == %s)", g.name("s"), s, o, s, o)
	case 3:
		bs := g.name("v")
		g.line("%s := []byte(%s)", bs, s)
		g.line("if len(%s) > 1 {", bs)
		g.line("\t%s[1] = %s[0] + 1", bs, bs)
		g.line("}")
		g.line("fmt.Println(%q, string(%s), %s)", g.name("s"), bs, s)
		g.declare(&Var{Name: bs, T: SliceOf(TUint8)})
	case 4:
		g.line("for %s, %s := range %s {", "ri", "rc", s)
		g.line("\tfmt.Println(%q, ri, rc, string(rc))", g.name("s"))
		g.line("}")
	default:
		g.line("fmt.Println(%q, %s + %s, len(%s))", g.name("s"), s, core.Pick(g.r, strLits), s)
	}
}

func (g *G) stdlibStmt() {
	g.use("fmt")
	switch g.r.Intn(9) {
	case 8:
		// a variable of type any compared with nil while it holds nothing, a scalar (also a zero one), nothing again
		av := g.name("av")
		lits := []string{"0", "7", `""`, `"s"`, "0.0", "2.5", "false", "true"}
		if g.r.Bool() {
			g.line("var %s any", av)
		} else {
			g.line("var %s any = %s", av, core.Pick(g.r, lits))
		}
		g.line("fmt.Println(%q, %s == nil, %s != nil, nil == %s)", g.name("p"), av, av, av)
		l := core.Pick(g.r, lits)
		g.line("%s = %s", av, l)
		g.line("fmt.Println(%q, %s == nil, nil != %s, %s == %s, %s)", g.name("p"), av, av, av, l, av)
		g.line("%s = nil", av)
		g.line("if %s == nil {", av)
		g.line("\tfmt.Println(%q)", g.name("p"))
		g.line("}")
	case 0:
		g.use("strconv")
		v, e := g.name("v"), g.name("err")
		src := core.Pick(g.r, []string{`"42"`, `"-7"`, `"x1"`, `"2147483647"`, `"99999999999"`, `""`, `"0x1f"`, `"12"`})
		g.line("%s, %s := strconv.ParseInt(%s, 10, 32)", v, e, src)
		g.line("fmt.Println(%q, int(%s), %s == nil)", g.name("p"), v, e)
		g.line("if %s != nil {", e)
		g.line("\tfmt.Println(%s)", e)
		g.line("}")
	case 1:
		g.use("strconv")
		v, e := g.name("v"), g.name("err")
		src := core.Pick(g.r, []string{`"1.5"`, `"-2.25e3"`, `"abc"`, `"1e400"`, `"0.1"`, `"7"`})
		g.line("%s, %s := strconv.ParseFloat(%s, 64)", v, e, src)
		g.line("fmt.Println(%q, %s, %s == nil)", g.name("p"), v, e)
	case 2:
		g.use("strconv")
		x, _ := g.expr(TInt, 2)
		g.line("fmt.Println(%q, strconv.FormatInt(int64(%s), %d), strconv.Itoa(%s))", g.name("p"), x, core.Pick(g.r, []int{2, 8, 10, 16, 36}), x)
	case 3:
		g.use("strconv")
		x, _ := g.expr(TFloat, 2)
		g.line("fmt.Println(%q, strconv.FormatFloat(%s, '%c', %d, %d))", g.name("p"), x, core.Pick(g.r, []rune{'f', 'e', 'g'}), core.Pick(g.r, []int{-1, -1, 0, 1, 2, 3, 4, 10}), core.Pick(g.r, []int{64, 64, 32}))
	case 4:
		g.use("errors")
		e := g.name("err")
		g.line("%s := errors.New(%s)", e, core.Pick(g.r, strLits[1:]))
		g.line("fmt.Println(%q, %s, %s.Error(), %s != nil)", g.name("p"), e, e, e)
	case 5:
		g.use("math")
		g.line("fmt.Println(%q, %s)", g.name("p"), g.mathCall(2))
	case 6:
		g.use("strings")
		g.line("fmt.Println(%q, %s)", g.name("p"), g.stringsCall(2))
	default:
		g.use("strings")
		g.line("fmt.Println(%q, strings.Split(%s, %s), strings.Contains(%s, %s))", g.name("p"), g.strExpr(1), core.Pick(g.r, []string{`","`, `" "`, `"a"`}), g.strExpr(1), core.Pick(g.r, strLits[1:6]))
	}
}
