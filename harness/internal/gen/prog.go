package gen

import (
	"fmt"
	"sort"
	"strings"

	"verif/internal/core"
)

// Generate builds program number id of the given profile.
func Generate(r *core.Rng, id int, profile string) *Program {
	g := &G{r: r, w: profileWeights(profile), imports: map[string]bool{}}
	g.root = fmt.Sprintf("ref/c%06d", id)
	p := &Program{Files: map[string]string{}, MainDir: fmt.Sprintf("%s/cmd%06d", g.root, id), Profile: profile}

	// libraries first (main may use them)
	for i := 0; i < g.w.libs; i++ {
		if i > 0 && g.r.Chance(1, 3) {
			break
		}
		g.genLib(p, i)
	}
	g.genMain(p)
	return p
}

func (g *G) genStruct(pkg string, exported bool) *Struct {
	s := &Struct{Pkg: pkg}
	if exported {
		s.Name = g.name("T")
	} else {
		s.Name = g.name("T")
	}
	n := g.r.Range(1, 5)
	// now and then a wide type (its field names get consecutive interned indexes) and, after one, types
	// that reuse two of its names sixteen apart: those collide in a field table of sixteen slots
	wide := g.r.Chance(1, 8)
	wideBase := g.r.Intn(24)
	if wide {
		n = g.r.Range(17, 24)
	}
	var reuse []string
	if !wide && g.r.Chance(1, 2) {
		for _, o := range g.structs {
			if len(o.Fields) >= 17 {
				j := g.r.Intn(len(o.Fields) - 16)
				reuse = []string{o.Fields[j].Name, o.Fields[j+16].Name}
				if n < 2 {
					n = 2
				}
			}
		}
	}
	for i := 0; i < n; i++ {
		var t *Type
		switch k := g.r.Intn(12); {
		case wide && k < 10:
			t = g.scalarType()
		case k < 7:
			t = g.scalarType()
		case k < 9:
			t = SliceOf(g.scalarType())
		case k < 10:
			t = MapOf(core.Pick(g.r, []*Type{TString, TInt}), g.scalarType())
		case k < 11:
			t = PtrTo(s) // self reference (linked structure)
		default:
			if len(g.structs) > 0 {
				t = PtrTo(core.Pick(g.r, g.structs))
			} else {
				t = TInt
			}
		}
		// field names come from a shared pool, so that different struct types reuse names and the
		// interned indexes of one type's fields are not consecutive (collisions in the field table)
		name := ""
		if wide {
			name = fmt.Sprintf("F%d", wideBase+i)
		} else if i < len(reuse) {
			name = reuse[i]
		}
		for name == "" {
			name = fmt.Sprintf("F%d", g.r.Intn(48))
			dup := false
			for _, f := range s.Fields {
				if f.Name == name {
					dup = true
				}
			}
			if dup {
				name = ""
			}
		}
		s.Fields = append(s.Fields, Field{Name: name, T: t})
	}
	return s
}

func (g *G) emitStruct(s *Struct) {
	g.line("type %s struct {", s.Name)
	g.ind++
	for _, f := range s.Fields {
		g.line("%s %s", f.Name, f.T.str(g.pkg))
	}
	g.ind--
	g.line("}")
	g.line("")
}

// genFuncSig invents a signature.
func (g *G) genFuncSig(pure bool) *Func {
	f := &Func{Name: g.name("f"), Pkg: g.pkg, Pure: pure}
	np := g.r.Intn(4)
	for i := 0; i < np; i++ {
		t := g.anyType(1)
		if pure && (t.K == KPtr || t.K == KMap) {
			t = g.scalarType()
		}
		if g.r.Chance(1, 10) {
			// function-typed parameter
			t = &Type{K: KFunc, Params: []*Type{TInt}, Results: []*Type{TInt}}
		}
		f.Params = append(f.Params, &Var{Name: fmt.Sprintf("p%d", i), T: t})
	}
	if g.r.Chance(1, 5) {
		et := g.scalarType()
		f.Params = append(f.Params, &Var{Name: "va", T: SliceOf(et), RO: true})
		f.Variadic = true
	}
	nr := g.r.Intn(3)
	if pure && nr == 0 {
		nr = 1
	}
	for i := 0; i < nr; i++ {
		f.Results = append(f.Results, g.anyTypeNoPtr(1))
		if f.Results[i].K == KMap {
			f.Results[i] = g.scalarType()
		}
	}
	return f
}

func (g *G) sigString(f *Func) string {
	var ps []string
	for i, p := range f.Params {
		name := p.Name
		if f.blank[p] {
			name = "_"
		}
		if f.Variadic && i == len(f.Params)-1 {
			ps = append(ps, name+" ..."+p.T.Elem.str(g.pkg))
		} else {
			ps = append(ps, name+" "+p.T.str(g.pkg))
		}
	}
	var rs []string
	for _, r := range f.Results {
		rs = append(rs, r.str(g.pkg))
	}
	s := "(" + strings.Join(ps, ", ") + ")"
	switch len(rs) {
	case 0:
	case 1:
		s += " " + rs[0]
	default:
		s += " (" + strings.Join(rs, ", ") + ")"
	}
	return s
}

func (g *G) returnStmt() {
	if len(g.curResults) == 0 {
		g.line("return")
		return
	}
	// return f(...): the callee's results are forwarded as they are
	if g.r.Chance(1, 3) && !g.noCalls {
		var cands []string
		for _, f := range g.callable() {
			if f.Recv != nil || f.Rec || (g.curPure && !f.Pure) || len(f.Results) != len(g.curResults) {
				continue
			}
			same := true
			for i, rt := range f.Results {
				if !rt.Eq(g.curResults[i]) {
					same = false
				}
			}
			if !same {
				continue
			}
			save := g.noCalls
			g.noCalls = true
			args, ok := g.callArgs(f)
			g.noCalls = save
			if ok {
				// (also a variadic callee whose surplus arguments are spread from a slice)
				cands = append(cands, g.fname(f)+"("+args+")")
			}
		}
		// function literals in scope with the same result types
		for _, v := range g.visible() {
			if v.T.K == KFunc && v.RO && len(v.T.Results) == len(g.curResults) {
				same := true
				for i, rt := range v.T.Results {
					if !rt.Eq(g.curResults[i]) {
						same = false
					}
				}
				if same {
					if args, ok := g.simpleArgs(v.T.Params); ok {
						cands = append(cands, v.Name+"("+args+")")
					}
				}
			}
		}
		if len(cands) > 0 {
			g.line("return %s", core.Pick(g.r, cands))
			return
		}
	}
	var es []string
	for _, t := range g.curResults {
		e, _ := g.expr(t, 2)
		es = append(es, e)
	}
	g.line("return %s", strings.Join(es, ", "))
}

func (g *G) emitFunc(f *Func, stmts int) {
	recv := ""
	g.scope, g.marks = nil, nil
	g.push()
	if f.Recv != nil {
		recv = "(r *" + f.Recv.Name + ") "
		g.declare(&Var{Name: "r", T: PtrTo(f.Recv), RO: true})
	}
	// now and then two or more parameters are blank (never the one a recursive function counts down, nor a variadic tail)
	blank := map[*Var]bool{}
	if len(f.Params) >= 3 && g.r.Chance(1, 5) {
		for i, p := range f.Params {
			if i >= 1 && !(f.Variadic && i == len(f.Params)-1) {
				blank[p] = true
			}
		}
	}
	f.blank = blank
	for _, p := range f.Params {
		if blank[p] {
			continue
		}
		if p.T.K == KSlice {
			p.Shared = true
		}
		g.declare(p)
	}
	g.curResults, g.curPure = f.Results, f.Pure
	g.inRecursive = true // every function may be called from a loop: strings grow additively only
	g.budget = stmts
	g.line("func %s%s%s {", recv, f.Name, g.sigString(f))
	g.ind++
	// params must be "used"
	for _, p := range f.Params {
		if !blank[p] {
			g.line("_ = %s", p.Name)
		}
	}
	if f.NilSafe {
		g.line("if r == nil {")
		g.ind++
		if !f.Pure {
			g.use("fmt")
			g.line("fmt.Println(%q)", "nil receiver in "+f.Name)
		}
		var ls []string
		for _, rt := range f.Results {
			ls = append(ls, g.typed(rt, g.literal(rt), true))
		}
		g.line("return %s", strings.Join(ls, ", "))
		g.ind--
		g.line("}")
	}
	if f.Rec {
		g.line("if p0 <= 0 {")
		g.ind++
		g.returnStmt()
		g.ind--
		g.line("}")
	}
	if !f.Pure {
		g.use("fmt")
		var as []string
		for _, p := range f.Params {
			if p.T.Printable() && !blank[p] {
				as = append(as, p.Name)
			}
		}
		if len(as) > 0 {
			g.line("fmt.Println(%q, %s)", "in "+f.Name, strings.Join(as, ", "))
		}
	}
	if f.Recv != nil && !f.Pure && !f.Rec && g.r.Chance(1, 3) {
		// the receiver is a variable like a parameter: nil assigned to it is a nil of its type, and a method that
		// guards its receiver can be called through it
		for _, m := range f.Recv.Methods {
			if !m.NilSafe || m.Name == f.Name {
				continue
			}
			args, ok := g.simpleArgs(m.Params)
			if !ok || strings.Contains(args, "r.") || args == "r" || strings.Contains(args, "(r") {
				continue
			}
			var ls, lits []string
			for range m.Results {
				ls = append(ls, g.name("r"))
			}
			for _, rt := range f.Results {
				lits = append(lits, g.typed(rt, g.literal(rt), true))
			}
			g.use("fmt")
			g.line("if %s {", g.boolExpr(1))
			g.ind++
			g.line("r = nil")
			g.line("%s := r.%s(%s)", strings.Join(ls, ", "), m.Name, args)
			g.line("fmt.Println(%q, r == nil, %s)", g.name("n"), strings.Join(ls, ", "))
			g.line("return %s", strings.Join(lits, ", "))
			g.ind--
			g.line("}")
			break
		}
	}
	n := stmts
	for i := 0; i < n && g.budget > 0; i++ {
		if len(f.Results) > 0 && g.r.Chance(1, 6) {
			g.line("if %s {", g.boolExpr(2))
			g.ind++
			g.returnStmt()
			g.ind--
			g.line("}")
			continue
		}
		g.stmt()
	}
	if f.Rec {
		// one recursive call with a smaller first argument
		args := []string{"p0 - 1"}
		ok := true
		for i, p := range f.Params[1:] {
			if f.Variadic && i == len(f.Params)-2 {
				continue
			}
			if p.T.K == KFunc {
				args = append(args, p.Name)
				continue
			}
			save := g.noCalls
			g.noCalls = true
			e, _ := g.leaf(p.T)
			g.noCalls = save
			args = append(args, e)
		}
		if ok {
			call := f.Name + "(" + strings.Join(args, ", ") + ")"
			switch len(f.Results) {
			case 0:
				g.line("%s", call)
			case 1:
				rv := g.newLocal(f.Results[0])
				g.line("%s := %s", rv.Name, call)
				g.declare(rv)
				g.line("_ = %s", rv.Name)
			default:
				var ls []string
				for _, rt := range f.Results {
					rv := g.newLocal(rt)
					ls = append(ls, rv.Name)
					g.declare(rv)
				}
				g.line("%s := %s", strings.Join(ls, ", "), call)
				g.line("_, _ = %s, %s", ls[0], ls[len(ls)-1])
			}
		}
	}
	if len(f.Results) > 0 {
		g.returnStmt()
	}
	g.ind--
	g.line("}")
	g.line("")
	g.pop()
	g.curResults, g.curPure = nil, false
}

func (g *G) genGlobals(n int, exported bool) {
	for i := 0; i < n; i++ {
		t := g.anyType(1)
		if t.K == KPtr && g.r.Bool() {
			t = g.scalarType()
		}
		name := g.name("g")
		if exported {
			name = g.name("G")
		}
		v := &Var{Name: name, T: t, Pkg: g.pkg}
		// initialisers use only literals and earlier globals: Go orders package
		// initialisation by dependency, goatlang by source order; with this rule
		// the two orders coincide.
		save := g.noCalls
		g.noCalls = true
		saveScope := g.scope
		g.scope = nil
		init, initConst := g.expr(t, 2)
		g.scope = saveScope
		g.noCalls = save
		switch {
		case g.r.Chance(1, 4) && t.K != KMap && t.K != KPtr:
			g.line("var %s %s", v.Name, t.str(g.pkg))
		case needsTypedDecl(t, init) || g.r.Bool():
			g.line("var %s %s = %s", v.Name, t.str(g.pkg), init)
		default:
			g.line("var %s = %s", v.Name, g.typed(t, init, initConst))
		}
		g.globals = append(g.globals, v)
	}
	g.line("")
}

func (g *G) genConsts(exported bool) {
	n := g.r.Intn(3)
	for i := 0; i < n; i++ {
		t := core.Pick(g.r, []*Type{TInt, TInt, TFloat, TString, TUint8, TInt8, TUint32})
		name := g.name("k")
		if exported {
			name = g.name("K")
		}
		g.line("const %s = %s", name, g.literal(t))
		g.globals = append(g.globals, &Var{Name: name, T: t, Const: true, Pkg: g.pkg})
	}
	if g.r.Chance(1, 3) {
		// iota block
		a, b, c := g.name("k"), g.name("k"), g.name("k")
		if exported {
			a, b, c = g.name("K"), g.name("K"), g.name("K")
		}
		g.line("const (")
		g.line("\t%s = iota", a)
		g.line("\t%s", b)
		g.line("\t%s", c)
		g.line(")")
		for _, n := range []string{a, b, c} {
			g.globals = append(g.globals, &Var{Name: n, T: TInt, Const: true, Pkg: g.pkg})
		}
	}
	g.line("")
}

func (g *G) helpers() string {
	var sb strings.Builder
	if g.imports["#clampf"] {
		sb.WriteString("func clampf(f float64) float64 {\n\tif f != f {\n\t\treturn 0\n\t}\n\tif f > 1000000.0 {\n\t\treturn 1000000.0\n\t}\n\tif f < -1000000.0 {\n\t\treturn -1000000.0\n\t}\n\treturn f\n}\n\n")
	}
	if g.imports["#b2i"] {
		sb.WriteString("func b2i(b bool) int {\n\tif b {\n\t\treturn 1\n\t}\n\treturn 0\n}\n\n")
	}
	return sb.String()
}

// importBlock lists the packages the body actually mentions (expressions that
// were generated and then discarded must not leave an unused import behind).
func (g *G) importBlock(body string) string {
	var ps []string
	for _, p := range []string{"errors", "fmt", "math", "strconv", "strings"} {
		if strings.Contains(body, p+".") {
			ps = append(ps, p)
		}
	}
	for _, l := range g.libs {
		name := l.name
		if l.alias != "" && g.pkg == "" {
			name = l.alias
		}
		if strings.Contains(body, name+".") {
			ps = append(ps, l.path)
		}
	}
	sort.Strings(ps)
	if len(ps) == 0 {
		return ""
	}
	var sb strings.Builder
	if len(ps) == 1 && !g.isAliased(ps[0]) {
		return "import \"" + ps[0] + "\"\n\n"
	}
	sb.WriteString("import (\n")
	for _, p := range ps {
		if a := g.aliasOf(p); a != "" {
			sb.WriteString("\t" + a + " \"" + p + "\"\n")
		} else {
			sb.WriteString("\t\"" + p + "\"\n")
		}
	}
	sb.WriteString(")\n\n")
	return sb.String()
}

func (g *G) aliasOf(path string) string {
	for _, l := range g.libs {
		if l.path == path && g.pkg == "" {
			return l.alias
		}
	}
	return ""
}
func (g *G) isAliased(path string) bool { return g.aliasOf(path) != "" }

// genPackageBody emits types, consts, globals, functions and methods of the
// current package into g.sb; returns after the functions are registered.
func (g *G) genPackageBody(exported bool, nStructs, nFuncs int) {
	for i := 0; i < nStructs; i++ {
		s := g.genStruct(g.pkg, exported)
		g.structs = append(g.structs, s)
	}
	// declaration order is irrelevant (C16): emit some functions before the types
	for _, s := range g.structs {
		if s.Pkg == g.pkg {
			g.emitStruct(s)
		}
	}
	g.genConsts(exported)
	g.genGlobals(g.r.Range(1, 4), exported)
	// functions: f_i may call f_j for j < i
	for i := 0; i < nFuncs; i++ {
		pure := g.r.Chance(2, 5)
		f := g.genFuncSig(pure)
		if exported {
			f.Name = "F" + f.Name[1:]
		} else if g.r.Chance(1, 5) {
			// a function may share its name with a struct field (separate name spaces in Go)
			if n := fmt.Sprintf("F%d", g.r.Intn(48)); !g.fieldFuncs[n] {
				if g.fieldFuncs == nil {
					g.fieldFuncs = map[string]bool{}
				}
				g.fieldFuncs[n] = true
				f.Name = n
			}
		}
		if g.r.Chance(1, 6) && len(f.Params) > 0 && !f.Variadic {
			f.Params[0].T = TInt
			f.Params[0].RO = true
			f.Rec = true
		}
		if f.Rec && f.Variadic {
			f.Rec = false
		}
		g.callableN = len(g.funcs)
		g.emitFunc(f, g.r.Range(2, 6))
		g.funcs = append(g.funcs, f)
	}
	// methods
	for _, s := range g.structs {
		if s.Pkg != g.pkg {
			continue
		}
		nm := g.r.Intn(3)
		for i := 0; i < nm; i++ {
			pure := g.r.Bool()
			f := g.genFuncSig(pure)
			f.Recv = s
			f.Variadic = false
			var ps []*Var
			for _, p := range f.Params {
				if p.Name != "va" {
					ps = append(ps, p)
				}
			}
			f.Params = ps
			if pure {
				f.Name = fmt.Sprintf("Get%d", g.uid)
			} else {
				f.Name = fmt.Sprintf("Do%d", g.uid)
			}
			g.uid++
			g.callableN = len(g.funcs)
			f.NilSafe = len(f.Results) > 0 && g.r.Chance(1, 3)
			for _, rt := range f.Results {
				if !rt.IsScalar() {
					f.NilSafe = false
				}
			}
			g.emitFunc(f, g.r.Range(1, 4))
			s.Methods = append(s.Methods, &Method{Name: f.Name, Params: paramTypes(f), Results: f.Results, NilSafe: f.NilSafe})
		}
	}
	g.callableN = len(g.funcs)
}

func (g *G) genLib(p *Program, idx int) {
	l := &lib{name: fmt.Sprintf("lib%c", 'a'+idx)}
	l.path = g.root + "/" + l.name
	if g.r.Chance(1, 3) {
		l.alias = fmt.Sprintf("l%c", 'x'+idx)
	}
	saveStructs, saveFuncs, saveGlobals, saveImports := g.structs, g.funcs, g.globals, g.imports
	g.structs, g.funcs, g.globals, g.imports = nil, nil, nil, map[string]bool{}
	g.pkg = l.name
	g.sb = &strings.Builder{}
	g.genPackageBody(true, g.r.Range(0, 2), g.r.Range(1, 3))
	// init() output is observable, so the initialisation order of the
	// libraries must be forced by imports: among independent packages Go's
	// order depends on how the import paths sort relative to the standard
	// library's own dependency graph, which no property specifies. Only the
	// first library, and later ones that import their predecessor, print.
	dep := ""
	if idx > 0 {
		prev := g.libs[idx-1]
		var cands []string
		for _, v := range prev.vars {
			if v.T.IsScalar() {
				cands = append(cands, g.typedIn(v.T, prev.name+"."+v.Name, v.Const))
			}
		}
		if len(cands) > 0 && g.r.Chance(3, 4) {
			dep = core.Pick(g.r, cands)
			prev.usedBy = append(prev.usedBy, l.name)
		}
	}
	if (idx == 0 || dep != "") && g.r.Chance(2, 3) {
		g.use("fmt")
		g.line("func init() {")
		if dep != "" {
			g.line("\tfmt.Println(%q, %s)", "init "+l.name, dep)
		} else {
			g.line("\tfmt.Println(%q)", "init "+l.name)
		}
		g.line("}")
	} else if dep != "" {
		g.line("var Gdep%d = %s", idx, dep)
	}
	body := g.helpers() + g.sb.String()
	src := "package " + l.name + "\n\n" + g.importBlock(body) + body
	p.Files[l.path+"/"+l.name+".go"] = src
	l.structs, l.funcs = g.structs, g.funcs
	for _, v := range g.globals {
		l.vars = append(l.vars, v)
	}
	g.structs, g.funcs, g.globals, g.imports = saveStructs, saveFuncs, saveGlobals, saveImports
	g.pkg = ""
	g.libs = append(g.libs, l)
}

func (g *G) genMain(p *Program) {
	g.pkg = ""
	g.sb = &strings.Builder{}
	g.imports = map[string]bool{"fmt": true}
	g.genPackageBody(false, g.w.nStructs, g.w.nFuncs)
	// lib globals become visible (read-only use; exported vars may be assigned too)
	for _, l := range g.libs {
		for _, v := range l.vars {
			g.globals = append(g.globals, v)
		}
	}
	// a parameter named like an imported package shadows it; stores through it are field stores
	shadowCall := ""
	if len(g.libs) > 0 && g.r.Chance(1, 3) {
		l := core.Pick(g.r, g.libs)
		for _, v := range l.vars {
			if v.T.K == KInt && !v.Const {
				alias := g.libAlias(l.name)
				tn, fn := g.name("Sh"), g.name("sh")
				g.line("type %s struct {", tn)
				g.line("\t%s int", v.Name)
				g.line("\tOther int")
				g.line("}")
				g.line("")
				g.line("func %s(%s *%s, n int) int {", fn, alias, tn)
				g.line("\t%s.%s = n", alias, v.Name)
				g.line("\t%s.%s += 2", alias, v.Name)
				g.line("\t%s.%s++", alias, v.Name)
				g.line("\t%s.Other = %s.%s * 3", alias, alias, v.Name)
				g.line("\treturn %s.%s + %s.Other", alias, v.Name, alias)
				g.line("}")
				g.line("")
				shadowCall = fmt.Sprintf("fmt.Println(%q, %s(&%s{}, %d), %s.%s)", fn, fn, tn, g.r.Intn(50), alias, v.Name)
				break
			}
		}
	}
	if g.r.Chance(1, 3) {
		g.line("func init() {")
		g.line("\tfmt.Println(\"init main\")")
		g.line("}")
		g.line("")
	}
	g.scope, g.marks = nil, nil
	g.push()
	g.budget = g.w.stmtsMain * 3
	g.inRecursive = false
	g.line("func main() {")
	g.ind++
	// a few locals of the common types so expressions have operands
	for _, t := range []*Type{TInt, TInt, TString, TFloat, SliceOf(TInt), g.numType(), g.numType()} {
		g.declareLocal(t)
	}
	if shadowCall != "" {
		g.line("%s", shadowCall)
	}
	for i := 0; i < g.w.stmtsMain && g.budget > 0; i++ {
		g.stmt()
	}
	if shadowCall != "" {
		g.line("%s", shadowCall)
	}
	g.printVars(g.scope)
	// final state of the globals
	var as []string
	shadowed := map[string]bool{}
	for _, v := range g.scope {
		shadowed[v.Name] = true
	}
	for _, v := range g.globals {
		if v.T.Printable() && len(as) < 8 && (v.Pkg != "" || !shadowed[v.Name]) {
			as = append(as, g.typed(v.T, g.ref(v), v.Const))
		}
	}
	if len(as) > 0 {
		g.line("fmt.Println(\"globals\", %s)", strings.Join(as, ", "))
	}
	g.ind--
	g.line("}")
	g.pop()
	body := g.helpers() + g.sb.String()
	src := "package main\n\n" + g.importBlock(body) + body
	p.Files[p.MainDir+"/main.go"] = src
}
