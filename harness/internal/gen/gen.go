package gen

import (
	"fmt"
	"sort"
	"strings"

	"verif/internal/core"
)

// Program is one generated case: a file tree shared verbatim by both sides.
type Program struct {
	Files   map[string]string `json:"files"`
	MainDir string            `json:"main_dir"`
	Profile string            `json:"profile"`
	Panics  bool              `json:"panics,omitempty"` // a run-time panic was planted
}

// Source returns the files concatenated (for hashing / display).
func (p *Program) Source() string {
	var keys []string
	for k := range p.Files {
		keys = append(keys, k)
	}
	sort.Strings(keys)
	var sb strings.Builder
	for _, k := range keys {
		sb.WriteString("// === " + k + "\n" + p.Files[k] + "\n")
	}
	return sb.String()
}

var Profiles = []string{"arith", "ctrl", "scope", "calls", "coll", "objs", "pkgs", "stdlib"}

type weights struct {
	declare, assign, print, ifs, fors, ranges, switches, callStmt, appendS, mapOp, structOp, multi, strOp, stdlib int
	wideTypes                                                                                                     bool // int8/byte/uint32 arithmetic emphasised
	libs                                                                                                          int
	nFuncs, nStructs                                                                                              int
	stmtsMain                                                                                                     int
}

func profileWeights(p string) weights {
	w := weights{declare: 10, assign: 12, print: 8, ifs: 8, fors: 6, ranges: 4, switches: 4, callStmt: 5, appendS: 4, mapOp: 4, structOp: 4, multi: 3, strOp: 3, stdlib: 1, nFuncs: 3, nStructs: 1, stmtsMain: 14}
	switch p {
	case "arith":
		w.assign, w.declare, w.wideTypes, w.structOp, w.mapOp = 25, 14, true, 1, 1
	case "ctrl":
		w.ifs, w.fors, w.ranges, w.switches = 16, 14, 8, 12
	case "scope":
		w.declare, w.ifs, w.fors, w.switches = 22, 14, 10, 8
	case "calls":
		w.callStmt, w.multi, w.nFuncs = 16, 8, 6
	case "coll":
		w.appendS, w.mapOp, w.ranges, w.strOp = 14, 14, 10, 6
	case "objs":
		w.structOp, w.callStmt, w.nStructs, w.nFuncs = 18, 8, 5, 4
	case "pkgs":
		w.libs, w.callStmt, w.nStructs = 2, 10, 2
	case "stdlib":
		w.stdlib, w.strOp = 16, 10
	}
	return w
}

type Var struct {
	Name  string
	T     *Type
	RO    bool // must not be reassigned (loop variables, locked slices)
	Const bool // named constant
	Small bool // integer known to stay in a small non-negative range
	// Shared: a slice that may share its backing array with another live
	// variable. Such a slice is never appended to: whether a later write is
	// visible through the other variable would depend on the growth policy,
	// which Go does not specify.
	Shared bool
	Pkg    string
}

type Func struct {
	Name     string
	Pkg      string
	Params   []*Var
	Variadic bool // last param is ...Elem (its T is the slice type)
	Results  []*Type
	Recv     *Struct
	Pure     bool
	Rec      bool          // recursive with a decreasing first int parameter
	NilSafe  bool          // method that returns literals when its receiver is nil
	blank    map[*Var]bool // parameters spelled _ in the declaration
}

type lib struct {
	path, name, alias string
	structs           []*Struct
	funcs             []*Func
	vars              []*Var
	consts            []*Var
	usedBy            []string
}

type G struct {
	r          *core.Rng
	fieldFuncs map[string]bool // field-pool names taken by functions of the main package
	w          weights
	pkg        string // current package name ("" = main)
	structs    []*Struct
	funcs      []*Func
	globals    []*Var
	libs       []*lib
	scope      []*Var
	marks      []int
	sb         *strings.Builder
	ind        int
	imports    map[string]bool
	uid        int

	loopDepth   int
	inMapRange  bool
	curResults  []*Type
	curPure     bool
	budget      int // remaining statements in the current function
	root        string
	noCalls     bool
	callableN   int // funcs[:callableN] may be called from the function being generated
	inAccess    int
	inRecursive bool
	aliasOK     bool
	// hidden: inside a function literal, globals whose names an enclosing local
	// shadows (Go would resolve the name to that local, i.e. capture it;
	// closures are outside the subset, so such names are simply not used)
	hidden map[string]bool
}

func (g *G) name(prefix string) string {
	g.uid++
	return fmt.Sprintf("%s%d", prefix, g.uid)
}

func (g *G) line(f string, a ...any) {
	g.sb.WriteString(strings.Repeat("\t", g.ind))
	fmt.Fprintf(g.sb, f, a...)
	g.sb.WriteByte('\n')
}

func (g *G) push()        { g.marks = append(g.marks, len(g.scope)) }
func (g *G) pop()         { g.scope = g.scope[:g.marks[len(g.marks)-1]]; g.marks = g.marks[:len(g.marks)-1] }
func (g *G) use(p string) { g.imports[p] = true }

func (g *G) declare(v *Var) *Var { g.scope = append(g.scope, v); return v }

// visible returns variables (innermost last), honouring shadowing by name.
func (g *G) visible() []*Var {
	seen := map[string]bool{}
	var res []*Var
	for i := len(g.scope) - 1; i >= 0; i-- {
		v := g.scope[i]
		if seen[v.Name] {
			continue
		}
		seen[v.Name] = true
		res = append(res, v)
	}
	for _, v := range g.globals {
		if !seen[v.Name] && !(g.hidden[v.Name] && v.Pkg == g.pkg) {
			seen[v.Name] = true
			res = append(res, v)
		}
	}
	return res
}

func (g *G) varsOf(t *Type, writable bool) []*Var {
	var res []*Var
	for _, v := range g.visible() {
		if v.T.Eq(t) && (!writable || (!v.RO && !v.Const)) {
			if g.curPure && writable && g.isGlobal(v) {
				continue
			}
			res = append(res, v)
		}
	}
	return res
}

func (g *G) isGlobal(v *Var) bool {
	for _, x := range g.globals {
		if x == v {
			return true
		}
	}
	return false
}

func (g *G) varsWhere(f func(*Var) bool) []*Var {
	var res []*Var
	for _, v := range g.visible() {
		if f(v) {
			res = append(res, v)
		}
	}
	return res
}

// ---------------------------------------------------------------------------
// types

func (g *G) scalarType() *Type {
	if g.w.wideTypes {
		return core.Pick(g.r, []*Type{TInt, TInt, TInt8, TUint8, TUint8, TUint32, TFloat, TString, TBool})
	}
	return core.Pick(g.r, []*Type{TInt, TInt, TInt, TInt, TFloat, TString, TString, TBool, TUint8, TInt8, TUint32})
}

func (g *G) numType() *Type {
	if g.w.wideTypes {
		return core.Pick(g.r, []*Type{TInt, TInt8, TUint8, TUint32, TFloat})
	}
	return core.Pick(g.r, []*Type{TInt, TInt, TInt, TFloat, TUint8, TInt8, TUint32})
}

func (g *G) anyType(d int) *Type {
	n := g.r.Intn(100)
	switch {
	case n < 55 || d <= 0:
		return g.scalarType()
	case n < 75:
		return SliceOf(g.anyTypeNoPtr(d - 1))
	case n < 87:
		return MapOf(core.Pick(g.r, []*Type{TString, TInt, TInt, TUint8, TBool, TFloat}), g.anyTypeNoPtr(d-1))
	case n < 97 && len(g.structs) > 0:
		return PtrTo(core.Pick(g.r, g.structs))
	default:
		return SliceOf(g.scalarType())
	}
}

func (g *G) anyTypeNoPtr(d int) *Type {
	t := g.anyType(d)
	if t.K == KMap && d > 0 {
		return g.scalarType()
	}
	return t
}

// ---------------------------------------------------------------------------
// literals

func (g *G) intLit(t *Type) string {
	lo, hi := intRange(t)
	var v int64
	switch g.r.Intn(10) {
	case 0:
		v = hi
	case 1:
		v = lo
	case 2:
		v = hi - int64(g.r.Intn(3))
	case 3, 4:
		v = int64(g.r.Intn(200)) - 100
	default:
		v = int64(g.r.Intn(13))
	}
	if v < lo {
		v = lo
	}
	if v > hi {
		v = hi
	}
	if t.K == KRune && v >= 32 && v < 127 && v != '\'' && v != '\\' && g.r.Bool() {
		return fmt.Sprintf("'%c'", rune(v))
	}
	if v >= 0 && g.r.Chance(1, 12) {
		return fmt.Sprintf("0x%x", v)
	}
	if g.r.Chance(1, 16) {
		// octal and negative hexadecimal spellings
		switch {
		case v > 0 && g.r.Bool():
			return fmt.Sprintf("0%o", v)
		case v < 0 && g.r.Bool():
			return fmt.Sprintf("-0%o", -v)
		case v < 0:
			return fmt.Sprintf("-0x%x", -v)
		}
	}
	return fmt.Sprint(v)
}

var floatLits = []string{"0.0", "1.0", "0.5", "1.5", "2.25", "3.0", "10.0", "0.1", "100.0", "0.125", "7.75", "1e3", "2.5e-3", "1234.5", "0.3"}
var strLits = []string{`""`, `"a"`, `"go"`, `"goat"`, `"héllo"`, `"x y"`, `"日本"`, `"tab\there"`, `"q\"uote"`, "`raw\\n`", `"Z"`, `"abc"`, `"12"`, `" pad "`, `"€5"`, `"a,b,c"`, `"a\xffbc"`, `"\x80z"`}

func (g *G) literal(t *Type) string {
	switch t.K {
	case KInt, KInt8, KUint8, KUint32, KRune:
		return g.intLit(t)
	case KFloat:
		s := core.Pick(g.r, floatLits)
		if g.r.Chance(1, 5) {
			s = "-" + s
		}
		return s
	case KString:
		return core.Pick(g.r, strLits)
	case KBool:
		return core.Pick(g.r, []string{"true", "false"})
	case KSlice:
		n := g.r.Intn(4)
		var el []string
		for i := 0; i < n; i++ {
			el = append(el, g.elemLiteral(t.Elem))
		}
		return t.str(g.pkg) + "{" + strings.Join(el, ", ") + "}"
	case KMap:
		n := g.r.Intn(3)
		var el []string
		seen := map[string]bool{}
		for i := 0; i < n; i++ {
			k := g.literal(t.Key)
			if t.Key.K == KFloat {
				k = strings.TrimPrefix(k, "-")
			}
			nk := normLit(k)
			if seen[nk] {
				continue
			}
			seen[nk] = true
			el = append(el, k+": "+g.elemLiteral(t.Elem))
		}
		return t.str(g.pkg) + "{" + strings.Join(el, ", ") + "}"
	case KPtr:
		return g.structLit(t.S, 1)
	case KAny:
		return g.literal(core.Pick(g.r, []*Type{TInt, TString, TFloat, TBool}))
	case KError:
		g.use("errors")
		return `errors.New("e` + fmt.Sprint(g.r.Intn(9)) + `")`
	case KFunc:
		return "nil"
	}
	panic("literal")
}

// normLit canonicalises an integer/rune/string literal spelling so duplicate
// map keys (a Go compile error) can be avoided.
func normLit(k string) string {
	var v int64
	if _, err := fmt.Sscanf(k, "0x%x", &v); err == nil {
		return fmt.Sprint(v)
	}
	if len(k) == 3 && k[0] == '\'' {
		return fmt.Sprint(int(k[1]))
	}
	if k == "-0.0" {
		return "0.0"
	}
	if k == "1e3" {
		return "1000.0"
	}
	return k
}

// elemLiteral is a literal in element position (composite literals may elide
// the type only for struct references through the auto-init form, which we use
// sometimes).
func (g *G) elemLiteral(t *Type) string {
	if t.K == KPtr && g.r.Bool() {
		s := g.structLit(t.S, 0)
		return strings.TrimPrefix(s, "&"+g.structName(t.S))
	}
	return g.literal(t)
}

func (g *G) structName(s *Struct) string {
	if s.Pkg != "" && s.Pkg != g.pkg {
		return g.libAlias(s.Pkg) + "." + s.Name
	}
	return s.Name
}

func (g *G) libAlias(pkg string) string {
	for _, l := range g.libs {
		if l.name == pkg {
			g.use(l.path)
			if l.alias != "" {
				return l.alias
			}
			return l.name
		}
	}
	return pkg
}

func (g *G) structLit(s *Struct, d int) string {
	var fs []string
	for _, f := range s.Fields {
		if g.r.Chance(1, 4) && f.T.K != KMap {
			continue // leave the zero value
		}
		switch {
		case f.T.K == KPtr:
			if d > 0 && g.r.Bool() {
				fs = append(fs, f.Name+": "+g.structLit(f.T.S, d-1))
			}
		case f.T.K == KFunc:
		default:
			fs = append(fs, f.Name+": "+g.literal(f.T))
		}
	}
	return "&" + g.structName(s) + "{" + strings.Join(fs, ", ") + "}"
}

// ---------------------------------------------------------------------------
// expressions

// expr returns an expression of type t. isConst reports a constant expression
// (the caller must not combine two of them: Go folds constants with
// arbitrary precision and rejects overflow).
func (g *G) expr(t *Type, d int) (string, bool) {
	if t.K == KSlice {
		return g.sliceExpr(t, d), false
	}
	if d <= 0 || g.r.Chance(1, 4) {
		return g.leaf(t)
	}
	switch {
	case t.IsInteger():
		return g.intExpr(t, d)
	case t.K == KFloat:
		return g.floatExpr(d)
	case t.K == KString:
		return g.strExpr(d), false
	case t.K == KBool:
		return g.boolExpr(d), false
	case t.K == KSlice:
		return g.sliceExpr(t, d), false
	}
	return g.leaf(t)
}

// typed makes a constant expression carry type t even where the context does
// not impose one (:=, fmt.Println arguments, ...): an untyped constant would
// otherwise default to int / float64 / rune there.
func (g *G) typed(t *Type, s string, cnst bool) string {
	if !cnst {
		return s
	}
	switch t.K {
	case KInt8, KUint8, KUint32, KRune:
		return t.str(g.pkg) + "(" + s + ")"
	case KInt:
		if strings.HasPrefix(s, "'") {
			return "int(" + s + ")"
		}
	case KFloat:
		if isLiteralish(s) && !strings.ContainsAny(s, ".e") {
			return "float64(" + s + ")"
		}
	}
	return s
}

// typedIn is typed with an explicit spelling of the reference.
func (g *G) typedIn(t *Type, ref string, cnst bool) string { return g.typed(t, ref, cnst) }

// exprT is expr made safe for untyped contexts.
func (g *G) exprT(t *Type, d int) string {
	s, c := g.expr(t, d)
	return g.typed(t, s, c)
}

// plainLeaf is a variable or a literal, never a nested access.
func (g *G) plainLeaf(t *Type) (string, bool) {
	if t.K == KSlice {
		return g.sliceExpr(t, 0), false
	}
	vs := g.varsOf(t, false)
	if len(vs) > 0 && !g.r.Chance(1, 4) {
		v := core.Pick(g.r, vs)
		return g.ref(v), v.Const
	}
	switch t.K {
	case KPtr, KSlice, KMap:
		return g.literal(t), false
	case KFunc:
		if f := g.funcOfType(t); f != "" {
			return f, false
		}
		return "nil", false
	}
	return g.literal(t), true
}

func (g *G) leaf(t *Type) (string, bool) {
	if g.inAccess > 0 || t.K == KSlice {
		return g.plainLeaf(t)
	}
	vs := g.varsOf(t, false)
	// field / element / call sources
	if len(vs) > 0 && !g.r.Chance(1, 5) {
		v := core.Pick(g.r, vs)
		return g.ref(v), v.Const
	}
	if s, ok := g.access(t); ok && g.r.Chance(2, 3) {
		return s, false
	}
	if len(vs) > 0 {
		v := core.Pick(g.r, vs)
		return g.ref(v), v.Const
	}
	switch t.K {
	case KPtr, KSlice, KMap:
		return g.literal(t), false
	case KFunc:
		if f := g.funcOfType(t); f != "" {
			return f, false
		}
		return "nil", false
	}
	return g.literal(t), true
}

// keyLeaf is a map key: float keys are literals, because a float variable may
// hold NaN and NaN-keyed entries are excepted from what maps promise (C10).
func (g *G) keyLeaf(t *Type) string {
	if t.K == KFloat {
		return g.literal(t)
	}
	k, _ := g.leaf(t)
	return k
}

func (g *G) ref(v *Var) string {
	if v.Pkg != "" && v.Pkg != g.pkg {
		return g.libAlias(v.Pkg) + "." + v.Name
	}
	return v.Name
}

// access finds a non-variable source of a value of type t: struct field, pure
// call, len(), map lookup.
func (g *G) access(t *Type) (string, bool) {
	g.inAccess++
	defer func() { g.inAccess-- }()
	var opts []string
	for _, v := range g.visible() {
		if v.T.K == KPtr && !v.T.S.nilable(v) {
			for _, f := range v.T.S.Fields {
				if f.T.Eq(t) && t.K != KPtr { // a reference-typed field may be nil: not a source of a plain variable's value
					opts = append(opts, g.ref(v)+"."+f.Name)
				}
			}
			if !g.noCalls {
				for _, m := range v.T.S.Methods {
					if len(m.Results) == 1 && m.Results[0].Eq(t) && strings.HasPrefix(m.Name, "Get") {
						if args, ok := g.simpleArgs(m.Params); ok {
							opts = append(opts, g.ref(v)+"."+m.Name+"("+args+")")
						}
					}
				}
			}
		}
		if v.T.K == KMap && v.T.Elem.Eq(t) && t.K != KPtr {
			// (a missing key of a map of struct references yields nil; plain variables hold non-nil references)
			k := g.keyLeaf(v.T.Key)
			opts = append(opts, g.ref(v)+"["+k+"]")
		}
		if t.K == KInt && !v.Const && (v.T.K == KSlice || v.T.K == KMap || v.T.K == KString) {
			opts = append(opts, "len("+g.ref(v)+")")
		}
	}
	if !g.noCalls {
		for _, f := range g.callable() {
			if f.Pure && !f.Rec && len(f.Results) == 1 && f.Results[0].Eq(t) && f.Recv == nil {
				if args, ok := g.simpleArgs(paramTypes(f)); ok {
					opts = append(opts, g.fname(f)+"("+args+")")
				}
			}
		}
	}
	if len(opts) == 0 {
		return "", false
	}
	return core.Pick(g.r, opts), true
}

// nilable: struct references held in plain variables are always initialised
// non-nil by the generator; only fields may be nil and those are never
// dereferenced without a guard.
func (s *Struct) nilable(v *Var) bool { return false }

func paramTypes(f *Func) []*Type {
	var ts []*Type
	for i, p := range f.Params {
		if f.Variadic && i == len(f.Params)-1 {
			continue
		}
		ts = append(ts, p.T)
	}
	return ts
}

func (g *G) fname(f *Func) string {
	if f.Pkg != "" && f.Pkg != g.pkg {
		return g.libAlias(f.Pkg) + "." + f.Name
	}
	return f.Name
}

func (g *G) callable() []*Func {
	n := g.callableN
	if n > len(g.funcs) {
		n = len(g.funcs)
	}
	res := append([]*Func{}, g.funcs[:n]...)
	if g.pkg == "" {
		for _, l := range g.libs {
			res = append(res, l.funcs...)
		}
	}
	return res
}

// simpleArgs renders variable-or-literal arguments for the given types.
func (g *G) simpleArgs(ts []*Type) (string, bool) {
	var as []string
	save := g.noCalls
	g.noCalls = true
	defer func() { g.noCalls = save }()
	for _, t := range ts {
		if t.K == KFunc {
			f := g.funcOfType(t)
			if f == "" {
				return "", false
			}
			as = append(as, f)
			continue
		}
		s, _ := g.leaf(t)
		as = append(as, s)
	}
	return strings.Join(as, ", "), true
}

func (g *G) funcOfType(t *Type) string {
	var opts []string
	for _, f := range g.callable() {
		if f.Recv != nil || f.Variadic || !f.Pure || f.Rec {
			continue
		}
		ft := &Type{K: KFunc, Params: paramTypes(f), Results: f.Results}
		if ft.Eq(t) {
			opts = append(opts, g.fname(f))
		}
	}
	for _, v := range g.varsOf(t, false) {
		if v.RO { // function literals declared by lambdaStmt
			opts = append(opts, v.Name)
		}
	}
	if len(opts) == 0 {
		return ""
	}
	return core.Pick(g.r, opts)
}

var intBin = []string{"+", "-", "*", "&", "|", "^", "&^", "/", "%", "<<", ">>", "+", "-", "*"}

func prec(op string) int {
	switch op {
	case "*", "/", "%", "<<", ">>", "&", "&^":
		return 5
	case "+", "-", "|", "^":
		return 4
	case "==", "!=", "<", "<=", ">", ">=":
		return 3
	case "&&":
		return 2
	case "||":
		return 1
	}
	return 6
}

// paren wraps s if it is a binary expression of lower (or, on the right side,
// equal) precedence than the context, or randomly.
type ex struct {
	s    string
	p    int // precedence of the top operator, 6 = primary/unary
	cnst bool
}

func (g *G) join(l ex, op string, r ex) ex {
	p := prec(op)
	ls, rs := l.s, r.s
	if l.p < p || (l.p < 6 && g.r.Chance(1, 6)) {
		ls = "(" + ls + ")"
	}
	if r.p <= p || (r.p < 6 && g.r.Chance(1, 6)) {
		rs = "(" + rs + ")"
	}
	return ex{s: ls + " " + op + " " + rs, p: p, cnst: l.cnst && r.cnst}
}

func (g *G) intEx(t *Type, d int) ex {
	if d <= 0 || g.r.Chance(1, 4) {
		s, c := g.leaf(t)
		return ex{s: s, p: 6, cnst: c}
	}
	switch n := g.r.Intn(20); {
	case n < 13:
		op := core.Pick(g.r, intBin)
		l := g.intEx(t, d-1)
		switch op {
		case "/", "%":
			r := g.intEx(t, d-1)
			if r.cnst {
				// a non-zero literal divisor
				lit := strings.TrimPrefix(g.intLit(t), "-")
				if lit == "0" || lit == "0x0" || lit == "2147483648" || lit == "128" || strings.HasPrefix(lit, "'") {
					lit = "3"
				}
				if l.cnst {
					l = g.nonConst(t, l)
				}
				if l.cnst {
					return l
				}
				return g.join(l, op, ex{s: lit, p: 6, cnst: true})
			}
			return g.join(l, op, ex{s: "(" + r.s + " | 1)", p: 6})
		case "<<", ">>":
			if l.cnst {
				l = g.nonConst(t, l)
			}
			if l.cnst {
				return l
			}
			if g.r.Bool() {
				return g.join(l, op, ex{s: fmt.Sprint(g.r.Intn(9)), p: 6, cnst: true})
			}
			// any integer type may be the count; mask keeps it small and non-negative
			ct := core.Pick(g.r, []*Type{t, TInt, TUint8, TUint32})
			c := g.intEx(ct, d-2)
			if c.cnst {
				return g.join(l, op, ex{s: fmt.Sprint(g.r.Intn(9)), p: 6, cnst: true})
			}
			return g.join(l, op, ex{s: "((" + c.s + ") & 7)", p: 6})
		}
		r := g.intEx(t, d-1)
		if l.cnst && r.cnst {
			l = g.nonConst(t, l)
		}
		if l.cnst && r.cnst {
			return l
		}
		if op == "&^" && r.cnst && strings.HasPrefix(r.s, "-") {
			r = ex{s: "(" + r.s + ")", p: 6, cnst: true}
		}
		return g.join(l, op, r)
	case n < 15:
		x := g.intEx(t, d-1)
		if x.cnst {
			return x
		}
		op := core.Pick(g.r, []string{"-", "^"})
		s := x.s
		if x.p < 6 || strings.HasPrefix(s, "-") || strings.HasPrefix(s, "^") {
			s = "(" + s + ")"
		}
		return ex{s: op + s, p: 6}
	case n < 18:
		// conversion from another numeric type
		from := g.numType()
		if from.Eq(t) {
			from = TInt
			if t.K == KInt {
				from = TUint8
			}
		}
		if from.K == KFloat {
			f := g.floatEx(d - 1)
			g.needClamp()
			return ex{s: t.str(g.pkg) + "(clampf(" + f.s + "))", p: 6}
		}
		x := g.intEx(from, d-1)
		if x.cnst {
			x = g.nonConst(from, x)
		}
		if x.cnst {
			s, c := g.leaf(t)
			return ex{s: s, p: 6, cnst: c}
		}
		return ex{s: t.str(g.pkg) + "(" + x.s + ")", p: 6}
	default:
		if s, ok := g.access(t); ok {
			return ex{s: s, p: 6}
		}
		s, c := g.leaf(t)
		return ex{s: s, p: 6, cnst: c}
	}
}

// nonConst replaces a constant operand by a variable of the type if one is
// in scope; otherwise returns the constant (the caller then avoids folding).
func (g *G) nonConst(t *Type, e ex) ex {
	vs := g.varsWhere(func(v *Var) bool { return v.T.Eq(t) && !v.Const })
	if len(vs) > 0 {
		return ex{s: g.ref(core.Pick(g.r, vs)), p: 6}
	}
	return e
}

func (g *G) intExpr(t *Type, d int) (string, bool) {
	e := g.intEx(t, d)
	return e.s, e.cnst
}

func (g *G) needClamp() { g.imports["#clampf"] = true }

func (g *G) floatEx(d int) ex {
	if d <= 0 || g.r.Chance(1, 4) {
		s, c := g.leaf(TFloat)
		return ex{s: s, p: 6, cnst: c}
	}
	switch n := g.r.Intn(20); {
	case n < 12:
		op := core.Pick(g.r, []string{"+", "-", "*", "/"})
		l, r := g.floatEx(d-1), g.floatEx(d-1)
		if l.cnst && r.cnst {
			l = g.nonConst(TFloat, l)
		}
		if op == "/" && r.cnst {
			lit := strings.TrimPrefix(core.Pick(g.r, floatLits), "-")
			if lit == "0.0" {
				lit = "4.0"
			}
			r = ex{s: lit, p: 6, cnst: true}
		}
		if l.cnst && r.cnst {
			return l
		}
		return g.join(l, op, r)
	case n < 14:
		x := g.floatEx(d - 1)
		if x.cnst {
			return x
		}
		s := x.s
		if x.p < 6 || strings.HasPrefix(s, "-") {
			s = "(" + s + ")"
		}
		return ex{s: "-" + s, p: 6}
	case n < 17:
		from := core.Pick(g.r, []*Type{TInt, TUint8, TInt8, TUint32})
		x := g.intEx(from, d-1)
		if x.cnst {
			x = g.nonConst(from, x)
		}
		if x.cnst {
			s, c := g.leaf(TFloat)
			return ex{s: s, p: 6, cnst: c}
		}
		return ex{s: "float64(" + x.s + ")", p: 6}
	case n < 19 && g.w.stdlib > 4:
		return ex{s: g.mathCall(d), p: 6}
	default:
		s, c := g.leaf(TFloat)
		return ex{s: s, p: 6, cnst: c}
	}
}

func (g *G) floatExpr(d int) (string, bool) {
	e := g.floatEx(d)
	return e.s, e.cnst
}

// mathCall uses the bundled math subset. Hypot is left out: it has
// architecture-specific assembly that may differ in the last bit between the
// 386 reference binary and the amd64 harness.
func (g *G) mathCall(d int) string {
	g.use("math")
	x := g.floatEx(d - 1).s
	switch g.r.Intn(14) {
	case 0:
		return "math.Abs(" + x + ")"
	case 1:
		return "math.Floor(" + x + ")"
	case 2:
		return "math.Ceil(" + x + ")"
	case 3:
		return "math.Sqrt(math.Abs(" + x + "))"
	case 4:
		return "math.Max(" + x + ", " + g.floatEx(d-1).s + ")"
	case 5:
		return "math.Min(" + x + ", " + g.floatEx(d-1).s + ")"
	case 6:
		return "math.Round(" + x + ")"
	case 7:
		return "math.Sin(" + x + ")"
	case 8:
		return "math.Cos(" + x + ")"
	case 9:
		return "math.Atan(" + x + ")"
	case 10:
		return "math.Atan2(" + x + ", " + g.floatEx(d-1).s + ")"
	case 11:
		return "math.Pow(math.Abs(" + x + "), 0.5)"
	case 12:
		return "math.Mod(" + x + ", 7.0)"
	default:
		return "math.Pi * " + "math.Abs(" + x + ")"
	}
}

func (g *G) strExpr(d int) string {
	if d <= 0 || g.r.Chance(1, 4) {
		s, _ := g.leaf(TString)
		return s
	}
	switch n := g.r.Intn(24); {
	case n < 8:
		return g.strExpr(d-1) + " + " + g.strExpr(d-1)
	case n < 10:
		g.use("strconv")
		x, _ := g.expr(TInt, d-1)
		return "strconv.Itoa(" + x + ")"
	case n < 12:
		g.use("fmt")
		t := g.scalarType()
		x := g.exprT(t, d-1)
		// several operands: a space goes between two operands only when neither is a string
		for k := g.r.Intn(3); k > 0 && g.r.Bool(); k-- {
			x += ", " + g.exprT(g.scalarType(), 1)
		}
		return "fmt.Sprint(" + x + ")"
	case n < 14:
		g.use("fmt")
		return g.sprintf(d)
	case n < 16:
		// slicing with always-valid bounds; operand must be a variable so len() is stable
		vs := g.varsOf(TString, false)
		if len(vs) == 0 {
			return core.Pick(g.r, strLits)
		}
		v := g.ref(core.Pick(g.r, vs))
		switch g.r.Intn(4) {
		case 0:
			return v + "[len(" + v + ")/2:]"
		case 1:
			return v + "[:len(" + v + ")/2]"
		case 2:
			return v + "[len(" + v + ")/3 : len(" + v + ")/2]"
		default:
			return v + "[:]"
		}
	case n < 17:
		x := g.intEx(TInt, d-1)
		return "string(rune(65 + (" + x.s + ")&15))"
	case n < 20 && g.w.stdlib > 0:
		return g.stringsCall(d)
	case n < 21:
		vs := g.varsOf(SliceOf(TUint8), false)
		if len(vs) > 0 {
			return "string(" + g.ref(core.Pick(g.r, vs)) + ")"
		}
		fallthrough
	default:
		s, _ := g.leaf(TString)
		return s
	}
}

func (g *G) sprintf(d int) string {
	var fs, as []string
	n := g.r.Range(1, 3)
	for i := 0; i < n; i++ {
		switch g.r.Intn(9) {
		case 0:
			x, _ := g.expr(TInt, d-1)
			fs, as = append(fs, core.Pick(g.r, []string{"%d", "%5d", "%-4d|", "%03d", "%x", "%+d", "%v"})), append(as, x)
		case 1:
			x, _ := g.expr(TFloat, d-1)
			fs, as = append(fs, core.Pick(g.r, []string{"%.2f", "%8.3f", "%v", "%g", "%.0f", "%e"})), append(as, x)
		case 2:
			x := g.strExpr(d - 1)
			fs, as = append(fs, core.Pick(g.r, []string{"%s", "%q", "%v", "%5s|", "%-6s|"})), append(as, x)
		case 3:
			x := g.boolExpr(d - 1)
			fs, as = append(fs, core.Pick(g.r, []string{"%t", "%v"})), append(as, x)
		case 4:
			x := g.exprT(TUint8, d-1)
			fs, as = append(fs, core.Pick(g.r, []string{"%d", "%x", "%c", "%v", "%08b"})), append(as, x)
		case 5:
			x := g.exprT(TUint32, d-1)
			fs, as = append(fs, core.Pick(g.r, []string{"%d", "%x", "%v", "%o"})), append(as, x)
		case 6:
			x := g.exprT(TInt8, d-1)
			fs, as = append(fs, core.Pick(g.r, []string{"%d", "%v", "%4d"})), append(as, x)
		default:
			fs = append(fs, core.Pick(g.r, []string{"-", "k=", " ", "%%", "[", "]"}))
		}
	}
	return "fmt.Sprintf(\"" + strings.Join(fs, ":") + "\"" + sep(as) + strings.Join(as, ", ") + ")"
}

func sep(as []string) string {
	if len(as) > 0 {
		return ", "
	}
	return ""
}

func (g *G) stringsCall(d int) string {
	g.use("strings")
	s := g.strExpr(d - 1)
	switch g.r.Intn(8) {
	case 0:
		return "strings.Repeat(" + s + ", " + fmt.Sprint(g.r.Intn(3)) + ")"
	case 1:
		return "strings.ReplaceAll(" + s + ", " + core.Pick(g.r, strLits[1:5]) + ", " + core.Pick(g.r, strLits) + ")"
	case 2:
		return "strings.TrimSpace(" + s + ")"
	case 3:
		return "strings.TrimRight(" + s + ", " + core.Pick(g.r, []string{`"a"`, `" "`, `"c,"`}) + ")"
	case 4:
		return "strings.TrimSuffix(" + s + ", " + core.Pick(g.r, strLits[1:6]) + ")"
	case 5:
		return "strings.Replace(" + s + ", " + core.Pick(g.r, strLits[1:4]) + ", " + core.Pick(g.r, strLits) + ", " + fmt.Sprint(g.r.Range(-1, 2)) + ")"
	case 6:
		return "strings.Join(strings.Split(" + s + ", " + core.Pick(g.r, []string{`","`, `"a"`, `" "`}) + "), " + core.Pick(g.r, []string{`"-"`, `""`, `"+"`}) + ")"
	default:
		vs := g.varsOf(SliceOf(TString), false)
		if len(vs) > 0 {
			return "strings.Join(" + g.ref(core.Pick(g.r, vs)) + ", " + core.Pick(g.r, []string{`","`, `""`, `" "`}) + ")"
		}
		return "strings.TrimSpace(" + s + ")"
	}
}

func (g *G) boolExpr(d int) string {
	if d <= 0 {
		s, _ := g.leaf(TBool)
		return s
	}
	switch n := g.r.Intn(20); {
	case n < 9:
		t := g.scalarType()
		if t.K == KBool {
			t = TInt
		}
		ops := []string{"==", "!=", "<", "<=", ">", ">="}
		l, lc := g.expr(t, d-1)
		r, rc := g.expr(t, d-1)
		if lc && rc {
			if vs := g.varsWhere(func(v *Var) bool { return v.T.Eq(t) && !v.Const }); len(vs) > 0 {
				l = g.ref(core.Pick(g.r, vs))
			}
		}
		return "(" + l + ") " + core.Pick(g.r, ops) + " (" + r + ")"
	case n < 13:
		op := core.Pick(g.r, []string{"&&", "||"})
		l, r := g.boolExpr(d-1), g.boolExpr(d-1)
		return "(" + l + ") " + op + " (" + r + ")"
	case n < 15:
		return "!(" + g.boolExpr(d-1) + ")"
	case n < 17:
		vs := g.varsWhere(func(v *Var) bool { return v.T.K == KSlice || v.T.K == KMap || v.T.K == KString })
		if len(vs) > 0 {
			return "len(" + g.ref(core.Pick(g.r, vs)) + ") " + core.Pick(g.r, []string{">", "==", "<=", "!="}) + " " + fmt.Sprint(g.r.Intn(4))
		}
		fallthrough
	case n < 18:
		vs := g.varsWhere(func(v *Var) bool { return v.T.K == KSlice || v.T.K == KMap })
		if len(vs) > 0 {
			if g.r.Chance(1, 3) {
				return "nil " + core.Pick(g.r, []string{"==", "!="}) + " " + g.ref(core.Pick(g.r, vs))
			}
			return g.ref(core.Pick(g.r, vs)) + " " + core.Pick(g.r, []string{"==", "!="}) + " nil"
		}
		fallthrough
	case n < 19 && g.w.stdlib > 0:
		g.use("strings")
		return "strings.Contains(" + g.strExpr(d-1) + ", " + core.Pick(g.r, strLits[1:8]) + ")"
	default:
		s, _ := g.leaf(TBool)
		return s
	}
}

// sliceExpr yields a slice that shares no backing array with any variable
// (unless aliasOK is set, for arguments of calls that do not keep or grow it).
func (g *G) sliceExpr(t *Type, d int) string {
	vs := g.varsOf(t, false)
	if len(vs) > 0 && g.r.Chance(1, 2) {
		v := g.ref(core.Pick(g.r, vs))
		if g.aliasOK {
			return v
		}
		empty := t.str(g.pkg) + "{}"
		switch g.r.Intn(4) {
		case 0:
			return "append(" + empty + ", " + v + "[len(" + v + ")/2:]...)"
		case 1:
			return "append(" + empty + ", " + v + "[:len(" + v + ")/2]...)"
		default:
			return "append(" + empty + ", " + v + "...)"
		}
	}
	if t.Elem.K == KUint8 && g.r.Bool() && d > 0 {
		return "[]byte(" + g.strExpr(d-1) + ")"
	}
	if t.Elem.K == KString && g.w.stdlib > 0 && g.r.Bool() && d > 0 {
		return "strings.Split(" + g.strExpr(d-1) + ", " + core.Pick(g.r, []string{`","`, `" "`, `"a"`, `""`}) + ")"
	}
	return g.literal(t)
}
