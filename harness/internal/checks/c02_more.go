package checks

import (
	"fmt"
	"strings"
)

// c02AlgebraSnippets: for every numeric type and operator, functions `x OP K`, `K OP x` and
// `x OP= K` for literal K (powers of two, 0, 1, -1, all-ones, odd values) applied to boundary
// operands. A rewrite of such a pair into a cheaper instruction is only right if it is right for
// every operand, negative ones included.
func c02AlgebraSnippets() []string {
	type ty struct {
		name string
		ks   []string
		vals []string
		ops  []string
	}
	intOps := []string{"+", "-", "*", "/", "%", "&", "|", "^", "<<", ">>", "&^", "==", "<", ">="}
	tys := []ty{
		{"int", []string{"0", "1", "2", "4", "8", "16", "256", "65536", "1073741824", "3", "7", "10", "-1", "-2", "-8", "2147483647"},
			[]string{"0", "1", "-1", "7", "-7", "13", "-13", "8", "-8", "255", "-256", "2147483647", "-2147483648", "-2147483647", "1073741824"}, intOps},
		{"int8", []string{"0", "1", "2", "4", "8", "16", "64", "3", "7", "-1", "-2", "127", "-128"},
			[]string{"0", "1", "-1", "7", "-7", "13", "-13", "64", "-64", "127", "-128", "-127"}, intOps},
		{"uint8", []string{"0", "1", "2", "4", "8", "16", "128", "3", "7", "255"},
			[]string{"0", "1", "7", "13", "128", "200", "254", "255"}, intOps},
		{"uint32", []string{"0", "1", "2", "4", "8", "65536", "2147483648", "3", "7", "4294967295"},
			[]string{"0", "1", "7", "13", "2147483647", "2147483648", "4294967295", "4294967288"}, intOps},
		{"float64", []string{"0.0", "1.0", "2.0", "0.5", "4.0", "-1.0", "3.0", "1e308", "0", "1", "2", "-1"},
			[]string{"zero", "-zero", "1.0", "-1.0", "0.1", "-7.5", "1e308", "-1e308", "zero/zero", "1.0/zero", "-1.0/zero", "9007199254740993.0"}, []string{"+", "-", "*", "/", "==", "<", ">="}},
	}
	var out []string
	for _, t := range tys {
		for _, op := range t.ops {
			for form := 0; form < 3; form++ {
				cmp := op == "==" || op == "<" || op == ">="
				if form == 2 && (cmp || op == "&^") {
					continue // goatlang has no &^= (it reads &^ as & followed by ^)
				}
				rt := t.name
				if cmp {
					rt = "bool"
				}
				var sb strings.Builder
				var names []string
				for i, k := range t.ks {
					if (op == "/" || op == "%") && form != 1 && (k == "0" || k == "0.0") {
						continue // a constant zero divisor is a compile error in Go
					}
					if (op == "<<" || op == ">>") && form != 1 && (strings.HasPrefix(k, "-") || len(k) > 2) {
						continue // shift counts: small and non-negative
					}
					kk := k
					if strings.HasPrefix(k, "-") {
						kk = "(" + k + ")"
					}
					fn := fmt.Sprintf("f%d", i)
					names = append(names, fn)
					switch form {
					case 0:
						fmt.Fprintf(&sb, "func %s(x %s) %s { return x %s %s }\n", fn, t.name, rt, op, kk)
					case 1:
						fmt.Fprintf(&sb, "func %s(x %s) %s { return %s %s x }\n", fn, t.name, rt, kk, op)
					case 2:
						fmt.Fprintf(&sb, "func %s(x %s) %s { x %s= %s; return x }\n", fn, t.name, rt, op, kk)
					}
				}
				if t.name == "float64" {
					sb.WriteString("zero := 0.0\n")
				}
				fmt.Fprintf(&sb, "r := []%s{}\n", rt)
				for _, v := range t.vals {
					if form == 1 && (op == "/" || op == "%") && (v == "0" || v == "zero" || v == "-zero") && t.name != "float64" {
						continue
					}
					if form == 1 && (op == "<<" || op == ">>") && (strings.HasPrefix(v, "-") || len(v) > 2) {
						continue
					}
					vv := v
					if strings.HasPrefix(v, "-") {
						vv = "(" + v + ")"
					}
					for _, fn := range names {
						fmt.Fprintf(&sb, "r = append(r, %s(%s))\n", fn, vv)
					}
				}
				sb.WriteString("t := __type(r[0])\nr\nt\n")
				out = append(out, sb.String())
			}
		}
	}
	return out
}

// c02StoreSnippets: an untyped constant stored into an element, field or variable of a typed
// container must take the container's type whatever instruction does the store; the value is read
// back through an operation whose result depends on the type (division, wrap-around).
func c02StoreSnippets() []string {
	type et struct{ name, k1, k2, reveal string }
	ets := []et{
		{"float64", "7", "2", "%s / %s"},
		{"uint8", "250", "10", "%s + %s"},
		{"int8", "100", "100", "%s + %s"},
		{"uint32", "4000000000", "500000000", "%s + %s"},
		{"int", "2147483647", "1", "%s + %s"},
	}
	var out []string
	for _, e := range ets {
		rv := func(a, b string) string { return fmt.Sprintf(e.reveal, a, b) }
		bodies := []string{
			// local slice, literal and variable index
			fmt.Sprintf("p := []%s{0, 0, 0}; p[0] = %s; p[1] = %s; i := 2; p[i] = %s; q := %s; w := %s", e.name, e.k1, e.k2, e.k1, rv("p[0]", "p[1]"), rv("p[i]", "p[1]")),
			fmt.Sprintf("p := make([]%s, 3); p[2] = %s; p[0] = %s; p[2] += %s; q := p[2]; w := %s", e.name, e.k1, e.k2, e.k2, rv("p[2]", "p[0]")),
			// slice parameter
			fmt.Sprintf("q := set(make([]%s, 2)); w := q", e.name),
			// map with int and string keys
			fmt.Sprintf("m := map[int]%s{}; m[0] = %s; m[1] = %s; q := %s; m[0] += %s; w := m[0]", e.name, e.k1, e.k2, rv("m[0]", "m[1]"), e.k2),
			fmt.Sprintf("m := map[string]%s{}; m[\"a\"] = %s; m[\"b\"] = %s; q := %s; m[\"a\"]++; w := m[\"a\"]", e.name, e.k1, e.k2, rv("m[\"a\"]", "m[\"b\"]")),
			// struct field, directly and through a pointer held in a local
			fmt.Sprintf("b := &B{}; b.V = %s; b.W = %s; q := %s; b.V += %s; w := b.V", e.k1, e.k2, rv("b.V", "b.W"), e.k2),
			// plain locals and a global
			fmt.Sprintf("var a %s; var c %s; a = %s; c = %s; q := %s; G = %s; G += %s; w := G", e.name, e.name, e.k1, e.k2, rv("a", "c"), e.k1, e.k2),
			// several names in one typed declaration
			fmt.Sprintf("var a, c %s = %s, %s; q := %s; a += %s; w := a", e.name, e.k1, e.k2, rv("a", "c"), e.k2),
			// append and a literal with constant elements
			fmt.Sprintf("var p []%s; p = append(p, %s, %s); q := %s; p = append(p[:1], %s); w := %s", e.name, e.k1, e.k2, rv("p[0]", "p[1]"), e.k1, rv("p[1]", "p[0]")),
			// nested rows that start out nil
			fmt.Sprintf("g := make([][]%s, 2); g[0] = append(g[0], %s); g[0] = append(g[0], %s); q := %s; var h [][]%s; h = append(h, nil); h[0] = append(h[0], %s, %s); w := %s", e.name, e.k1, e.k2, rv("g[0][0]", "g[0][1]"), e.name, e.k1, e.k2, rv("h[0][0]", "h[0][1]")),
		}
		for _, b := range bodies {
			src := fmt.Sprintf("type B struct { V %s; W %s }\nvar G %s\nfunc set(p []%s) %s { p[0] = %s; p[1] = %s; return %s }\nfunc f() (%s, %s) { %s; return q, w }\nx, y := f()\ntx := __type(x)\nty := __type(y)\nx\ny\ntx\nty\n",
				e.name, e.name, e.name, e.name, e.name, e.k1, e.k2, rv("p[0]", "p[1]"), e.name, e.name, b)
			out = append(out, src)
			// the same statements at top level (globals instead of locals)
			out = append(out, fmt.Sprintf("type B struct { V %s; W %s }\nvar G %s\nfunc set(p []%s) %s { p[0] = %s; p[1] = %s; return %s }\n%s\ntq := __type(q)\ntw := __type(w)\nq\nw\ntq\ntw\n",
				e.name, e.name, e.name, e.name, e.name, e.k1, e.k2, rv("p[0]", "p[1]"), strings.ReplaceAll(b, "; ", "\n")))
		}
	}
	return out
}

// c02LiteralSnippets: concatenations of string literals next to literals whose spelling is the concatenation's
// value between quotes (which, read as a literal, is another string): constants are told apart by value and kind,
// never by how some rendering of them looks.
func c02LiteralSnippets() []string {
	var out []string
	for _, p := range [][3]string{
		{`"C:\\"`, `"temp"`, `"C:\temp"`}, {`"a\\"`, `"n"`, `"a\n"`}, {`"\\"`, `"x41"`, `"\x41"`}, {`"\\u00"`, `"e9"`, `"\u00e9"`},
		{`"1"`, `"2"`, `"12"`}, {`"tab\\"`, `"t"`, `"tab\t"`}, {`"\\"`, `"\\"`, `"\\"`},
	} {
		out = append(out,
			fmt.Sprintf("func f() []string { a := %s + %s; b := %s; return []string{a, b} }\nfunc g() bool { return %s + %s == %s }\nr := f()\nq := g()\nn := len(r[0])*100 + len(r[1])\nr\nq\nn\n", p[0], p[1], p[2], p[0], p[1], p[2]),
			fmt.Sprintf("b := %s\nfunc f() string { return %s + %s }\na := f()\nc := %s\nr := []string{a, b, c}\nn := len(a)*100 + len(b)\nr\nn\n", p[2], p[0], p[1], p[2]))
	}
	// numbers and strings that print alike, constants in several bases
	out = append(out, "a := \"12\"\nb := 12\nc := \"1\" + \"2\"\nd := 1 + 2\ne := 0x0c\nf := 014\nr := []any{a, b, c, d, e, f}\nt := __type(r[3])\nr\nt\n")
	return out
}

// c02SplitCallSnippets: failing operations on locals whose parts stand on different lines (split after the dot,
// after an operator, inside brackets or parentheses): the line reported is the line of the unfused instruction.
func c02SplitCallSnippets() []string {
	return []string{
		"type T struct {\n\tF func() int\n}\nfunc g(p *T) int {\n\tx := p.\n\t\tF()\n\treturn x\n}\ny := g(&T{})\ny\n",
		"type T struct {\n\tX int\n\tN *T\n}\nfunc g(p *T) int {\n\tx := p.\n\t\tN.\n\t\tX\n\treturn x\n}\ny := g(&T{})\ny\n",
		"type T struct {\n\tX int\n}\nfunc (t *T) M(a int) int {\n\treturn t.X / a\n}\nfunc g(p *T, z int) int {\n\tx := p.\n\t\tM(z)\n\treturn x\n}\ny := g(&T{X: 1}, 0)\ny\n",
		"func g(a int, b int) int {\n\tx := a /\n\t\tb\n\treturn x\n}\ny := g(1, 0)\ny\n",
		"func g(a int, b int) int {\n\tx := a +\n\t\tb %\n\t\t\t(a - a)\n\treturn x\n}\ny := g(1, 2)\ny\n",
		"func g(s []int, i int) int {\n\tx := s[\n\t\ti]\n\treturn x\n}\ny := g([]int{1}, 5)\ny\n",
		"func g(s []int) int {\n\ts[\n\t\t7] = 1\n\treturn s[\n\t\t9]\n}\ny := g([]int{1})\ny\n",
		"type T struct {\n\tX int\n}\nfunc g(p *T) int {\n\tp.\n\t\tX = 3\n\treturn p.\n\t\tX\n}\nvar q *T\ny := g(q)\ny\n",
		"func h(a int) int {\n\treturn 10 / a\n}\nfunc g(z int) int {\n\tx := 1 +\n\t\th(\n\t\t\tz)\n\treturn x\n}\ny := g(0)\ny\n",
		"func g(m map[string][]int, k string) int {\n\tv := m[k][\n\t\t3]\n\treturn v\n}\ny := g(map[string][]int{\"a\": {1}}, \"a\")\ny\n",
	}
}

// c02Histories: one VM compiles more than once. What the optimizer knows when it compiles the
// second text (values already in the global table, functions and types already defined) must not
// show in what the second text does.
func c02Histories() []c02Case {
	steps := [][]string{
		{"const k = 20\nfunc f() int { return k + 1 }\nr := f()\nr", "const k = 50\nfunc g() int { return k + 5 }\nr = g()*1000 + f()\nr"},
		{"const k byte = 200\nfunc f(b byte) byte { return b + k }\nr := f(100)\nr", "const k byte = 250\nfunc g(b byte) byte { return b + k }\nr = g(100)\nt := __type(r)\nr\nt"},
		{"const n = 3\nfunc f(s []int) int { return s[n] }\nr := f([]int{1, 2, 3, 4, 5})\nr", "const n = 1\nfunc g(s []int) int { return s[n] << n }\nr = g([]int{1, 2, 3, 4, 5})\nr"},
		{"var g = 1\nfunc f() int { return g + 1 }\nr := f()\nr", "g = 7\nr = f()\nr", "var g = 40\nfunc h() int { g++; return g }\nr = h() + f()\nr"},
		{"func f(a int) int { return a + 1 }\nr := f(1)\nr", "func f(a int, b int) int { return a*10 + b }\nr = f(1, 2)\nr", "func f() int { return 77 }\nr = f()\nr"},
		{"type T struct { A int }\nfunc (t *T) Get() int { return t.A }\nv := &T{A: 3}\nr := v.Get()\nr", "type T struct { A int; B int }\nfunc (t *T) Get() int { return t.A*10 + t.B }\nw := &T{A: 1, B: 2}\nr = w.Get()*1000 + v.A\nr"},
		{"const lim = 4\nfunc f() int { t := 0; for i := 0; i < lim; i++ { t += i }; return t }\nr := f()\nr", "const lim = 6\nfunc g() int { t := 0; for i := 0; i < lim; i++ { switch i { case lim - 1: t += 100; default: t += i } }; return t }\nr = g() + f()\nr"},
		{"const scale = 2.5\nfunc f(x float64) float64 { return x * scale }\nr := f(2)\nr", "const scale = 4\nfunc g(x float64) float64 { return x / scale }\nr = g(2)\nr"},
		{"const name = \"a\"\nfunc f() string { return name + name }\nr := f()\nr", "const name = \"bc\"\nfunc g() string { return name + f() }\nr = g()\nr"},
	}
	var out []c02Case
	for _, s := range steps {
		out = append(out, c02Case{Kind: "history", Steps: s, Tag: "history"})
	}
	prog := func(k int, body string) map[string]string {
		return map[string]string{"app/main.go": fmt.Sprintf("package main\n\nimport \"fmt\"\n\nconst step = %d\nconst tag = \"v%d\"\n\nvar total int\n\n%s\n\nfunc main() {\n\ttotal += bump(total)\n\tfmt.Println(tag, step, total, table[step%%len(table)])\n}\n", k, k, body)}
	}
	out = append(out, c02Case{Kind: "reload", Tag: "history", Main: "app", Versions: []map[string]string{
		prog(3, "var table = []int{1, 2, 3, 4}\n\nfunc bump(n int) int {\n\treturn n + step\n}"),
		prog(50, "var table = []int{1, 2, 3, 4}\n\nfunc bump(n int) int {\n\treturn n*2 + step + 5\n}"),
		prog(7, "var table = []int{9, 8, 7}\n\nfunc bump(n int) int {\n\tif n > step {\n\t\treturn step\n\t}\n\treturn -step\n}"),
	}})
	return out
}
