package checks

import (
	"bufio"
	"bytes"
	"encoding/json"
	"errors"
	"fmt"
	"io"
	"io/fs"
	"os"
	"os/exec"
	"path/filepath"
	"regexp"
	"runtime"
	"strconv"
	"strings"
	"sync"
	"sync/atomic"
	"syscall"
	"testing/fstest"
	"time"

	"github.com/philhassey/goatlang"

	"verif/internal/core"
	"verif/internal/gen"
)

// C03 — no input can take the embedding host down.
//
// The property is its own oracle: every public entry point returns to the
// host; errors from Eval and Load start with the failing stage. Observed: Go
// panics escaping the API (recover in the harness), death of the child
// process that runs the inputs (write-ahead journal names the culprit), the
// error text, and hangs.

func init() { register("C03", &Check{Run: runC03, Replay: replayC03}) }

type c03Input struct {
	Kind    string            `json:"kind"` // eval | load | call
	Src     string            `json:"src,omitempty"`
	Files   map[string]string `json:"files,omitempty"`
	Arg     string            `json:"arg,omitempty"`
	Opts    int               `json:"opts"`    // bit0 TreeDump, bit1 CodeDump, bit2 EvalImports(map), bit3 EvalImports(nil)
	FailAt  int               `json:"fail_at"` // inject an fs error at the k-th operation (0 = never)
	Entry   string            `json:"entry,omitempty"`
	XRets   int               `json:"xrets,omitempty"`
	NArgs   int               `json:"nargs,omitempty"`
	Origin  string            `json:"origin,omitempty"`
	Mutator string            `json:"mutator,omitempty"`
}

var c03Prefix = regexp.MustCompile(`^(error in (tokenize|parse|load\w*|compile|run)( \(imports\))?: |unexpected returns: )`)

// faultFS injects an error at the k-th file-system operation.
type faultFS struct {
	fs.FS
	n, at int
}

func (f *faultFS) tick() error {
	f.n++
	if f.at > 0 && f.n == f.at {
		return errors.New("injected I/O error")
	}
	return nil
}
func (f *faultFS) Open(name string) (fs.File, error) {
	if err := f.tick(); err != nil {
		return nil, err
	}
	return f.FS.Open(name)
}
func (f *faultFS) ReadFile(name string) ([]byte, error) {
	if err := f.tick(); err != nil {
		return nil, err
	}
	return fs.ReadFile(f.FS, name)
}
func (f *faultFS) Glob(pattern string) ([]string, error) {
	if err := f.tick(); err != nil {
		return nil, err
	}
	return fs.Glob(f.FS, pattern)
}

type c03Result struct {
	Stage   string // last stage reached: tokenize, parse, load, compile, run, ok
	Problem string
	Err     string
}

func c03Stage(err string) string {
	m := c03Prefix.FindStringSubmatch(err)
	if m == nil {
		return "unprefixed"
	}
	if m[2] == "" {
		return "ok-with-returns"
	}
	return m[2]
}

// c03Exec runs one input in-process.
func c03Exec(in c03Input) c03Result {
	obs := core.NewObs(core.SmallBudget, false, nil)
	m := core.NewMachine(core.VMOpts{Optimize: true, Obs: obs})
	var sys fs.FS = fstest.MapFS{}
	if in.Files != nil {
		sys = core.MapFS(in.Files)
	}
	if in.FailAt > 0 {
		sys = &faultFS{FS: sys, at: in.FailAt}
	}
	var opts []goatlang.RunOption
	var dump bytes.Buffer
	if in.Opts&1 != 0 {
		opts = append(opts, goatlang.WithTreeDump(&dump))
	}
	if in.Opts&2 != 0 {
		opts = append(opts, goatlang.WithCodeDump(&dump))
	}
	if in.Opts&4 != 0 {
		opts = append(opts, goatlang.WithEvalImports(map[string]string{"fmt": "fmt", "m": "math"}))
	}
	if in.Opts&8 != 0 {
		opts = append(opts, goatlang.WithEvalImports(nil))
	}
	var res c03Result
	var err error
	var p string
	switch in.Kind {
	case "eval":
		p = core.Guard(func() { _, err = m.VM.Eval(sys, "in.go", in.Src, opts...) })
	case "load":
		p = core.Guard(func() { err = m.VM.Load(sys, in.Arg, opts...) })
	case "call":
		// prepare a VM with a few definitions, then misuse Call / Func
		core.Guard(func() { m.VM.Eval(sys, "in.go", in.Src) })
		args := make([]goatlang.Value, in.NArgs)
		for i := range args {
			switch i % 4 {
			case 0:
				args[i] = goatlang.Int(i)
			case 1:
				args[i] = goatlang.String("s")
			case 2:
				args[i] = goatlang.Nil()
			default:
				args[i] = goatlang.NewSlice(goatlang.TypeInt32, nil)
			}
		}
		p = core.Guard(func() {
			if strings.HasPrefix(in.Entry, "func:") {
				_, err = m.VM.Func(m.VM.Get(strings.TrimPrefix(in.Entry, "func:")), in.XRets, args...)
			} else {
				_, err = m.VM.Call(in.Entry, in.XRets, args...)
			}
		})
	}
	if p != "" {
		res.Problem = "a Go panic escaped " + in.Kind + ": " + p
		return res
	}
	if err == nil {
		res.Stage = "ok"
		return res
	}
	res.Err = err.Error()
	if in.Kind == "call" {
		res.Stage = "call-error"
		return res
	}
	res.Stage = c03Stage(res.Err)
	if res.Stage == "unprefixed" {
		res.Problem = "the error does not name the failing stage: " + core.ErrFirstLine(res.Err)
	}
	return res
}

// ---------------------------------------------------------------------------
// input generation

type c03Corpus struct {
	seeds     []string
	origins   []string
	trees     []map[string]string
	progSeeds []int
}

func c03BuildCorpus(seed int64) *c03Corpus {
	c := &c03Corpus{}
	add := func(origin, s string) {
		if origin != "repo test string" {
			c.progSeeds = append(c.progSeeds, len(c.seeds))
		}
		c.seeds = append(c.seeds, s)
		c.origins = append(c.origins, origin)
	}
	for _, s := range harvestTestStrings() {
		add("repo test string", s)
	}
	for _, s := range c02Snippets {
		add("snippet", s)
	}
	for _, s := range c07Snippets {
		add("snippet", s)
	}
	for i, prof := range gen.Profiles {
		for k := 0; k < 4; k++ {
			p := gen.Generate(core.Derive(seed, "c03-seed-"+prof, k), 900000+i*10+k, prof)
			add("generated "+prof, p.Files[p.MainDir+"/main.go"])
			c.trees = append(c.trees, p.Files)
		}
	}
	for _, p := range sentinelPrograms(990000) {
		add("sentinel", p.Files[p.MainDir+"/main.go"])
		c.trees = append(c.trees, p.Files)
	}
	return c
}

var c03Tokens = []string{"func", "return", "if", "else", "for", "range", "switch", "case", "default", "break", "continue", "var", "const", "type", "struct", "interface", "map", "package", "import", "make", "(", ")", "{", "}", "[", "]", ",", ";", ":", ":=", "=", "+", "-", "*", "/", "%", "&", "|", "^", "<<", ">>", "&&", "||", "!", "<", ">", "==", "!=", "++", "--", "...", ".", "$", "~", "#", "`", "\"", "'", "\\", "0x", "1e", "99999999999999999999", "0777777777777777777777", "1.5e999", "nil", "true", "iota", "_", "\x00", "\xff", "\xc3", "é", "chan", "go", "<-", "->", "goto", "defer", "[]", "*", "&T{", "x.", ".y", "@"}

var c03IndexLit = regexp.MustCompile(`\[\d+\]`)

func c03Mutate(rng *core.Rng, s string) (string, string) {
	b := []byte(s)
	switch m := rng.Intn(15); m {
	case 13: // an index literal becomes large or negative (operands of fused index instructions, dumps)
		locs := c03IndexLit.FindAllStringIndex(s, -1)
		if len(locs) > 0 {
			l := core.Pick(rng, locs)
			return s[:l[0]] + "[" + core.Pick(rng, []string{"404", "70000", "-1", "2147483647", "65536", "4000000000", "-70000"}) + "]" + s[l[1]:], "index-literal"
		}
	case 0: // prefix
		if len(b) > 0 {
			return string(b[:rng.Intn(len(b))]), "prefix"
		}
	case 1: // suffix
		if len(b) > 0 {
			return string(b[rng.Intn(len(b)):]), "suffix"
		}
	case 2: // byte flip
		for k := rng.Range(1, 3); k > 0 && len(b) > 0; k-- {
			b[rng.Intn(len(b))] ^= byte(1 << uint(rng.Intn(8)))
		}
		return string(b), "bitflip"
	case 3: // delete a span
		if len(b) > 1 {
			i := rng.Intn(len(b))
			j := i + rng.Range(1, 6)
			if j > len(b) {
				j = len(b)
			}
			return string(append(b[:i:i], b[j:]...)), "delete"
		}
	case 4, 5: // insert a token
		i := rng.Intn(len(b) + 1)
		t := core.Pick(rng, c03Tokens)
		return string(b[:i]) + t + string(b[i:]), "insert-token"
	case 6: // duplicate a span
		if len(b) > 1 {
			i := rng.Intn(len(b))
			j := i + rng.Range(1, 12)
			if j > len(b) {
				j = len(b)
			}
			return string(b[:j]) + string(b[i:j]) + string(b[j:]), "duplicate"
		}
	case 7: // drop one bracket
		idx := []int{}
		for i, c := range b {
			if strings.ContainsRune("(){}[]", rune(c)) {
				idx = append(idx, i)
			}
		}
		if len(idx) > 0 {
			i := core.Pick(rng, idx)
			return string(b[:i]) + string(b[i+1:]), "unbalance"
		}
	case 8: // swap two whitespace separated words
		w := strings.Fields(s)
		if len(w) > 2 {
			i, j := rng.Intn(len(w)), rng.Intn(len(w))
			w[i], w[j] = w[j], w[i]
			return strings.Join(w, " "), "swap-words"
		}
	case 9: // delete an operand after an operator
		for _, op := range []string{" + ", " / ", " := ", " = ", "(", ", "} {
			if i := strings.Index(s, op); i >= 0 && rng.Bool() {
				j := i + len(op)
				k := j
				for k < len(s) && !strings.ContainsRune(" ;)}\n,", rune(s[k])) {
					k++
				}
				return s[:j] + s[k:], "drop-operand"
			}
		}
	case 10: // replace a number
		re := regexp.MustCompile(`\d+`)
		locs := re.FindAllStringIndex(s, -1)
		if len(locs) > 0 {
			l := core.Pick(rng, locs)
			return s[:l[0]] + core.Pick(rng, []string{"99999999999999999999", "-1", "0", "1e309", "0x", "08", "2147483648", "1_0", "0b1"}) + s[l[1]:], "odd-number"
		}
	case 11: // join with another statement form
		return s + core.Pick(rng, []string{"; f(", "; x /;", "; func f() int { }; f()", "; return", "; break", "\n}", "; a.b.c = 1", "; var x [3]int", "; x := <-c", "; import \"nope\""}), "append-fragment"
	case 12: // wrap
		return core.Pick(rng, []string{"func w() { ", "for { ", "if true { ", "switch { case ", "x := ("}) + s, "wrap-open"
	}
	// default: splice two tokens
	return core.Pick(rng, c03Tokens) + " " + s + " " + core.Pick(rng, c03Tokens), "surround"
}

var c03Ill = []string{
	// map key types that are not scalars (F50)
	"m := map[strang]any{}; m[\"self\"] = m; println(m)", "type T struct { }; m := map[*T]any{}; k := &T{}; m[k] = m; println(m)", "var m map[[]int]any; println(m, __type(m))", "m := make(map[map[string]int]any); m[nil] = m; println(m)", "type K struct { A int }; m := map[K][]any{}; println(m)",
	// type expressions nested beyond the width of a packed type (slice levels take 8 bits, map levels 16)
	"type T struct { A int }; var x [][][][][][][]*T; x", "type T struct { A int }; x := make([][][][][][][][]*T, 1); println(x, __type(x))", "type T struct { }; var m map[string]map[string]map[string][]*T; m2 := map[int]map[int]map[int]map[int]*T{}; println(__type(m), __type(m2))",
	"var f [][][][][][][][][][]func(int) int; println(__type(f))", "var a [][][][][][][][][]any; println(a, __type(a))", "type T struct { N *T }; x := [][][][][][][][]*T{}; x = append(x, nil); println(x, __type(x), len(x))", "func f(a [][][][][][][][]map[string][]int) map[string]map[string]map[string]map[string]int { return nil }; println(f(nil))",
	"type T struct { }; type U struct { X [][][][][][][][]*T; Y map[string]map[string]map[string]map[string]*T }; u := &U{}; println(u, __type(u.X), __type(u.Y))",
	// cyclic values reaching a renderer (println, fmt, panic text, error text)
	"m := map[string]any{}; m[\"self\"] = m; println(m)", "import \"fmt\"; m := map[int]any{}; m[1] = m; s := fmt.Sprint(m)", "m := map[string]any{}; m[\"a\"] = map[string]any{\"b\": m}; panic(m)",
	"s := []any{nil}; s[0] = s; println(s)", "import \"fmt\"; s := []any{nil}; m := map[string]any{\"s\": s}; s[0] = m; fmt.Println(m, s)", "import \"fmt\"; type N struct { Next *N; Kids []any; M map[string]any }; n := &N{}; n.Next = n; n.Kids = []any{n}; n.M = map[string]any{\"n\": n}; fmt.Println(n); println(n.Kids, n.M)",
	"import \"fmt\"; m := map[string]any{}; m[\"self\"] = m; x := fmt.Sprintf(\"%v %d %s\", m, m, m)", "import (\"fmt\"; \"errors\"); m := map[float64]any{}; m[0.5] = m; var e error = errors.New(fmt.Sprint(m)); panic(e)", "a := map[string]any{}; b := map[string]any{\"a\": a}; a[\"b\"] = b; a", "s := []any{nil}; s[0] = s; s",
	"import (x \"\\400\")", "import x \"\\400\"", "import \"\\400\"", "import (\"fmt\"; y \"\\xZZ\")", "import . \"\\u12\"", "import _ \"\\777/x\"", "import (a \"a\\\nb\")", "import m \"ma\\th\"; m.Sqrt(2)",
	"import \"fmt\"; fmt.Println(\"\\400\")", "x := \"\\400\"", "x := '\\400'", "const c = \"\\xZ\"", "type T struct { A int \"\\400\" }",
	"func f() int { }; f()", "func f() (int, int) { return 1 }; a, b := f()", "func f(a int) { }; f()", "func f(a int) { }; f(1, 2)",
	"x := undefinedName + 1", "undefinedFunc()", "type T struct { N *T }; var t *T; t.N.N = nil", "type T struct { }; t := &T{Nope: 1}",
	"var x int = \"s\"", "x := 1; x.y = 2", "x := []int{}; x[0] = 1", "m := map[string]int{}; m[1] = 2", "var m map[string]int; m[\"a\"] = 1",
	"func f() { f() }; f()", "for { }", "x := 1 / 0", "a := []int{1}; b := a[2:1]", "s := \"abc\"; c := s[5]", "f := 5; f()", "var f func(); f()",
	"type I interface { M() }; var i I; i.M()", "package", "package main; package other", "import", "import \"\"", "import ( \"fmt\"", "func", "func (", "func f(", "func f() {",
	"type", "type T", "type T struct {", "const", "const (", "var", "var (", "switch", "switch {", "case 1:", "default:", "if", "if {", "else", "for ;;", "for i := range", "range", "return", "break", "continue",
	"x :=", "= 1", "1 = x", "x ++ ++", "[]int", "[]int{", "map[", "map[string]", "make(", "make([]int", "make(map[string]int, )", "len(", "append(", "copy(1)", "delete(1)", "panic()", "panic(1, 2)",
	"$", "$1", "$ 99", "~", "#", "`", "'", "''", "'ab'", "\"", "\"\\q\"", "'\\400'", "0x", "1e", "1e+", "09", "1..2", "a..b", "...", "x...", ".", "x.", ".x", "x.1",
	"struct{}", "interface{}", "chan int", "go f()", "<-c", "goto L", "L: x := 1", "defer f()", "fallthrough", "select {}", "func() { }()", "x := func() int { return 1 }()",
	"type T int; func (t T) M() { }", "type T struct{}; func (t *T) M() { }; T.M()", "func f(a ...int, b int) { }", "func f(a, b) { }", "func f() (x int) { return }",
	"var a [3]int", "x := [3]int{1,2,3}", "x := [...]int{1}", "a, b := 1", "a, b = 1, 2, 3", "x := 1; x := 2", "if x := 1; { }", "for i := 0; i < 3 { }", "switch x := 1; x { }",
	strings.Repeat("(", 300) + "1" + strings.Repeat(")", 300), strings.Repeat("-", 500) + "1", strings.Repeat("!", 200) + "true", strings.Repeat("x.", 200) + "y", strings.Repeat("[]", 200) + "int{}",
	strings.Repeat("if true { ", 150) + strings.Repeat("}", 150), strings.Repeat("f(", 200) + strings.Repeat(")", 200), "x := " + strings.Repeat("1 + ", 2000) + "1",
}

func c03TreeCases(rng *core.Rng, corpus *c03Corpus) c03Input {
	in := c03Input{Kind: "load", Files: map[string]string{}, Mutator: "tree"}
	switch rng.Intn(16) {
	case 0:
		in.Arg = "nope"
	case 1:
		in.Files["p/a.go"] = ""
		in.Arg = "p"
	case 2:
		in.Files["p/a.go"] = "package p"
		in.Arg = "p"
	case 3:
		in.Files["p/a.go"] = "package p\nfunc A() {}"
		in.Files["p/b.go"] = "package q\nfunc B() {}"
		in.Arg = "p"
	case 4: // import cycles of length 1..4
		n := rng.Range(1, 4)
		if rng.Bool() {
			// a cycle inside a larger graph: packages without imports, stock packages, packages that lead into the cycle
			n = rng.Range(2, 7)
			imports := make([][]string, n)
			for i := 0; i < n; i++ {
				for j := 0; j < n; j++ {
					if i != j && rng.Chance(1, 4) {
						// (now and then spelled relative to the importing directory: not resolved that way, but never a reason to spin)
						imports[i] = append(imports[i], core.Pick(rng, []string{"", "", "", "./", "../", "./../"})+fmt.Sprintf("c%d", j))
					}
				}
				if rng.Chance(1, 3) {
					imports[i] = append(imports[i], core.Pick(rng, []string{"fmt", "strings", "math"}))
				}
			}
			a, b := rng.Intn(n), rng.Intn(n)
			imports[a] = append(imports[a], fmt.Sprintf("c%d", b))
			imports[b] = append(imports[b], fmt.Sprintf("c%d", a)) // a == b: a package importing itself
			for i := 0; i < n; i++ {
				src := fmt.Sprintf("package c%d\n", i)
				for _, im := range imports[i] {
					src += fmt.Sprintf("import %q\n", im)
				}
				in.Files[fmt.Sprintf("c%d/c.go", i)] = src + "var X = 1\n"
			}
			in.Files["leaf/leaf.go"] = "package leaf\nvar X = 2\n"
			in.Files["main/main.go"] = fmt.Sprintf("package main\nimport \"leaf\"\nimport \"fmt\"\nimport \"c%d\"\nfunc main() { fmt.Println(c%d.X, leaf.X) }", rng.Intn(n), 0)
			in.Arg = "main"
			break
		}
		rel := core.Pick(rng, []string{"", "", "./", "../"})
		for i := 0; i < n; i++ {
			in.Files[fmt.Sprintf("c%d/c.go", i)] = fmt.Sprintf("package c%d\nimport \"%sc%d\"\nvar X = 1\n", i, rel, (i+1)%n)
		}
		in.Files["main/main.go"] = "package main\nimport \"c0\"\nfunc main() { println(c0.X) }"
		in.Arg = "main"
	case 5:
		in.Files["p/a_test.go"] = "package p\nfunc T() {}"
		in.Arg = "p"
	case 6:
		in.Files["p/a.go"] = core.Pick(rng, []string{"//go:build", "//go:build (", "//go:build !", "//go:build goat &&", "// +build x\n\npackage p", "//go:build ignore\n\npackage p",
			// file headers that never end, or end oddly, before any package clause
			"/* never closed\n\n//go:build goat\n", "/*", "/*\n\n\n", "/* a */ /* b", "//", "// only a comment", "/**/", "\n\n\n", "/* x */\n//go:build goat\n/* y", "\ufeffpackage p", "//go:build goat\n/*"}) + core.Pick(rng, []string{"\npackage p\n", "", "\n"})
		in.Arg = "p"
		if rng.Bool() {
			// the same file as a dependency of a loaded package, next to a well-formed file
			in.Files["p/z_ok.go"] = "package p\n\nvar X = 1\n"
			in.Files["main/main.go"] = "package main\nimport \"p\"\nfunc main() { println(p.X) }"
			in.Arg = "main"
		}
	case 7:
		in.Files["p/x.go/y.go"] = "package y"
		in.Arg = "p"
	case 8:
		in.Files["p/a.go"] = "func A() {}"
		in.Arg = "p"
	case 9:
		in.Files["main.go"] = "package main\nimport \"missing/pkg\"\nfunc main() { pkg.F() }"
		in.Arg = "main.go"
	case 10:
		in.Files["p/a.go"] = "package p\nimport \"p\"\n"
		in.Arg = "p"
	case 11:
		in.Arg = core.Pick(rng, []string{"", ".", "..", "/", "a/../..", "p/", "./p", "p//q", "*.go", "[", "p/a.go", "\x00", "vendor"})
		in.Files["p/a.go"] = "package p\nvar X = 1\n"
	case 12:
		in.Files["vendor/v/v.go"] = "package v\nvar X = undefined\n"
		in.Files["main/main.go"] = "package main\nimport \"v\"\nfunc main() { println(v.X) }"
		in.Arg = "main"
	default:
		// a real generated tree, possibly with one file mutated or a fault injected
		t := core.Pick(rng, corpus.trees)
		for k, v := range t {
			in.Files[k] = v
			if strings.HasSuffix(k, "main.go") {
				in.Arg = filepath.Dir(k)
			}
		}
		switch rng.Intn(4) {
		case 0:
			in.FailAt = rng.Range(1, 12)
		case 1:
			for k := range in.Files {
				if rng.Bool() {
					in.Files[k], _ = c03Mutate(rng, in.Files[k])
					break
				}
			}
		case 2:
			in.Arg = in.Arg + "/main.go"
		}
	}
	in.Opts = rng.Intn(16)
	return in
}

func c03MakeInput(seed int64, corpus *c03Corpus, idx int, exhaustivePrefixes []string) c03Input {
	rng := core.Derive(seed, "c03", idx)
	if idx < len(exhaustivePrefixes) {
		return c03Input{Kind: "eval", Src: exhaustivePrefixes[idx], Mutator: "every-prefix", Opts: idx % 4}
	}
	if rng.Chance(1, 400) {
		return c03ScaleInput(rng)
	}
	if rng.Chance(1, 150) {
		return c03NestInput(rng)
	}
	switch k := rng.Intn(20); {
	case k < 11:
		i := rng.Intn(len(corpus.seeds))
		if rng.Chance(1, 4) && len(corpus.progSeeds) > 0 {
			i = core.Pick(rng, corpus.progSeeds) // generated programs and snippets: code with locals, fusions, methods
		}
		s := corpus.seeds[i]
		mut := "none"
		for n := rng.Intn(3); n >= 0; n-- {
			s, mut = c03Mutate(rng, s)
		}
		return c03Input{Kind: "eval", Src: s, Origin: corpus.origins[i], Mutator: mut, Opts: rng.Intn(16)}
	case k < 13:
		s := core.Pick(rng, c03Ill)
		mut := "ill-formed"
		if rng.Chance(1, 3) {
			s, mut = c03Mutate(rng, s)
		}
		return c03Input{Kind: "eval", Src: s, Mutator: mut, Opts: rng.Intn(16)}
	case k < 17:
		return c03TreeCases(rng, corpus)
	default:
		in := c03Input{Kind: "call", Mutator: "api",
			Src:   "func f0() int { return 1 }; func f2(a int, b string) (int, string) { return a, b }; func fv(xs ...int) int { return len(xs) }; func boom() { panic(\"boom\") }; func deep(n int) int { return deep(n+1) }; x := 5; type T struct { A int; CB func(int) int }; func (t *T) M() int { return t.A }; t := &T{}; m := t.M; var cb func(int) int; var nt *T; var ns []int; var nm map[string]int; var na any",
			Entry: core.Pick(rng, []string{"main.f0", "main.f2", "main.fv", "main.boom", "main.deep", "main.x", "main.nope", "main.T", "main.t", "main.m", "main.cb", "main.nt", "main.ns", "main.nm", "main.na", "func:main.cb", "func:main.nt", "func:main.na", "func:main.ns", "fmt.Println", "builtin.__type", "nil", "", "func:main.f2", "func:main.x", "func:main.nope", "func:main.m", "func:true", "strings.Repeat", "strconv.Itoa", "math.Sqrt", "golang.org/x/exp/slices.SortFunc"}),
			XRets: rng.Intn(5), NArgs: rng.Intn(5)}
		return in
	}
}

// c03NestInput: one identifier declared again and again in 2..40 nested scopes (blocks, if, for, range,
// switch clauses, function literals), at top level or inside a function, read and assigned at every level.
func c03NestInput(rng *core.Rng) c03Input {
	depth := core.Pick(rng, []int{2, 3, 4, 5, 6, 8, 12, 20, 40})
	name := core.Pick(rng, []string{"x", "n", "i", "v"})
	var sb strings.Builder
	inFunc := rng.Bool()
	if inFunc {
		fmt.Fprintf(&sb, "func f(%s int) int {\n", name)
	} else {
		fmt.Fprintf(&sb, "%s := 1\n", name)
	}
	closers := []string{}
	for d := 0; d < depth; d++ {
		switch rng.Intn(6) {
		case 0:
			fmt.Fprintf(&sb, "if %s > -1 {\n", name)
			closers = append(closers, "}")
		case 1:
			fmt.Fprintf(&sb, "for q%d := 0; q%d < 1; q%d++ {\n", d, d, d)
			closers = append(closers, "}")
		case 2:
			fmt.Fprintf(&sb, "for _, %s := range []int{%s} {\n", name, name)
			closers = append(closers, "}")
			continue
		case 3:
			fmt.Fprintf(&sb, "switch {\ndefault:\n")
			closers = append(closers, "}")
		case 4:
			fmt.Fprintf(&sb, "if %s := %s + 1; %s > 0 {\n", name, name, name)
			closers = append(closers, "}")
			continue
		default:
			fmt.Fprintf(&sb, "func() {\n")
			closers = append(closers, "}()")
		}
		fmt.Fprintf(&sb, "%s := %s + %d\n%s++\n", name, name, d, name)
	}
	fmt.Fprintf(&sb, "println(%s)\n", name)
	for i := len(closers) - 1; i >= 0; i-- {
		sb.WriteString(closers[i] + "\n")
	}
	if inFunc {
		fmt.Fprintf(&sb, "return %s\n}\nf(1)\n", name)
	} else {
		fmt.Fprintf(&sb, "%s\n", name)
	}
	return c03Input{Kind: "eval", Src: sb.String(), Mutator: fmt.Sprintf("nested-redeclaration-%d", depth), Opts: rng.Intn(16)}
}

// c03ScaleInput: sources whose line count, line length or number of declared
// names crosses 2^16 (the width of the fields of a packed source position),
// followed by something that fails at run time, at compile time or not at all.
func c03ScaleInput(rng *core.Rng) c03Input {
	n := core.Pick(rng, []int{65533, 65534, 65535, 65536, 65537, 70000, 131071, 131073, 200000})
	tail := core.Pick(rng, []string{
		"func f() int { z := 0; return 1 / z }\nf()\n",
		"func f(s []int) int { return s[5] }\nfunc g() int { return f([]int{1}) }\ng()\n",
		"type T struct { N int }\nfunc (t *T) M() int { var p *T; return p.N }\nx := &T{}\nx.M()\n",
		"x := undefinedName + 1\n",
		"panic(\"late\")\n",
		"x := 1\nx\n",
		"func f() int {\n",
	})
	var sb strings.Builder
	what := ""
	switch rng.Intn(5) {
	case 0, 1:
		what = "lines"
		sb.WriteString(strings.Repeat("\n", n))
		sb.WriteString(tail)
	case 2:
		what = "columns"
		// the failing code sits beyond column n of one line
		sb.WriteString("a := 1;" + strings.Repeat(" ", n) + strings.ReplaceAll(strings.TrimSuffix(tail, "\n"), "\n", "; ") + "\n")
	case 3:
		what = "comment-lines"
		sb.WriteString("/*" + strings.Repeat("\n", n) + "*/ ")
		sb.WriteString(tail)
	default:
		what = "names"
		for i := 0; i < n; i++ {
			fmt.Fprintf(&sb, "var g%d = %d\n", i, i&7)
			if i > 70000 {
				break
			}
		}
		sb.WriteString(tail)
	}
	return c03Input{Kind: "eval", Src: sb.String(), Mutator: fmt.Sprintf("scale-%s-%d", what, n), Opts: rng.Intn(2) * 4}
}

// ---------------------------------------------------------------------------
// worker (child process) and parent

type c03WorkerOut struct {
	Stages     map[string]int `json:"stages"`
	Mutators   map[string]int `json:"mutators"`
	Done       int            `json:"done"`
	Violations []struct {
		Index   int      `json:"index"`
		Problem string   `json:"problem"`
		Input   c03Input `json:"input"`
	} `json:"violations"`
	Samples []c03Input `json:"samples"`
	HangAt  int        `json:"hang_at"` // index of an input that exceeded c03InputLimit (-1: none)
}

// c03InputLimit is the wall-clock limit for one input inside a worker (typical inputs take well under 10 ms,
// the largest scale inputs under a second); exceeding it is only a suspicion, confirmed by the parent.
const c03InputLimit = 30 * time.Second

// C03Worker is the child-process entry: vcheck C03 worker <seed> <lo> <hi> <journal> <nprefix>
func C03Worker(args []string) int {
	seed, _ := strconv.ParseInt(args[0], 10, 64)
	lo, _ := strconv.Atoi(args[1])
	hi, _ := strconv.Atoi(args[2])
	journal, err := os.OpenFile(args[3], os.O_CREATE|os.O_WRONLY|os.O_TRUNC, 0o644)
	if err != nil {
		fmt.Fprintln(os.Stderr, err)
		return 3
	}
	thorough := args[4] == "thorough"
	corpus := c03BuildCorpus(seed)
	prefixes := c03Prefixes(corpus, thorough)
	out := c03WorkerOut{Stages: map[string]int{}, Mutators: map[string]int{}, HangAt: -1}
	// per-input watchdog: the run stage is bounded by the instruction budget, so an input that keeps an entry
	// point busy for this long is a stage that does not terminate. The stuck goroutine cannot be stopped:
	// the worker reports what it has and exits; the parent re-confirms on the single input.
	var curIdx, curStart atomic.Int64
	curIdx.Store(-1)
	ppid := os.Getppid()
	go func() {
		for {
			time.Sleep(500 * time.Millisecond)
			if os.Getppid() != ppid {
				os.Exit(4) // the parent is gone
			}
			if i := curIdx.Load(); i >= 0 && time.Since(time.Unix(0, curStart.Load())) > c03InputLimit {
				out.HangAt = int(i)
				b, _ := json.Marshal(out)
				os.Stdout.Write(b)
				os.Exit(0)
			}
		}
	}()
	for idx := lo; idx < hi; idx++ {
		in := c03MakeInput(seed, corpus, idx, prefixes)
		fmt.Fprintf(journal, "%d\n", idx) // write-ahead: names the culprit if the process dies
		curStart.Store(time.Now().UnixNano())
		curIdx.Store(int64(idx))
		res := c03Exec(in)
		curIdx.Store(-1)
		out.Done++
		out.Stages[res.Stage]++
		out.Mutators[in.Mutator]++
		if res.Problem != "" && len(out.Violations) < 10 {
			out.Violations = append(out.Violations, struct {
				Index   int      `json:"index"`
				Problem string   `json:"problem"`
				Input   c03Input `json:"input"`
			}{idx, res.Problem, in})
		}
		if idx%4001 == 0 && len(out.Samples) < 3 {
			out.Samples = append(out.Samples, in)
		}
	}
	fmt.Fprintf(journal, "done\n")
	journal.Close()
	b, _ := json.Marshal(out)
	os.Stdout.Write(b)
	return 0
}

// c03Prefixes: every prefix of a few seeds (drives the parser into EOF at
// every position).
func c03Prefixes(c *c03Corpus, thorough bool) []string {
	var res []string
	n := 40
	if thorough {
		n = 400
	}
	step := len(c.seeds) / n
	if step == 0 {
		step = 1
	}
	for i := 0; i < len(c.seeds) && n > 0; i += step {
		s := c.seeds[i]
		if len(s) > 1500 {
			s = s[:1500]
		}
		for j := 0; j <= len(s); j++ {
			res = append(res, s[:j])
		}
		n--
	}
	return res
}

func runC03(r *core.Run) {
	r.SetRule("inputs derived from ~2200 seeds (every string literal of /repo/*_test.go, generated programs, snippets): byte/token/bracket/prefix mutations, every prefix of selected seeds, a catalogue of ill-formed programs, odd file trees (import cycles, conflicting clauses, bad build constraints, test-only packages, missing packages) with an error injected at the k-th file-system operation, all 16 option subsets, and misuse of Call/Func; executed in child processes with a write-ahead journal. non-trivial = the input reached the parser (tokenized); distinct by input")
	r.Assume("resource exhaustion by the script is excluded by the property: the step hook bounds instructions, call depth, string/slice growth and output size so that such inputs end as ordinary run errors; natives that sleep or touch the real file system are replaced")
	total := r.N(200000, 5000000)
	workers := runtime.NumCPU()
	exe, err := os.Executable()
	if err != nil {
		r.Inconclusive("no_executable_path")
		return
	}
	tmp, err := os.MkdirTemp("", "verif-c03-")
	if err != nil {
		r.Inconclusive("no_temp_dir")
		return
	}
	defer os.RemoveAll(tmp)
	corpus := c03BuildCorpus(r.Seed)
	prefixes := c03Prefixes(corpus, r.Thorough())
	r.Count("seeds", len(corpus.seeds))
	r.Count("every_prefix_inputs", len(prefixes))
	if total < len(prefixes)+1000 {
		total = len(prefixes) + 1000
	}
	chunk := 2500
	type span struct{ lo, hi int }
	var spans []span
	for lo := 0; lo < total; lo += chunk {
		hi := lo + chunk
		if hi > total {
			hi = total
		}
		spans = append(spans, span{lo, hi})
	}
	var mu sync.Mutex
	ch := make(chan span, len(spans))
	for _, s := range spans {
		ch <- s
	}
	close(ch)
	var wg sync.WaitGroup
	distinct := map[uint64]struct{}{}
	_ = distinct
	for w := 0; w < workers; w++ {
		wg.Add(1)
		go func(w int) {
			defer wg.Done()
			for sp := range ch {
				// a span is run by one child; when the child dies or reports a hang the culprit is recorded
				// and a new child continues behind it
				for lo := sp.lo; lo < sp.hi; {
					mu.Lock()
					stop := r.ViolationCount() >= 20
					mu.Unlock()
					if stop {
						break // enough witnesses: the verdict is decided, do not spend minutes per further hang
					}
					jpath := filepath.Join(tmp, fmt.Sprintf("journal-%d-%d", w, lo))
					out, stderr, state := c03RunChild(exe, r.Seed, lo, sp.hi, jpath, r.Tier, 10*time.Minute)
					next := sp.hi
					var wo c03WorkerOut
					wo.HangAt = -1
					parsed := state == "ok" && json.Unmarshal(out, &wo) == nil
					culprit, what := -1, ""
					switch {
					case state == "ok" && !parsed:
						mu.Lock()
						r.Inconclusive("worker_output_unreadable")
						mu.Unlock()
					case parsed && wo.HangAt >= 0:
						culprit = wo.HangAt
						// confirm on the single input, in a process of its own
						o2, _, st2 := c03RunChild(exe, r.Seed, culprit, culprit+1, jpath+".single", r.Tier, 2*c03InputLimit+30*time.Second)
						var wo2 c03WorkerOut
						wo2.HangAt = -1
						if st2 == "ok" && json.Unmarshal(o2, &wo2) == nil && wo2.HangAt < 0 {
							mu.Lock()
							r.Inconclusive("worker_timeout_not_reproduced")
							mu.Unlock()
							culprit = -1
							next = wo.HangAt + 1
						} else {
							what = fmt.Sprintf("an entry point did not return within %v on this input, in two separate processes", c03InputLimit)
						}
					case state != "ok":
						// the child died: the journal names the input
						culprit = c03LastJournal(jpath)
						what = "the process running the inputs died (" + state + ") while executing this input: " + firstLines(stderr, 3)
					}
					mu.Lock()
					if parsed {
						r.Eval(wo.Done)
						for k, v := range wo.Stages {
							r.Count("last_stage:"+k, v)
						}
						for k, v := range wo.Mutators {
							r.Count("mutator:"+k, v)
						}
						r.DistinctN(wo.Done - wo.Stages["tokenize"])
						for _, v := range wo.Violations {
							r.Violate(core.Violation{Check: "c03", Index: v.Index, What: v.Problem, Case: v.Input})
						}
						for _, s := range wo.Samples {
							r.Sample(s)
						}
					}
					if culprit >= 0 {
						in := c03MakeInput(r.Seed, corpus, culprit, prefixes)
						r.Violate(core.Violation{Check: "c03", Index: culprit, What: what, Case: in, Observed: firstLines(stderr, 30)})
						next = culprit + 1
					}
					mu.Unlock()
					lo = next
				}
			}
		}(w)
	}
	wg.Wait()
	r.SetObserved("distinct_note", "distinct_nontrivial counts inputs that got past the tokenizer; inputs are generated from (seed, index) so equal indices never repeat, and mutated texts are overwhelmingly distinct (not hashed across child processes)")
}

func firstLines(s string, n int) string {
	ls := strings.Split(s, "\n")
	if len(ls) > n {
		ls = ls[:n]
	}
	return strings.Join(ls, "\n")
}

func c03LastJournal(path string) int {
	f, err := os.Open(path)
	if err != nil {
		return 0
	}
	defer f.Close()
	last := 0
	sc := bufio.NewScanner(f)
	for sc.Scan() {
		if v, err := strconv.Atoi(sc.Text()); err == nil {
			last = v
		}
	}
	return last
}

func c03RunChild(exe string, seed int64, lo, hi int, journal, tier string, limit time.Duration) (stdout []byte, stderr string, state string) {
	cmd := exec.Command(exe, "C03", "worker", fmt.Sprint(seed), fmt.Sprint(lo), fmt.Sprint(hi), journal, tier)
	cmd.Env = append(os.Environ(), "GOTRACEBACK=single", "GOMAXPROCS=2", "GOMEMLIMIT=3GiB")
	var so, se bytes.Buffer
	cmd.Stdout = &so
	cmd.Stderr = &limitedBuffer{max: 1 << 20, w: &se}
	cmd.SysProcAttr = &syscall.SysProcAttr{Pdeathsig: syscall.SIGKILL} // a worker never outlives its parent
	if err := cmd.Start(); err != nil {
		return nil, err.Error(), "spawn-failed"
	}
	done := make(chan error, 1)
	go func() { done <- cmd.Wait() }()
	select {
	case err := <-done:
		if err != nil {
			return so.Bytes(), se.String(), "exit: " + err.Error()
		}
		return so.Bytes(), se.String(), "ok"
	case <-time.After(limit):
		cmd.Process.Kill()
		<-done
		return so.Bytes(), se.String(), "timeout"
	}
}

type limitedBuffer struct {
	max int
	w   io.Writer
	n   int
}

func (l *limitedBuffer) Write(p []byte) (int, error) {
	if l.n < l.max {
		l.w.Write(p)
		l.n += len(p)
	}
	return len(p), nil
}

func replayC03(r *core.Run, v *core.Violation) {
	var in c03Input
	if err := remarshal(v.Case, &in); err != nil {
		return
	}
	// a replayed input may be one that never returns (or kills the process: then the replay dies the same way)
	done := make(chan c03Result, 1)
	go func() { done <- c03Exec(in) }()
	select {
	case res := <-done:
		fmt.Printf("stage=%s err=%q\n", res.Stage, res.Err)
		if res.Problem != "" {
			r.Violate(core.Violation{Check: "c03", What: res.Problem, Case: in})
		}
	case <-time.After(c03InputLimit):
		r.Violate(core.Violation{Check: "c03", What: fmt.Sprintf("an entry point did not return within %v on this input", c03InputLimit), Case: in})
	}
}
