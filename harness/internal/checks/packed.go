package checks

import (
	"fmt"
	"strings"

	"verif/internal/core"
)

// Packed differential cases: thousands of tiny cases (a function each) are
// compiled into a few Go/386 programs to amortise link cost; goatlang runs
// every case on its own VM so one failing case cannot hide the others. The
// function text is identical on both sides.

type packedCase struct {
	ID   string `json:"id"`
	Decl string `json:"decl"` // top-level declarations of this case (uniquely named)
	Call string `json:"call"` // statements for main() that run the case; must print "== <ID>..." headers itself
}

type packedResult struct {
	Go      string // output of this case in the Go binary ("" if the pack failed)
	GoOK    bool
	GoPanic bool
	Goat    core.Outcome
}

// splitByHeader cuts a program's stdout into per-case chunks; a chunk starts
// at a line "== <id>" (id up to the first space) and runs to the next header.
func splitByHeader(out string) map[string]string {
	res := map[string]string{}
	cur := ""
	var sb strings.Builder
	flush := func() {
		if cur != "" {
			res[cur] += sb.String()
		}
		sb.Reset()
	}
	for _, l := range strings.SplitAfter(out, "\n") {
		if strings.HasPrefix(l, "== ") {
			flush()
			id := strings.TrimSpace(l[3:])
			if i := strings.IndexByte(id, ' '); i >= 0 {
				id = id[:i]
			}
			cur = id
		}
		sb.WriteString(l)
	}
	flush()
	return res
}

func packProgram(pkgDir, prelude string, cases []packedCase) map[string]string {
	var sb strings.Builder
	sb.WriteString(prelude)
	for _, c := range cases {
		sb.WriteString(c.Decl)
		sb.WriteString("\n")
	}
	sb.WriteString("func main() {\n")
	for _, c := range cases {
		sb.WriteString(c.Call)
		sb.WriteString("\n")
	}
	sb.WriteString("}\n")
	return map[string]string{pkgDir + "/main.go": sb.String()}
}

// runPacked executes all cases on both sides. perPack cases share one Go
// binary. budget bounds each goatlang run.
func runPacked(r *core.Run, tag, prelude string, cases []packedCase, perPack int, budget core.Budget) []packedResult {
	return runPackedPrep(r, tag, prelude, cases, perPack, budget, nil)
}

// runPackedPrep lets the caller prepare each goatlang VM before the case is
// loaded (e.g. intern names to steer index allocation).
func runPackedPrep(r *core.Run, tag, prelude string, cases []packedCase, perPack int, budget core.Budget, prep func(m *core.Machine, i int)) []packedResult {
	res := make([]packedResult, len(cases))
	// Go side
	var refCases []core.RefCase
	var spans [][2]int
	for lo := 0; lo < len(cases); lo += perPack {
		hi := lo + perPack
		if hi > len(cases) {
			hi = len(cases)
		}
		dir := fmt.Sprintf("ref/%s%05d/cmd%s%05d", tag, lo/perPack, tag, lo/perPack)
		refCases = append(refCases, core.RefCase{Files: packProgram(dir, prelude, cases[lo:hi]), MainDir: dir})
		spans = append(spans, [2]int{lo, hi})
	}
	refs, err := core.RunRef(refCases)
	if err != nil {
		r.Inconclusive("reference_executor_failed")
		fmt.Println("reference executor:", err)
	}
	for pi, sp := range spans {
		if refs == nil {
			break
		}
		ref := refs[pi]
		if ref.Rejected {
			r.Count("packs_rejected_by_go", 1)
			r.NoteReject(firstLine(ref.RejectMsg))
			// find the culprits by bisecting into single-case programs
			var singles []core.RefCase
			for i := sp[0]; i < sp[1]; i++ {
				dir := fmt.Sprintf("ref/%ss%06d/cmd%ss%06d", tag, i, tag, i)
				singles = append(singles, core.RefCase{Files: packProgram(dir, prelude, cases[i:i+1]), MainDir: dir})
			}
			srefs, err := core.RunRef(singles)
			if err != nil {
				continue
			}
			for k, sr := range srefs {
				i := sp[0] + k
				if sr.Rejected {
					r.Count("rejected_by_go", 1)
					continue
				}
				res[i].Go, res[i].GoOK, res[i].GoPanic = sr.Out, !sr.TimedOut, sr.Panicked || sr.Exit != 0
			}
			continue
		}
		if ref.TimedOut {
			r.Inconclusive("reference_timeout")
			continue
		}
		chunks := splitByHeader(ref.Out)
		for i := sp[0]; i < sp[1]; i++ {
			// a pack that panicked has output only up to the panic: cases after it are undecided
			out, ok := chunks[cases[i].ID]
			if !ok {
				if ref.Panicked || ref.Exit != 0 {
					continue
				}
			}
			res[i].Go, res[i].GoOK = out, true
		}
		if ref.Panicked || ref.Exit != 0 {
			r.Count("packs_ending_in_a_go_panic", 1)
			// the last chunk printed belongs to the panicking case: rerun the rest individually is not
			// needed for panic-free generators; mark everything after the last header undecided
			last := ""
			for _, l := range strings.Split(ref.Out, "\n") {
				if strings.HasPrefix(l, "== ") {
					last = strings.Fields(l[3:])[0]
				}
			}
			seen := false
			for i := sp[0]; i < sp[1]; i++ {
				if cases[i].ID == last {
					seen = true
					res[i].GoPanic = true
					continue
				}
				if seen {
					res[i].GoOK = false
				}
			}
		}
	}
	// goatlang side: one VM per case
	core.Parallel(len(cases), func(i int) {
		dir := fmt.Sprintf("ref/%sg/cmd%sg", tag, tag)
		files := packProgram(dir, prelude, cases[i:i+1])
		m := core.NewMachine(core.VMOpts{Optimize: true, Obs: core.NewObs(budget, false, nil)})
		if prep != nil {
			prep(m, i)
		}
		res[i].Goat = m.LoadMain(core.MapFS(files), dir)
	})
	return res
}
