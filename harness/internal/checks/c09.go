package checks

import (
	"fmt"
	"strings"

	"github.com/philhassey/goatlang"

	"verif/internal/core"
	"verif/internal/mon"
)

// C09 — calls deliver arguments and results in order and with their declared
// types.
//
// Well-formed calls: oracle is the Go toolchain (GOARCH=386) on generated
// callee/driver pairs (every callee prints what it received, made
// type-revealing through wrap-around arithmetic). Ill-formed calls (wrong
// argument count, more results requested than yielded): the property text is
// the oracle — an error must come back, and the VM trace monitor must see no
// misaligned stack on the way.

func init() { register("C09", &Check{Run: runC09, Replay: replayC09}) }

const c09Prelude = `package main

import "fmt"

type T struct {
	A int
	S string
	F func(int) int
}

func (t *T) M1(a int, b string) (int, string) {
	fmt.Println("M1", t.A, a, b)
	return t.A + a, b + t.S
}

func (t *T) MV(a int, xs ...int) int {
	fmt.Println("MV", t.A, a, xs, len(xs), xs == nil)
	n := a
	for _, x := range xs {
		n += x
	}
	return n + t.A
}

func (t *T) Rec(n int) int {
	if n <= 0 {
		return t.A
	}
	local := n * 3
	r := t.Rec(n - 1)
	return r + local - n*3 + 1
}

type H struct {
	O *T
}

var gT = &T{A: 100}

func dbl(x int) int { return x * 2 }
func neg(x int) int { return -x }

func fill(v int, xs ...int) {
	for i := range xs {
		xs[i] = v + i
	}
}

func (t *T) Scale(xs ...int) int {
	for i := range xs {
		xs[i] *= t.A
	}
	return len(xs)
}

func relay(xs ...int) {
	fill(50, xs...)
}

// methods entered with a nil receiver that call further methods on it, or hand it on
func (t *T) NilA() int {
	if t == nil {
		return t.NilB() + 1
	}
	return t.A
}

func (t *T) NilB() int {
	if t == nil {
		return 40
	}
	return 1
}

func (t *T) Me() *T {
	return t
}

// callees that keep the slice their surplus arguments were packed into
var hookF func(int) int
var hookM func(int, ...int) int

func fire(n int) int {
	return hookF(n)*10 + hookM(n, 1)
}

func cnt(xs ...any) int {
	return len(xs)*10 + len(fmt.Sprint(xs...))
}

func keep(xs ...int) []int {
	return xs
}

func vsum(n int, xs ...int) int {
	if n == 0 {
		return len(xs)
	}
	r := vsum(n-1, n, n+1)
	t := 0
	for _, x := range xs {
		t += x
	}
	return r + t
}

func apply(f func(int) int, v int) int {
	if f == nil {
		return -1
	}
	return f(v)
}

func show(vs ...any) {
	fmt.Println(vs...)
}

func hdr(id string) {
	fmt.Println("==", id)
}

func down(n int, acc int) int {
	a, b, c := n, n+1, n+2
	if n <= 0 {
		return acc
	}
	r := down(n-1, acc+1)
	return r + a + b + c - 3*n - 3
}

func even(n int) bool {
	if n == 0 {
		return true
	}
	keep := n
	r := odd(n - 1)
	return r && keep == n
}

func odd(n int) bool {
	if n == 0 {
		return false
	}
	keep := n * 2
	r := even(n - 1)
	return r && keep == n*2
}

`

type c09Type struct {
	name  string
	args  []string // well-typed argument spellings (untyped constants, nil, literals)
	print func(p string) string
	res   func(p string) string // an expression of this type derived from parameter p (for results)
	resOK bool
}

var c09Types = []c09Type{
	{name: "int", args: []string{"7", "-3", "2147483647", "0x10", "'a'"}, print: func(p string) string { return p + ", " + p + "+1" }, res: func(p string) string { return p + " + 1" }, resOK: true},
	{name: "byte", args: []string{"200", "0", "255", "'z'"}, print: func(p string) string { return p + ", " + p + "+250" }, res: func(p string) string { return p + " + 100" }, resOK: true},
	{name: "int8", args: []string{"-100", "127", "5"}, print: func(p string) string { return p + ", " + p + "+100" }, res: func(p string) string { return p + " - 100" }, resOK: true},
	{name: "uint32", args: []string{"4000000000", "0", "3"}, print: func(p string) string { return p + ", " + p + "-4, " + p + "*2" }, res: func(p string) string { return p + " - 4" }, resOK: true},
	{name: "float64", args: []string{"2", "1.5", "-0.25", "1e3"}, print: func(p string) string { return p + ", " + p + "/4" }, res: func(p string) string { return p + " / 4" }, resOK: true},
	{name: "string", args: []string{`"s"`, `""`, `"héllo"`}, print: func(p string) string { return p + ", len(" + p + ")" }, res: func(p string) string { return p + ` + "!"` }, resOK: true},
	{name: "bool", args: []string{"true", "false"}, print: func(p string) string { return p + ", !" + p }, res: func(p string) string { return "!" + p }, resOK: true},
	{name: "[]int", args: []string{"[]int{1, 2}", "nil", "[]int{}"}, print: func(p string) string { return p + ", len(" + p + "), " + p + " == nil" }, res: func(p string) string { return "append(" + p + ", 9)" }, resOK: true},
	{name: "map[string]int", args: []string{`map[string]int{"k": 3}`, "nil"}, print: func(p string) string { return "len(" + p + "), " + p + `["k"], ` + p + " == nil" }},
	{name: "*T", args: []string{`&T{A: 4, S: "t"}`, "nil"}, print: func(p string) string { return p + " == nil" }},
	{name: "func(int) int", args: []string{"dbl", "neg", "nil"}, print: func(p string) string { return "apply(" + p + ", 21)" }},
	{name: "any", args: []string{"5", `"a"`, "2.5", "true"}, print: func(p string) string { return p }},
}

type c09Sig struct {
	params   []c09Type
	variadic *c09Type
	results  []int // index into params whose derived value is returned
}

func c09GenCase(seed int64, idx int) packedCase {
	rng := core.Derive(seed, "c09", idx)
	id := fmt.Sprintf("c%d", idx)
	var sig c09Sig
	np := rng.Intn(6)
	for i := 0; i < np; i++ {
		sig.params = append(sig.params, core.Pick(rng, c09Types))
	}
	if rng.Chance(1, 3) {
		vt := core.Pick(rng, c09Types[:7])
		sig.variadic = &vt
	}
	nr := rng.Intn(4)
	// results: derived from parameters in random order, or untyped constants of another type
	// (negative index -k-1 = constant of c09Types[k])
	for len(sig.results) < nr {
		if len(sig.params) > 0 && rng.Chance(2, 3) {
			i := rng.Intn(len(sig.params))
			if sig.params[i].resOK {
				sig.results = append(sig.results, i)
				continue
			}
		}
		sig.results = append(sig.results, -rng.Intn(5)-1)
	}
	// callee
	var ps, rts, rvs []string
	// now and then the parameters the results do not use are spelled _ in the callee (the wrapper and
	// the callers still pass a value for each)
	blank := map[int]bool{}
	if rng.Chance(1, 4) {
		used := map[int]bool{}
		for _, ri := range sig.results {
			used[ri] = true
		}
		for i := range sig.params {
			if !used[i] && rng.Chance(3, 4) {
				blank[i] = true
			}
		}
	}
	var wps []string // the wrapper's parameter list: every parameter named
	for i, p := range sig.params {
		wps = append(wps, fmt.Sprintf("p%d %s", i, p.name))
		if blank[i] {
			ps = append(ps, "_ "+p.name)
			continue
		}
		ps = append(ps, fmt.Sprintf("p%d %s", i, p.name))
	}
	if sig.variadic != nil {
		ps = append(ps, "va ..."+sig.variadic.name)
		wps = append(wps, "va ..."+sig.variadic.name)
	}
	for _, ri := range sig.results {
		if ri < 0 {
			t := c09Types[-ri-1]
			rts = append(rts, t.name)
			rvs = append(rvs, t.args[0]) // an untyped constant: must adopt the declared result type
			continue
		}
		rts = append(rts, sig.params[ri].name)
		rvs = append(rvs, sig.params[ri].res(fmt.Sprintf("p%d", ri)))
	}
	rt := ""
	switch len(rts) {
	case 0:
	case 1:
		rt = " " + rts[0]
	default:
		rt = " (" + strings.Join(rts, ", ") + ")"
	}
	var sb strings.Builder
	// now and then the callee is a method of *T, called through the global gT and taken as a method value
	callee := id
	if rng.Chance(1, 3) {
		callee = "gT." + id
		fmt.Fprintf(&sb, "func (t *T) %s(%s)%s {\n", id, strings.Join(ps, ", "), rt)
	} else {
		fmt.Fprintf(&sb, "func %s(%s)%s {\n", id, strings.Join(ps, ", "), rt)
	}
	for i, p := range sig.params {
		if blank[i] {
			continue
		}
		fmt.Fprintf(&sb, "\tfmt.Println(\"%s p%d\", %s)\n", id, i, p.print(fmt.Sprintf("p%d", i)))
	}
	if sig.variadic != nil {
		fmt.Fprintf(&sb, "\tfmt.Println(\"%s va\", va, len(va), va == nil)\n", id)
		fmt.Fprintf(&sb, "\tfor _, e := range va {\n\t\tfmt.Println(%s)\n\t}\n", sig.variadic.print("e"))
	}
	if len(rvs) > 0 {
		fmt.Fprintf(&sb, "\treturn %s\n", strings.Join(rvs, ", "))
	}
	sb.WriteString("}\n\n")

	args := func() string {
		var as []string
		for _, p := range sig.params {
			as = append(as, core.Pick(rng, p.args))
		}
		if sig.variadic != nil {
			switch rng.Intn(5) {
			case 4:
				as = append(as, "nil...") // a spread nil is a nil slice of the parameter's type
			case 0: // no surplus arguments
			case 1:
				as = append(as, "[]"+sig.variadic.name+"{"+sig.variadic.args[0]+"}...")
			default:
				for n := rng.Range(1, 3); n > 0; n-- {
					as = append(as, core.Pick(rng, sig.variadic.args))
				}
			}
		}
		return strings.Join(as, ", ")
	}
	// reveal renders result variables so that their dynamic type shows (wrap-around arithmetic)
	reveal := func(ns []string) string {
		var out []string
		for i, n := range ns {
			if n == "_" {
				continue
			}
			out = append(out, n)
			switch rts[i] {
			case "byte", "int8":
				out = append(out, n+"+100")
			case "uint32":
				out = append(out, n+"*2", n+"-5")
			case "float64":
				out = append(out, n+"/4")
			case "int":
				out = append(out, n+"+2147483647")
			}
		}
		return strings.Join(out, ", ")
	}
	resNames := func(prefix string) []string {
		var ns []string
		for i := range sig.results {
			ns = append(ns, fmt.Sprintf("%s%d", prefix, i))
		}
		return ns
	}
	// wrapper for 'return f()'
	if len(rts) > 0 {
		// a function literal with another result count ahead of the forwarding return
		lit := ""
		switch rng.Intn(3) {
		case 0:
			lit = "\thelper := func(a int) int {\n\t\treturn a + 1\n\t}\n\t_ = helper\n"
		case 1:
			lit = "\tnote := func() {\n\t}\n\tnote()\n"
		}
		if len(rts) == 1 && rng.Bool() {
			lit = "\tpair := func(a int) (int, int) {\n\t\treturn a, a + 1\n\t}\n\tq1, q2 := pair(1)\n\t_, _ = q1, q2\n"
		}
		fwdArgs := func() string {
			var as []string
			for i := range sig.params {
				as = append(as, fmt.Sprintf("p%d", i))
			}
			if sig.variadic != nil {
				as = append(as, "va...")
			}
			return strings.Join(as, ", ")
		}
		if rng.Chance(1, 4) {
			// the callee as the post statement of a loop ahead of the forwarding return: its results are dropped
			lit += fmt.Sprintf("\tfor q := 0; q < 2; %s(%s) {\n\t\tq++\n\t}\n", callee, fwdArgs())
		}
		fmt.Fprintf(&sb, "func %sw(%s)%s {\n%s\treturn %s(%s)\n}\n\n", id, strings.Join(wps, ", "), rt, lit, callee, func() string {
			var as []string
			for i := range sig.params {
				as = append(as, fmt.Sprintf("p%d", i))
			}
			if sig.variadic != nil {
				as = append(as, "va...")
			}
			return strings.Join(as, ", ")
		}())
	}
	// driver
	fmt.Fprintf(&sb, "func %sd() {\n", id)
	forms := rng.Range(3, 6)
	for f := 0; f < forms; f++ {
		tag := fmt.Sprintf("%s.%d", id, f)
		switch k := rng.Intn(9); {
		case k == 0 || len(rts) == 0:
			fmt.Fprintf(&sb, "\t%s(%s)\n", callee, args())
		case k == 1 && len(rts) == 1:
			fmt.Fprintf(&sb, "\tshow(%q, %s(%s))\n", tag, callee, args())
		case k == 2 && len(rts) == 1 && (rts[0] == "int"):
			fmt.Fprintf(&sb, "\tshow(%q, 1+%s(%s)*2, dbl(%s(%s)))\n", tag, callee, args(), callee, args())
		case k == 8 && rng.Bool():
			// the call as the post statement of a for loop: its results are dropped every time round
			fmt.Fprintf(&sb, "\tn%d := 0\n\tfor q := 0; q < 2; %s(%s) {\n\t\tq++\n\t\tn%d += q\n\t}\n\tshow(%q, n%d)\n", f, callee, args(), f, tag, f)
		case k == 3:
			ns := resNames(fmt.Sprintf("w%d_", f))
			fmt.Fprintf(&sb, "\t%s := %sw(%s)\n\tshow(%q, %s)\n", strings.Join(ns, ", "), id, args(), tag, reveal(ns))
		case k == 4:
			// function-typed variable
			fmt.Fprintf(&sb, "\tfv%d := %s\n", f, callee)
			ns := resNames(fmt.Sprintf("v%d_", f))
			fmt.Fprintf(&sb, "\t%s := fv%d(%s)\n\tshow(%q, %s)\n", strings.Join(ns, ", "), f, args(), tag, reveal(ns))
		case k == 5 && len(rts) >= 2:
			ns := resNames(fmt.Sprintf("b%d_", f))
			ns[rng.Intn(len(ns))] = "_"
			all := true
			for _, n := range ns {
				if n != "_" {
					all = false
				}
			}
			if all {
				fmt.Fprintf(&sb, "\t%s = %s(%s)\n", strings.Join(ns, ", "), callee, args())
			} else {
				fmt.Fprintf(&sb, "\t%s := %s(%s)\n\tshow(%q, %s)\n", strings.Join(ns, ", "), callee, args(), tag, reveal(ns))
			}
		case k == 7 && len(rts) >= 2 && func() bool {
			for _, t := range rts {
				if t != rts[0] {
					return false
				}
			}
			return true
		}():
			// a typed declaration of several variables from one call
			ns := resNames(fmt.Sprintf("t%d_", f))
			fmt.Fprintf(&sb, "\tvar %s %s = %s(%s)\n\tshow(%q, %s)\n", strings.Join(ns, ", "), rts[0], callee, args(), tag, reveal(ns))
		case k == 6:
			// results assigned to pre-declared variables of the declared types
			ns := resNames(fmt.Sprintf("a%d_", f))
			for i, n := range ns {
				fmt.Fprintf(&sb, "\tvar %s %s\n", n, rts[i])
			}
			fmt.Fprintf(&sb, "\t%s = %s(%s)\n\tshow(%q, %s)\n", strings.Join(ns, ", "), callee, args(), tag, reveal(ns))
		default:
			ns := resNames(fmt.Sprintf("r%d_", f))
			fmt.Fprintf(&sb, "\t%s := %s(%s)\n\tshow(%q, %s)\n", strings.Join(ns, ", "), callee, args(), tag, reveal(ns))
		}
	}
	// method forms
	switch rng.Intn(5) {
	case 0:
		fmt.Fprintf(&sb, "\to := &T{A: %d, S: \"m\"}\n\tx, y := o.M1(%d, \"q\")\n\tshow(x, y)\n", rng.Intn(9), rng.Intn(9))
	case 1:
		fmt.Fprintf(&sb, "\to := &T{A: %d}\n\tm := o.M1\n\to.A = 50\n\tx, y := m(%d, \"v\")\n\tshow(x, y)\n\tmv := o.MV\n\tshow(mv(1), mv(1, 2, 3), mv(1, []int{4, 5}...))\n", rng.Intn(9), rng.Intn(9))
	case 2:
		fmt.Fprintf(&sb, "\to := &T{A: %d, F: dbl}\n\tshow(o.F(4), apply(o.F, 5), apply(nil, 1), apply(neg, 2))\n\to.F = neg\n\tshow(o.F(4))\n", rng.Intn(9))
	case 3:
		fmt.Fprintf(&sb, "\to := &T{A: %d}\n\tshow(o.MV(%d), o.MV(1, 2), o.Rec(%d))\n", rng.Intn(9), rng.Intn(9), rng.Range(1, 40))
		// a spread slice through a method reached as an attribute of a local, of a field and of a global
		fmt.Fprintf(&sb, "\txs := []int{%d, %d, %d}\n\tshow(o.MV(2, xs...), o.MV(3, []int{}...), o.MV(4, xs[:1]...))\n", rng.Intn(9), rng.Intn(9), rng.Intn(9))
		fmt.Fprintf(&sb, "\tvar nt *T\n\tna := nt.NilA\n\tshow(nt.NilA(), na(), nt.Me().NilB(), nt.Me().Me().NilA())\n")
		fmt.Fprintf(&sb, "\tk1 := keep(1, 2, 3)\n\tk2 := keep(4, 5)\n\tk3 := keep(%d)\n\tk2[1] = 9\n\tshow(k1, k2, k3, keep() == nil, vsum(3, 7, 8), vsum(2))\n", rng.Intn(9))
		// a spread slice is passed through unchanged: the callee's writes to its elements are the caller's
		fmt.Fprintf(&sb, "\tys := []int{1, 2, 3, 4}\n\tfill(%d, ys...)\n\tshow(ys)\n\to.A = 3\n\tshow(o.Scale(ys...), ys)\n\tsc := o.Scale\n\tshow(sc(ys[1:3]...), ys)\n\trelay(ys[2:]...)\n\tshow(ys)\n\tfill(9, 1, 2)\n", rng.Intn(9))
		fmt.Fprintf(&sb, "\th := &H{O: o}\n\tshow(h.O.MV(5, xs...), gT.MV(6, xs...))\n\tvar none []int\n\tshow(o.MV(7, none...))\n")
	}
	if rng.Chance(1, 4) {
		// package variables of function type, reassigned between two runs of the one call site that calls through them
		fmt.Fprintf(&sb, "\toa := &T{A: %d}\n\tob := &T{A: %d}\n\thookF, hookM = dbl, oa.MV\n\tf1 := fire(3)\n\thookF, hookM = neg, ob.MV\n\tf2 := fire(3)\n\thookF = dbl\n\tshow(f1, f2, fire(4))\n", rng.Intn(9), 10+rng.Intn(9))
	}
	if rng.Chance(1, 4) {
		// one []any argument for a ...any parameter is one argument; spread, it is its elements
		fmt.Fprintf(&sb, "\trow := []any{%d, \"two\", 3.5}\n\tvar norow []any\n\tshow(cnt(row), cnt(row...), cnt(row, row), cnt(norow), cnt(norow...), cnt(), cnt(%d, row))\n", rng.Intn(9), rng.Intn(9))
	}
	sb.WriteString("}\n")
	return packedCase{ID: id, Decl: sb.String(), Call: fmt.Sprintf("\thdr(%q)\n\t%sd()\n", id, id)}
}

var c09Budget = core.Budget{MaxSteps: 3_000_000, MaxDepth: 12000, MaxLen: 1 << 14, MaxOut: 1 << 20}

func c09Recursion(depth int) packedCase {
	id := fmt.Sprintf("rec%d", depth)
	decl := fmt.Sprintf("func %s() {\n\to := &T{A: 5}\n\tshow(down(%d, 0), even(%d), odd(%d), o.Rec(%d))\n}\n", id, depth, depth, depth, depth)
	return packedCase{ID: id, Decl: decl, Call: fmt.Sprintf("\thdr(%q)\n\t%s()\n", id, id)}
}

// c09Deep: recursion whose every level passes untyped constants and nil, with nLocals extra locals (the
// frame size decides where stack growth falls); each level's contribution shows whether the arguments were
// converted to the declared parameter types.
func c09Deep(nLocals, depth int) packedCase {
	id := fmt.Sprintf("deep%dx%d", nLocals, depth)
	var sb strings.Builder
	fmt.Fprintf(&sb, "func %sf(n int, x float64, s []int, b byte, u uint32) float64 {\n", id)
	var sum []string
	for i := 0; i < nLocals; i++ {
		fmt.Fprintf(&sb, "\tl%d := n + %d\n", i, i)
		sum = append(sum, fmt.Sprintf("l%d", i))
	}
	if nLocals == 0 {
		sum = []string{"n"}
	}
	fmt.Fprintf(&sb, "\tif n <= 0 {\n\t\treturn x/2 + float64(len(s)) + float64(b+250) + float64(u-2)\n\t}\n")
	fmt.Fprintf(&sb, "\tr := %sf(n-1, 1, nil, 10, 1)\n", id)
	fmt.Fprintf(&sb, "\treturn r + x/2 + float64(len(append(s, 1))) + float64(b+250) + float64((%s)%%7)\n}\n\n", strings.Join(sum, "+"))
	fmt.Fprintf(&sb, "func %s() {\n\tshow(%sf(%d, 3, []int{1, 2}, 7, 5))\n}\n", id, id, depth)
	return packedCase{ID: id, Decl: sb.String(), Call: fmt.Sprintf("\thdr(%q)\n\t%s()\n", id, id)}
}

// ill-formed calls: must be reported as errors
type c09Ill struct {
	Name  string `json:"name"`
	Setup string `json:"setup"`
	// script route
	Script string `json:"script,omitempty"`
	// host route
	Func  string `json:"func,omitempty"`
	NArgs int    `json:"nargs,omitempty"`
	XRets int    `json:"xrets,omitempty"`
}

const c09IllSetup = `func z0() { }; func r1(a int) int { return a + 1 }; func r2(a int, b int) (int, int) { return a, b }; func v1(a int, xs ...int) int { return a + len(xs) }; func v2(k string, n int, xs ...int) int { return n + len(xs) + len(k) }; func v3(a int, b int, c int, xs ...string) int { return a + b + c + len(xs) }; type T struct { A int }; func (t *T) M(a int) int { return t.A + a }; func (t *T) MV2(k string, n int, xs ...int) int { return t.A + n + len(xs) + len(k) }; t := &T{A: 1}; mv := t.M; mv2 := t.MV2; probe := 0`

var c09Ills = []c09Ill{
	{Name: "too few arguments", Script: "x := r1()"},
	{Name: "too many arguments", Script: "x := r1(1, 2)"},
	{Name: "too few arguments (2 params)", Script: "a, b := r2(1)"},
	{Name: "more results than yielded", Script: "a, b := r1(1)"},
	{Name: "result from a function without results", Script: "x := z0()"},
	{Name: "three results from two", Script: "a, b, c := r2(1, 2)"},
	{Name: "variadic without its fixed argument", Script: "x := v1()"},
	{Name: "method with too many arguments", Script: "x := t.M(1, 2)"},
	{Name: "method value with too few arguments", Script: "x := mv()"},
	{Name: "statement call with too many arguments", Script: "z0(1)"},
	{Name: "wrong arity inside a loop with live temporaries", Script: "s := 0; for i := 0; i < 3; i++ { s = s + i*r1(i, i) }"},
	{Name: "wrong arity as an argument of another call", Script: "x := r1(r1())"},
	{Name: "variadic with one of its two fixed arguments", Script: "x := v2(\"k\")"},
	{Name: "variadic with one of its two fixed arguments, live locals around", Script: "func w() int { a := 5; b := 6; c := v2(\"k\"); return a*100 + b*10 + c }; x := w()"},
	{Name: "variadic with one of its two fixed arguments, pending value below", Script: "7; y := v2(\"k\"); y"},
	{Name: "variadic with two of its three fixed arguments inside an expression", Script: "a := 3; x := a*2 + v3(1, 2) + a"},
	{Name: "variadic with too few fixed arguments in a loop", Script: "s := 0; for i := 0; i < 3; i++ { s += v2(\"k\") }"},
	{Name: "variadic method with one of its two fixed arguments", Script: "x := t.MV2(\"k\")"},
	{Name: "variadic method value with one of its two fixed arguments", Script: "func w2() int { q := 9; r := mv2(\"k\"); return q + r }; x := w2()"},
	{Name: "host: variadic with one of its two fixed arguments", Func: "main.v2", NArgs: 1, XRets: 1},
	{Name: "host: variadic with two of its three fixed arguments", Func: "main.v3", NArgs: 2, XRets: 1},
	{Name: "host: variadic method value with one of its two fixed arguments", Func: "main.mv2", NArgs: 1, XRets: 1},
	{Name: "host: too few arguments", Func: "main.r1", NArgs: 0, XRets: 1},
	{Name: "host: too many arguments", Func: "main.r1", NArgs: 3, XRets: 1},
	{Name: "host: more results than yielded", Func: "main.r1", NArgs: 1, XRets: 2},
	{Name: "host: results from a function without results", Func: "main.z0", NArgs: 0, XRets: 1},
	{Name: "host: three results from two", Func: "main.r2", NArgs: 2, XRets: 3},
	{Name: "host: variadic without its fixed argument", Func: "main.v1", NArgs: 0, XRets: 1},
	{Name: "host: method value with too many arguments", Func: "main.mv", NArgs: 2, XRets: 1},
}

func c09RunIll(r *core.Run, ill c09Ill, optimize bool) string {
	m := mon.New()
	obs := core.NewObs(core.SmallBudget, false, m)
	vm := core.NewMachine(core.VMOpts{Optimize: optimize, Obs: obs})
	if o := vm.Eval(nil, c09IllSetup); o.Failed() {
		return "set-up failed: " + o.Err + o.Panic
	}
	var o core.Outcome
	if ill.Script != "" {
		o = vm.Eval(nil, ill.Script)
	} else {
		args := make([]goatlang.Value, ill.NArgs)
		for i := range args {
			args[i] = goatlang.Int(i + 1)
		}
		o = vm.Call(ill.Func, ill.XRets, args...)
	}
	if o.Panic != "" {
		return "a Go panic escaped: " + o.Panic
	}
	if o.Err == "" {
		return fmt.Sprintf("the ill-formed call was not reported as an error (returned %v)", o.Rets)
	}
	if len(m.Findings) > 0 {
		f := m.Findings[0]
		return "the stack was misaligned before the error was raised: " + f.Rule + ": " + f.What
	}
	// the VM stays usable and aligned afterwards
	after := vm.Call("main.r2", 2, goatlang.Int(40), goatlang.Int(2))
	if after.Failed() || len(after.Rets) != 2 || after.Rets[0] != "40" || after.Rets[1] != "2" {
		return fmt.Sprintf("a well-formed call after the error misbehaves: %+v", after)
	}
	return ""
}

func runC09(r *core.Run) {
	r.SetRule("generated callee/driver pairs: 0-5 parameters over {int, byte, int8, uint32, float64, string, bool, []int, map[string]int, *T, func(int) int, any}, optional variadic tail, 0-3 results; call forms statement / value / inside an expression / multi-assign with blanks / pre-declared typed targets / return f() wrapper / function-typed variable / method / method value taken before a receiver update / function-typed field and parameter / spread / zero surplus arguments; nil and untyped constants for every parameter type; callees that write to the elements of a spread slice; recursion (direct, mutual, method) to depth 5000 with live locals; histories in which a function is defined again with another parameter list (later Eval or repeated Load) and then called from script and host; histories of host calls on one VM whose result slices are all read again after every later call; callees that are methods of *T called through a global and as method values; plus a table of ill-formed calls through script and host API under the trace monitor. non-trivial = accepted by Go and printed at least 3 lines; distinct by text")
	r.Assume("Go toolchain (GOARCH=386) is the reference for well-formed calls; for ill-formed calls (not valid Go) the property text is the oracle: an error, never a silently misaligned stack")
	n := r.N(1500, 30000)
	var cases []packedCase
	for i := 0; i < n; i++ {
		cases = append(cases, c09GenCase(r.Seed, i))
	}
	for _, d := range []int{1, 10, 100, 1000, 2500, 5000} {
		cases = append(cases, c09Recursion(d))
	}
	for nl := 0; nl <= 9; nl++ {
		for _, d := range []int{40, 300, 1200, 4000} {
			cases = append(cases, c09Deep(nl, d))
		}
	}
	res := runPacked(r, "ca", c09Prelude, cases, 200, c09Budget)
	for i, pr := range res {
		r.Eval(1)
		if !pr.GoOK {
			r.Inconclusive("no_reference_output")
			continue
		}
		what := ""
		switch {
		case pr.Goat.Panic != "":
			what = "a Go panic escaped: " + pr.Goat.Panic
		case pr.Goat.Err != "" && !pr.GoPanic:
			what = "goatlang fails where Go succeeds: " + core.ErrFirstLine(pr.Goat.Err)
		case pr.Goat.Out != pr.Go:
			what = "callee or caller printed something different from Go"
		}
		if what != "" {
			r.Violate(core.Violation{Check: "c09", Index: i, What: what, Case: cases[i], Expected: pr.Go, Observed: pr.Goat, Extra: firstDiff(pr.Go, pr.Goat.Out)})
			continue
		}
		if strings.Count(pr.Go, "\n") >= 3 {
			r.Distinct(cases[i].Decl)
		}
		if strings.HasPrefix(cases[i].ID, "rec") || strings.HasPrefix(cases[i].ID, "deep") {
			r.Count("recursion_depths_checked", 1)
		}
		if i%701 == 0 {
			r.Sample(map[string]any{"source": cases[i].Decl, "output": excerpt(pr.Go, 12)})
		}
	}
	for i := 0; i < r.N(300, 6000); i++ {
		r.Eval(1)
		if what, trace := c09Redef(r.Seed, i); what != "" {
			r.Violate(core.Violation{Check: "c09-redef", Index: i, What: what, Case: trace})
		} else {
			r.Distinct(fmt.Sprint(trace))
			r.Count("redefinition_histories", 1)
		}
	}
	for i := 0; i < r.N(60, 1200); i++ {
		r.Eval(1)
		if what, trace := c09HostHistory(r.Seed, i); what != "" {
			r.Violate(core.Violation{Check: "c09-host", Index: i, What: what, Case: trace})
		} else {
			r.Distinct(fmt.Sprint(trace))
			r.Count("host_call_histories", 1)
		}
	}
	// recorded finding K07: f(g()) with a multi-valued g forwards the first result only
	{
		m := core.NewMachine(core.VMOpts{Optimize: true, Obs: core.NewObs(core.SmallBudget, false, nil)})
		o := m.Eval(nil, "func divmod(a int, b int) (int, int) { return a / b, a % b }; func show(q int, r int) int { return q*10 + r }; println(divmod(17, 5)); x := show(divmod(17, 5)); x")
		r.Eval(1)
		if !(o.Err == "" && o.Out == "3 2\n" && len(o.Rets) == 1 && o.Rets[0] == "32") {
			if r.Findings().Open("K07") {
				r.KnownFinding("K07")
			} else {
				r.Violate(core.Violation{Check: "c09-k07", What: "f(g()) with a multi-valued g does not forward all results", Case: "println(divmod(17, 5)); show(divmod(17, 5))", Expected: "3 2 / 32", Observed: o})
			}
		}
	}
	for i, ill := range c09Ills {
		for _, opt := range []bool{true, false} {
			r.Eval(1)
			if what := c09RunIll(r, ill, opt); what != "" {
				r.Violate(core.Violation{Check: "c09-ill", Index: i, What: ill.Name + ": " + what, Case: ill})
			} else {
				r.Distinct(fmt.Sprint(ill, opt))
				r.Count("ill_formed_calls_reported_as_errors", 1)
			}
		}
	}
}

// c09HostHistory: several host calls on one VM. The results a call returned are the host's: later calls
// (direct, through Func, nested through a native) do not change them.
func c09HostHistory(seed int64, idx int) (what string, trace []string) {
	rng := core.Derive(seed, "c09-host", idx)
	m := core.NewMachine(core.VMOpts{Optimize: rng.Bool(), Obs: core.NewObs(core.SmallBudget, false, nil)})
	src := "func pair(a int, b int) (int, int) { return a + 1, b + 2 }\nfunc triple(a int) (int, string, int) { return a * 2, \"s\", a * 3 }\nfunc one(a int) int { return a - 1 }\nfunc none(a int) { }\nfunc deep(n int) (int, int) { if n == 0 { return 7, 8 }; x, y := deep(n - 1); return x + 1, y + 1 }\nfunc vs(xs ...int) (int, int) { t := 0; for _, x := range xs { t += x }; return len(xs), t }\n"
	if o := m.Eval(nil, src); o.Failed() {
		return "setup failed: " + o.Err + o.Panic, nil
	}
	type kept struct {
		call string
		rets []goatlang.Value
		want []string
	}
	var all []kept
	verify := func(when string) string {
		for _, k := range all {
			var got []string
			for _, v := range k.rets {
				got = append(got, v.String())
			}
			if strings.Join(got, ",") != strings.Join(k.want, ",") {
				return fmt.Sprintf("%s: the results of the earlier %s read %v, they were %v", when, k.call, got, k.want)
			}
		}
		return ""
	}
	for step := rng.Range(2, 7); step > 0; step-- {
		a, b := rng.Intn(1000), rng.Intn(1000)
		var name string
		var args []goatlang.Value
		var want []string
		switch rng.Intn(6) {
		case 0:
			name, args, want = "pair", []goatlang.Value{goatlang.Int(a), goatlang.Int(b)}, []string{fmt.Sprint(a + 1), fmt.Sprint(b + 2)}
		case 1:
			name, args, want = "triple", []goatlang.Value{goatlang.Int(a)}, []string{fmt.Sprint(a * 2), "s", fmt.Sprint(a * 3)}
		case 2:
			name, args, want = "one", []goatlang.Value{goatlang.Int(a)}, []string{fmt.Sprint(a - 1)}
		case 3:
			name, args, want = "none", []goatlang.Value{goatlang.Int(a)}, nil
		case 4:
			d := rng.Intn(30)
			name, args, want = "deep", []goatlang.Value{goatlang.Int(d)}, []string{fmt.Sprint(7 + d), fmt.Sprint(8 + d)}
		default:
			name, args, want = "vs", []goatlang.Value{goatlang.Int(a), goatlang.Int(b), goatlang.Int(3)}, []string{"3", fmt.Sprint(a + b + 3)}
		}
		var rets []goatlang.Value
		var err error
		via := "Call"
		p := core.Guard(func() {
			if rng.Bool() {
				rets, err = m.VM.Call("main."+name, len(want), args...)
			} else {
				via = "Func"
				rets, err = m.VM.Func(m.VM.Get("main."+name), len(want), args...)
			}
		})
		call := fmt.Sprintf("%s(main.%s, %d results, %v)", via, name, len(want), args)
		trace = append(trace, call)
		if p != "" || err != nil {
			return fmt.Sprintf("%s fails: %v %s", call, err, p), trace
		}
		if len(rets) != len(want) {
			return fmt.Sprintf("%s returns %d values, %d were requested", call, len(rets), len(want)), trace
		}
		all = append(all, kept{call, rets, want})
		if what := verify("after " + call); what != "" {
			return what, trace
		}
	}
	return "", trace
}

// c09Redef: a function is defined again with another parameter list (a later Eval, or the package loaded
// again): calls made afterwards, from scripts and from the host, follow the new signature.
func c09Redef(seed int64, idx int) (what string, trace []string) {
	rng := core.Derive(seed, "c09-redef", idx)
	type form struct {
		src  string
		args [][]int
		f    func(a []int) int
	}
	sum := func(a []int) int {
		t := 0
		for _, x := range a {
			t += x
		}
		return t
	}
	forms := []form{
		{"func f(a int) int { return a + 1 }", [][]int{{5}, {42}}, func(a []int) int { return a[0] + 1 }},
		{"func f(a int, b int) int { return a*10 + b }", [][]int{{5, 6}, {1, 2}}, func(a []int) int { return a[0]*10 + a[1] }},
		{"func f(a int, xs ...int) int { t := a * 100; for _, x := range xs { t += x }; return t + len(xs) }", [][]int{{5}, {5, 1, 2}, {7, 9}}, func(a []int) int { return a[0]*100 + sum(a[1:]) + len(a) - 1 }},
		{"func f(xs ...int) int { t := len(xs) * 1000; for _, x := range xs { t += x }; return t }", [][]int{{}, {4}, {1, 2, 3}}, func(a []int) int { return len(a)*1000 + sum(a) }},
		{"func f() int { return 77 }", [][]int{{}}, func(a []int) int { return 77 }},
	}
	m := core.NewMachine(core.VMOpts{Optimize: rng.Bool(), Obs: core.NewObs(core.SmallBudget, false, nil)})
	viaLoad := rng.Chance(1, 3)
	for step, n := 0, rng.Range(2, 6); step < n; step++ {
		f := core.Pick(rng, forms)
		trace = append(trace, f.src)
		var o core.Outcome
		if viaLoad {
			var err error
			if p := core.Guard(func() {
				err = m.VM.Load(core.MapFS(map[string]string{"app/main.go": "package main\n\n" + f.src + "\n"}), "app")
			}); p != "" {
				return "a Go panic escaped Load: " + p, trace
			}
			if err != nil {
				o.Err = err.Error()
			}
		} else {
			o = m.Eval(nil, f.src)
		}
		if o.Failed() {
			return fmt.Sprintf("step %d: defining %q fails: %s%s", step, f.src, core.ErrFirstLine(o.Err), o.Panic), trace
		}
		for _, args := range f.args {
			want := fmt.Sprint(f.f(args))
			var lits []string
			var vals []goatlang.Value
			for _, a := range args {
				lits = append(lits, fmt.Sprint(a))
				vals = append(vals, goatlang.Int(a))
			}
			call := "f(" + strings.Join(lits, ", ") + ")"
			so := m.Eval(nil, "r := "+call+"; r")
			if so.Failed() || len(so.Rets) != 1 || so.Rets[0] != want {
				return fmt.Sprintf("step %d: after %v the script call %s gives %v %s, the current definition gives %s", step, trace, call, so.Rets, core.ErrFirstLine(so.Err), want), trace
			}
			ho := m.Call("main.f", 1, vals...)
			if ho.Failed() || len(ho.Rets) != 1 || ho.Rets[0] != want {
				return fmt.Sprintf("step %d: after %v the host call %s gives %v %s, the current definition gives %s", step, trace, call, ho.Rets, core.ErrFirstLine(ho.Err), want), trace
			}
			if strings.Contains(f.src, "...") {
				nFixed := strings.Count(f.src[:strings.Index(f.src, "...")], " int,") // parameters before the variadic one
				if len(args) < nFixed {
					continue
				}
				sp := m.Eval(nil, "sp := []int{"+strings.Join(lits[nFixed:], ", ")+"}; r2 := f("+strings.Join(append(append([]string{}, lits[:nFixed]...), "sp..."), ", ")+"); r2")
				if sp.Failed() || len(sp.Rets) != 1 || sp.Rets[0] != want {
					return fmt.Sprintf("step %d: after %v the spread call gives %v %s, the current definition gives %s", step, trace, sp.Rets, core.ErrFirstLine(sp.Err), want), trace
				}
			}
		}
	}
	return "", trace
}

func replayC09(r *core.Run, v *core.Violation) {
	if v.Check == "c09-ill" {
		var ill c09Ill
		if err := remarshal(v.Case, &ill); err == nil {
			for _, opt := range []bool{true, false} {
				if what := c09RunIll(r, ill, opt); what != "" {
					r.Violate(core.Violation{Check: "c09-ill", What: what, Case: ill})
				}
			}
		}
		return
	}
	var c packedCase
	if err := remarshal(v.Case, &c); err != nil {
		return
	}
	res := runPacked(r, "car", c09Prelude, []packedCase{c}, 1, c09Budget)
	fmt.Printf("--- go ---\n%s--- goatlang ---\n%s err=%s\n", res[0].Go, res[0].Goat.Out, res[0].Goat.Err)
	if res[0].GoOK && (res[0].Goat.Out != res[0].Go || res[0].Goat.Err != "") {
		r.Violate(core.Violation{Check: "c09", What: "output differs from Go's", Case: c, Extra: firstDiff(res[0].Go, res[0].Goat.Out)})
	}
}
