package checks

import (
	"bytes"
	"encoding/json"
	"fmt"
	"math"
	"os"
	"os/exec"
	"strconv"
	"strings"
	"time"

	"github.com/philhassey/goatlang"

	"verif/internal/core"
)

// C14 — printed values look as Go prints them, and printing terminates.
//
// Oracle: fmt.Sprint / Sprintln on a mirrored native value; for struct
// references the text &{F1:v1 F2:v2} assembled from the declaration order and
// the native rendering of each field. Cyclic object graphs are rendered in a
// child process: the result must arrive and be of bounded size.

func init() { register("C14", &Check{Run: runC14, Replay: replayC14}) }

// a value tree with both renderings
type pv struct {
	val    goatlang.Value
	native any
	desc   string
}

func c14Scalar(rng *core.Rng) pv {
	switch rng.Intn(9) {
	case 0:
		b := rng.Bool()
		return pv{goatlang.Bool(b), b, fmt.Sprint(b)}
	case 1:
		v := core.Pick(rng, []int32{0, 1, -1, math.MaxInt32, math.MinInt32, 42, -100000, int32(rng.Uint64())})
		return pv{goatlang.Int32(v), v, fmt.Sprintf("int32(%d)", v)}
	case 2:
		v := core.Pick(rng, []int8{0, 1, -1, 127, -128, int8(rng.Uint64())})
		return pv{goatlang.Int8(v), v, fmt.Sprintf("int8(%d)", v)}
	case 3:
		v := core.Pick(rng, []uint8{0, 1, 255, 128, uint8(rng.Uint64())})
		return pv{goatlang.Uint8(v), v, fmt.Sprintf("uint8(%d)", v)}
	case 4:
		v := core.Pick(rng, []uint32{0, 1, math.MaxUint32, 1 << 31, 3000000000, uint32(rng.Uint64())})
		return pv{goatlang.Uint32(v), v, fmt.Sprintf("uint32(%d)", v)}
	case 5, 6:
		f := c14Float(rng)
		return pv{goatlang.Float64(f), f, "float64 bits " + strconv.FormatUint(math.Float64bits(f), 16)}
	default:
		s := c13RandString(rng)
		if rng.Chance(1, 4) {
			s = core.Pick(rng, []string{"", " ", "a b", "line\nbreak", "\"quoted\"", "[x]", "map[a:b]", "&{}", "nil", "\x00"})
		}
		return pv{goatlang.String(s), s, strconv.Quote(s)}
	}
}

func c14Float(rng *core.Rng) float64 {
	switch rng.Intn(8) {
	case 0:
		return core.Pick(rng, []float64{0, math.Copysign(0, -1), math.Inf(1), math.Inf(-1), math.NaN(), 1, -1, 0.5})
	case 1:
		return core.Pick(rng, []float64{1e20, 1e21, 1e-4, 1e-5, 123456789.0, 9007199254740992, 9007199254740993, 1e6, 1e7, 12345678.9, 0.000001, 100, 1e100, 5e-324, math.MaxFloat64, 0.1, 0.2, 0.30000000000000004, 1.0 / 3})
	case 2:
		return math.Float64frombits(rng.Uint64())
	case 3:
		return float64(int32(rng.Uint64()))
	case 4:
		return float64(rng.Intn(100000)) / 100
	case 5:
		return math.Pow(10, float64(rng.Range(-25, 25))) * float64(rng.Range(1, 9))
	default:
		return float64(int64(rng.Uint64())>>rng.Intn(40)) / float64(int64(1)<<rng.Intn(30))
	}
}

var c14Tags = map[string]goatlang.Type{"bool": goatlang.TypeBool, "int32": goatlang.TypeInt32, "int8": goatlang.TypeInt8, "uint8": goatlang.TypeUint8, "uint32": goatlang.TypeUint32, "float64": goatlang.TypeFloat64, "string": goatlang.TypeString}

// c14TypedShape builds a statically typed container of the given depth over
// one scalar kind ([]T, [][]T, map[K][]T ...; depth 0 = a scalar). The
// container-kind decisions are drawn from shape, so that siblings get the
// same static type, and the leaves from rng.
func c14TypedShape(shape, rng *core.Rng, depth int, leaf goatlang.Type, mk func() pv) (pv, goatlang.Type) {
	if depth == 0 {
		return mk(), leaf
	}
	if shape.Chance(1, 4) {
		kk := shape.Intn(3)
		var k pv
		for {
			k = c14Scalar(rng)
			want := []goatlang.Type{goatlang.TypeString, goatlang.TypeInt32, goatlang.TypeBool}[kk]
			if k.val.Type() == want {
				break
			}
		}
		v, vt := c14TypedShape(shape, rng, depth-1, leaf, mk)
		m := goatlang.NewMap(k.val.Type(), vt, []goatlang.Value{k.val, v.val})
		return pv{m, map[any]any{k.native: v.native}, "map[" + k.desc + ":" + v.desc + "]"}, vt<<16 | k.val.Type()<<8 | goatlang.TypeMap
	}
	n := rng.Intn(4)
	vals := make([]goatlang.Value, n)
	nat := make([]any, n)
	var ds []string
	var et goatlang.Type
	base := *shape
	for i := 0; i < n; i++ {
		sr := base
		e, t := c14TypedShape(&sr, rng, depth-1, leaf, mk)
		vals[i], nat[i], et = e.val, e.native, t
		ds = append(ds, e.desc)
		*shape = sr
	}
	if n == 0 {
		sr := base
		_, et = c14TypedShape(&sr, rng, depth-1, leaf, mk)
		*shape = sr
	}
	return pv{goatlang.NewSlice(et, vals), nat, "[" + strings.Join(ds, ", ") + "]"}, et<<8 | goatlang.TypeSlice
}

// c14Nested builds a value nested to the given depth: statically typed
// containers of one scalar kind (any depth), optionally wrapped in one []any
// of mixed elements (the outermost level only: containers reached through an
// any-typed element at depth >= 2 are a recorded finding, see K01).
func c14Nested(rng *core.Rng, depth int) pv {
	if depth == 0 {
		return c14Scalar(rng)
	}
	if rng.Chance(1, 4) {
		// mixed []any of scalars and typed containers
		n := rng.Intn(4)
		vals := make([]goatlang.Value, n)
		nat := make([]any, n)
		var ds []string
		for i := 0; i < n; i++ {
			var e pv
			if rng.Bool() {
				e = c14Scalar(rng)
			} else {
				e = c14TypedValue(rng, depth-1)
			}
			vals[i], nat[i] = e.val, e.native
			ds = append(ds, e.desc)
		}
		return pv{goatlang.NewSlice(goatlang.TypeNil, vals), nat, "[]any{" + strings.Join(ds, ", ") + "}"}
	}
	return c14TypedValue(rng, depth)
}

func c14TypedValue(rng *core.Rng, depth int) pv {
	proto := c14Scalar(rng)
	leaf := proto.val.Type()
	mk := func() pv {
		for {
			e := c14Scalar(rng)
			if e.val.Type() == leaf {
				return e
			}
		}
	}
	shape := core.NewRng(rng.Uint64())
	v, _ := c14TypedShape(shape, rng, depth, leaf, mk)
	return v
}

const c14Src = `import "fmt"
import "golang.org/x/exp/maps"
import "golang.org/x/exp/slices"
type P struct { X int; Name string; F float64; B byte; Ok bool; U uint32 }
type Q struct { A int8; S string }
func p1(a any) { println(a) }
func f1(a any) { fmt.Println(a) }
func f2(a any, b any) { fmt.Println(a, b) }
func f3(a any, b any, c any) { fmt.Println(a, b, c) }
func f4(a any, b any, c any, d any) { fmt.Println(a, b, c, d) }
func pr(a any) { fmt.Print(a) }
func sp(a any) string { return fmt.Sprint(a) }
func mkP(x int, n string, f float64, b byte, ok bool, u uint32) *P { return &P{X: x, Name: n, F: f, B: b, Ok: ok, U: u} }
func mkQ(a int8, s string) *Q { return &Q{A: a, S: s} }
func nilSlice() []int { var s []int; return s }
func nilMap() map[string]int { var m map[string]int; return m }
func zeroP() *P { return &P{} }
type AB struct { A int; B int; Zed string }
type BA struct { Zed string; B int; A int }
func mkAB(a int, b int) *AB { return &AB{A: a, B: b, Zed: "z"} }
func mkBA(a int, b int) *BA { return &BA{A: a, B: b, Zed: "z"} }
func mkBoth(a int) []any { return []any{&BA{A: a}, &AB{B: a}} }
func mapdel(m map[string]int, k1 string, k2 string) map[string]int { delete(m, k1); delete(m, k2); return m }
func mapdelf(m map[float64]string, k1 float64, k2 float64) map[float64]string { delete(m, k1); delete(m, k2); return m }
func wrapm(m map[string]int) []map[string]int { return []map[string]int{m} }
func nestI(s []int) any { return map[string][][]int{"k": {s[:]}} }
func nestI2(s []int) any { return [][][]int{{s[0:len(s)]}, {s[1:]}} }
func nestI3(s []int) any { t := append(s[:0], s...); return []any{s[:], [][]int{t[:len(t)]}} }
func nestF(s []float64) any { return []map[int][]float64{{7: s[:]}} }
func nestS(s []string) any { return [][][]string{{s[:], s[:1]}} }
func cloneI(m map[int]string) any { return maps.Clone(m) }
func cloneF(m map[float64]string) any { c := maps.Clone(m); return []any{c, len(c)} }
func cloneB(m map[bool]int) any { return maps.Clone(m) }
func cloneU(m map[uint8]string) any { return map[string]map[uint8]string{"c": maps.Clone(m)} }
func keysI(m map[int]string) any { k := maps.Keys(m); return [][]int{k} }
func keysU(m map[uint8]string) any { return maps.Keys(m) }
func delI(s []int) any { return [][]int{slices.Delete(append([]int{9}, s...), 0, 1)} }
`

type c14Case struct {
	Kind string   `json:"kind"`
	Desc []string `json:"values"`
	Seed int64    `json:"seed"`
	Idx  int      `json:"index"`
}

type c14Worker struct {
	m *core.Machine
}

func newC14Worker(r *core.Run) *c14Worker {
	w := &c14Worker{m: core.NewMachine(core.VMOpts{Optimize: true, Obs: core.NewObs(core.SmallBudget, false, nil)})}
	if o := w.m.Eval(nil, c14Src); o.Failed() {
		r.Violate(core.Violation{Check: "c14-setup", What: "the print helpers do not compile", Observed: o})
		return nil
	}
	return w
}

func (w *c14Worker) out(fn string, nret int, args ...goatlang.Value) (string, []goatlang.Value, string) {
	w.m.Out.Reset()
	w.m.Obs.Reset()
	var rets []goatlang.Value
	var err error
	if p := core.Guard(func() { rets, err = w.m.VM.Call("main."+fn, nret, args...) }); p != "" {
		return "", nil, "a Go panic escaped: " + p
	}
	if err != nil {
		return "", nil, "error: " + core.ErrFirstLine(err.Error())
	}
	return w.m.Out.String(), rets, ""
}

func c14One(w *c14Worker, seed int64, idx int) (string, c14Case, bool) {
	rng := core.Derive(seed, "c14", idx)
	cs := c14Case{Seed: seed, Idx: idx}
	mismatch := func(what, want, got string) string {
		return fmt.Sprintf("%s: Go prints %q, goatlang %q", what, want, got)
	}
	if rng.Chance(1, 12) {
		// values that script operations derived from host-supplied ones (whole-range slice expressions, clones, key
		// lists, deletions), nested two and three containers deep
		cs.Kind = "derived"
		n := rng.Range(1, 4)
		ints := make([]int32, n)
		var iv []goatlang.Value
		for i := range ints {
			ints[i] = int32(rng.Intn(200) - 100)
			iv = append(iv, goatlang.Int32(ints[i]))
		}
		fl := []float64{c14Float(rng), 0.5}
		strs := []string{core.Pick(rng, []string{"a", "x y", "", "é"}), "b"}
		ki, kf, ku, kb := int32(rng.Intn(99)-50), c14Float(rng), uint8(rng.Intn(256)), rng.Bool()
		if kf != kf {
			kf = 1.5 // (NaN keys are outside the map property)
		}
		type dc struct {
			fn   string
			arg  goatlang.Value
			want any
		}
		isl := goatlang.NewSlice(goatlang.TypeInt32, iv)
		all := []dc{
			{"nestI", isl, map[string][][]int32{"k": {ints}}},
			{"nestI2", isl, [][][]int32{{ints}, {ints[1:]}}},
			{"nestI3", isl, []any{ints, [][]int32{ints}}},
			{"nestF", goatlang.NewSlice(goatlang.TypeFloat64, []goatlang.Value{goatlang.Float64(fl[0]), goatlang.Float64(fl[1])}), []map[int][]float64{{7: fl}}},
			{"nestS", goatlang.NewSlice(goatlang.TypeString, []goatlang.Value{goatlang.String(strs[0]), goatlang.String(strs[1])}), [][][]string{{strs, strs[:1]}}},
			{"cloneI", goatlang.NewMap(goatlang.TypeInt32, goatlang.TypeString, []goatlang.Value{goatlang.Int32(ki), goatlang.String("seven")}), map[int32]string{ki: "seven"}},
			{"cloneF", goatlang.NewMap(goatlang.TypeFloat64, goatlang.TypeString, []goatlang.Value{goatlang.Float64(kf), goatlang.String("f")}), []any{map[float64]string{kf: "f"}, 1}},
			{"cloneB", goatlang.NewMap(goatlang.TypeBool, goatlang.TypeInt32, []goatlang.Value{goatlang.Bool(kb), goatlang.Int32(3)}), map[bool]int32{kb: 3}},
			{"cloneU", goatlang.NewMap(goatlang.TypeUint8, goatlang.TypeString, []goatlang.Value{goatlang.Uint8(ku), goatlang.String("u")}), map[string]map[uint8]string{"c": {ku: "u"}}},
			{"keysI", goatlang.NewMap(goatlang.TypeInt32, goatlang.TypeString, []goatlang.Value{goatlang.Int32(ki), goatlang.String("s")}), [][]int32{{ki}}},
			{"keysU", goatlang.NewMap(goatlang.TypeUint8, goatlang.TypeString, []goatlang.Value{goatlang.Uint8(ku), goatlang.String("s")}), []uint8{ku}},
			{"delI", isl, [][]int32{ints}},
		}
		d := all[rng.Intn(len(all))]
		cs.Desc = []string{d.fn, fmt.Sprint(d.want)}
		_, rets, e := w.out(d.fn, 1, d.arg)
		if e != "" || len(rets) != 1 {
			return "derived value " + d.fn + ": " + e, cs, true
		}
		got, _, e := w.out("f1", 0, rets[0])
		if want := fmt.Sprintln(d.want); e != "" || got != want {
			return mismatch("fmt.Println of the value "+d.fn+" built", want, got+e), cs, true
		}
		if got, _, e := w.out("sp", 1, rets[0]); e != "" {
			return "fmt.Sprint of the value " + d.fn + " built: " + e, cs, true
		} else {
			_ = got
		}
		return "", cs, false
	}
	switch k := rng.Intn(10); {
	case k < 3: // Value.String of host-built values
		v := c14Nested(rng, rng.Intn(6))
		cs.Kind, cs.Desc = "Value.String", []string{v.desc}
		var got string
		if p := core.Guard(func() { got = v.val.String() }); p != "" {
			return "Value.String panicked: " + p, cs, true
		}
		if want := fmt.Sprint(v.native); got != want {
			return mismatch("Value.String", want, got), cs, true
		}
	case k < 7: // script printing of host-supplied values
		n := rng.Range(1, 4)
		vals := make([]pv, n)
		args := make([]goatlang.Value, n)
		nat := make([]any, n)
		for i := range vals {
			vals[i] = c14Nested(rng, rng.Intn(4))
			args[i], nat[i] = vals[i].val, vals[i].native
			cs.Desc = append(cs.Desc, vals[i].desc)
		}
		fn := fmt.Sprintf("f%d", n)
		cs.Kind = "fmt.Println/" + fmt.Sprint(n)
		got, _, e := w.out(fn, 0, args...)
		if e != "" {
			return e, cs, true
		}
		if want := fmt.Sprintln(nat...); got != want {
			return mismatch("fmt.Println with "+fmt.Sprint(n)+" operand(s)", want, got), cs, true
		}
		if n == 1 {
			for _, f := range []string{"p1", "pr"} {
				got, _, e := w.out(f, 0, args[0])
				if e != "" {
					return e, cs, true
				}
				want := fmt.Sprint(nat[0])
				if f == "p1" {
					want += "\n"
				}
				if got != want {
					return mismatch(map[string]string{"p1": "println", "pr": "fmt.Print"}[f], want, got), cs, true
				}
			}
			_, rets, e := w.out("sp", 1, args[0])
			if e != "" {
				return e, cs, true
			}
			if want := fmt.Sprint(nat[0]); rets[0].String() != want {
				return mismatch("fmt.Sprint", want, rets[0].String()), cs, true
			}
		}
	case k < 9: // struct references: &{Field:value ...} in declaration order
		x, name, f, b, ok, u := int32(rng.Uint64()), c13RandString(rng), c14Float(rng), uint8(rng.Uint64()), rng.Bool(), uint32(rng.Uint64())
		cs.Kind, cs.Desc = "struct reference", []string{fmt.Sprint(x, strconv.Quote(name), f, b, ok, u)}
		_, rets, e := w.out("mkP", 1, goatlang.Int32(x), goatlang.String(name), goatlang.Float64(f), goatlang.Uint8(b), goatlang.Bool(ok), goatlang.Uint32(u))
		if e != "" {
			return e, cs, true
		}
		want := fmt.Sprintf("&{X:%v Name:%v F:%v B:%v Ok:%v U:%v}", x, name, f, b, ok, u)
		if got := rets[0].String(); got != want {
			return mismatch("Value.String of a struct reference", want, got), cs, true
		}
		got, _, e := w.out("f2", 0, rets[0], goatlang.Int(7))
		if e != "" {
			return e, cs, true
		}
		if got != want+" 7\n" {
			return mismatch("fmt.Println(structRef, 7)", want+" 7\n", got), cs, true
		}
		// two types that use the same field names in opposite orders: each prints in the order of its own declaration
		for fn, wantO := range map[string]string{"mkAB": fmt.Sprintf("&{A:%d B:7 Zed:z}", x), "mkBA": fmt.Sprintf("&{Zed:z B:7 A:%d}", x)} {
			_, or, e := w.out(fn, 1, goatlang.Int32(x), goatlang.Int(7))
			if e != "" {
				return e, cs, true
			}
			if got := or[0].String(); got != wantO {
				return mismatch("struct reference of a type sharing its field names with another type ("+fn+")", wantO, got), cs, true
			}
		}
		_, zr, e := w.out("zeroP", 1)
		if e != "" {
			return e, cs, true
		}
		if got := zr[0].String(); got != "&{X:0 Name: F:0 B:0 Ok:false U:0}" {
			return mismatch("zero-valued struct reference", "&{X:0 Name: F:0 B:0 Ok:false U:0}", got), cs, true
		}
		if rng.Chance(1, 4) {
			// a struct reference built by the host from the type's prototype prints like one built by a script
			cs.Kind = "struct reference built with NewStruct"
			base := w.m.VM.Get("main.P")
			var hv goatlang.Value
			if p := core.Guard(func() {
				hv = goatlang.NewStruct(base, []goatlang.Value{goatlang.String("X"), goatlang.Int32(x), goatlang.String("Name"), goatlang.String(name), goatlang.String("Ok"), goatlang.Bool(ok)})
			}); p != "" {
				return "NewStruct panicked: " + p, cs, true
			}
			wantH := fmt.Sprintf("&{X:%v Name:%v F:0 B:0 Ok:%v U:0}", x, name, ok)
			if got := hv.String(); got != wantH {
				return mismatch("Value.String of a struct reference built with NewStruct", wantH, got), cs, true
			}
			got, _, e := w.out("f2", 0, hv, goatlang.Int(7))
			if e != "" {
				return e, cs, true
			}
			if got != wantH+" 7\n" {
				return mismatch("fmt.Println(structRef built with NewStruct, 7)", wantH+" 7\n", got), cs, true
			}
		}
		if rng.Chance(1, 4) {
			// the declaration of a struct type may run more than once in one VM (a type declared in a function
			// that is called repeatedly, the same source evaluated or loaded again): instances still print
			// every field once, in declaration order
			cs.Kind = "struct reference after the type declaration ran again"
			m := core.NewMachine(core.VMOpts{Optimize: rng.Bool(), Obs: core.NewObs(core.SmallBudget, false, nil)})
			a, bq, c := rng.Intn(100), rng.Intn(100), rng.Intn(9)
			want := fmt.Sprintf("&{A:%d B:%d Name:n C:%d.5}", a, bq, c)
			var src string
			runs := rng.Range(2, 4)
			switch rng.Intn(3) {
			case 0: // the same declarations evaluated several times
				src = fmt.Sprintf("type R struct { A int; B int; Name string; C float64 }\nfunc mkR() *R { return &R{A: %d, B: %d, Name: \"n\", C: %d.5} }", a, bq, c)
				for i := 0; i < runs; i++ {
					if o := m.Eval(nil, src); o.Failed() {
						return "evaluating a type declaration again fails: " + core.ErrFirstLine(o.Err) + o.Panic, cs, true
					}
				}
			case 1: // a type declared inside a function that is called several times
				src = fmt.Sprintf("func mkR() any { type R struct { A int; B int; Name string; C float64 }; return &R{A: %d, B: %d, Name: \"n\", C: %d.5} }", a, bq, c)
				if o := m.Eval(nil, src); o.Failed() {
					return "a function-local struct type fails to compile: " + core.ErrFirstLine(o.Err) + o.Panic, cs, true
				}
				for i := 1; i < runs; i++ {
					m.Call("main.mkR", 1)
				}
			default: // the same package loaded several times
				src = fmt.Sprintf("package main\n\ntype R struct {\n\tA int\n\tB int\n\tName string\n\tC float64\n}\n\nfunc mkR() *R {\n\treturn &R{A: %d, B: %d, Name: \"n\", C: %d.5}\n}\n", a, bq, c)
				for i := 0; i < runs; i++ {
					var err error
					if p := core.Guard(func() { err = m.VM.Load(core.MapFS(map[string]string{"app/main.go": src}), "app") }); p != "" || err != nil {
						return fmt.Sprintf("loading the package again fails: %v %s", err, p), cs, true
					}
				}
			}
			cs.Desc = []string{src, fmt.Sprint(runs)}
			o := m.Call("main.mkR", 1)
			if o.Failed() || len(o.Rets) != 1 {
				return "constructing an instance after the redeclaration fails: " + core.ErrFirstLine(o.Err) + o.Panic, cs, true
			}
			if o.Rets[0] != want {
				return mismatch(fmt.Sprintf("struct reference after its type declaration ran %d times", runs), want, o.Rets[0]), cs, true
			}
		}
		if rng.Chance(1, 3) {
			// a map that had entries deleted renders its live entries only (top level, nested, host-side)
			cs.Kind = "map after deletes"
			keys := []string{"a", "b", "c", "d"}[:rng.Range(3, 4)]
			keep := rng.Intn(len(keys))
			var in []goatlang.Value
			var del []goatlang.Value
			for i, k := range keys {
				in = append(in, goatlang.String(k), goatlang.Int(i+1))
				if i != keep && len(del) < 2 {
					del = append(del, goatlang.String(k))
				}
			}
			for len(del) < 2 {
				del = append(del, goatlang.String("zz"))
			}
			if len(keys) == 4 {
				// a third key goes through the host API
				for i, k := range keys {
					if i != keep && k != del[0].String() && k != del[1].String() {
						hm := goatlang.NewMap(goatlang.TypeString, goatlang.TypeInt32, in)
						hm.Delete(goatlang.String(k))
						in = nil
						next := hm.Range()
						for {
							kk, vv, ok := next()
							if !ok {
								break
							}
							in = append(in, kk, vv)
						}
					}
				}
			}
			mv := goatlang.NewMap(goatlang.TypeString, goatlang.TypeInt32, in)
			wantM := fmt.Sprintf("map[%s:%d]", keys[keep], keep+1)
			_, rets, e := w.out("mapdel", 1, mv, del[0], del[1])
			if e != "" {
				return e, cs, true
			}
			if got := rets[0].String(); got != wantM {
				return mismatch("Value.String of a map after deletes", wantM, got), cs, true
			}
			got, _, e := w.out("f1", 0, rets[0])
			if e != "" {
				return e, cs, true
			}
			if got != wantM+"\n" {
				return mismatch("fmt.Println of a map after deletes", wantM+"\n", got), cs, true
			}
			_, wr, e := w.out("wrapm", 1, rets[0])
			if e != "" {
				return e, cs, true
			}
			if got := wr[0].String(); got != "["+wantM+"]" {
				return mismatch("a map after deletes nested in a slice", "["+wantM+"]", got), cs, true
			}
			fm := goatlang.NewMap(goatlang.TypeFloat64, goatlang.TypeString, []goatlang.Value{goatlang.Float64(0.5), goatlang.String("h"), goatlang.Float64(2), goatlang.String("t"), goatlang.Float64(-1), goatlang.String("m")})
			_, fr, e := w.out("mapdelf", 1, fm, goatlang.Float64(0.5), goatlang.Float64(-1))
			if e != "" {
				return e, cs, true
			}
			if got := fr[0].String(); got != "map[2:t]" {
				return mismatch("a float-keyed map after deletes", "map[2:t]", got), cs, true
			}
		}
	default: // typed nil containers
		cs.Kind = "nil containers"
		for fn, want := range map[string]string{"nilSlice": "[]", "nilMap": "map[]"} {
			_, rets, e := w.out(fn, 1)
			if e != "" {
				return e, cs, true
			}
			if got := rets[0].String(); got != want {
				return mismatch("Value.String of a "+fn, want, got), cs, true
			}
			got, _, e := w.out("f1", 0, rets[0])
			if e != "" {
				return e, cs, true
			}
			if got != want+"\n" {
				return mismatch("fmt.Println of a "+fn, want+"\n", got), cs, true
			}
		}
	}
	return "", cs, false
}

// ---------------------------------------------------------------------------
// cyclic graphs, rendered in a child process

var c14Cycles = []string{
	`type N struct { V int; Next *N }; n := &N{V: 1}; n.Next = n; println(n)`,
	`type N struct { V int; Next *N }; a := &N{V: 1}; b := &N{V: 2, Next: a}; a.Next = b; println(a, b)`,
	`type N struct { V int; Next *N }; a := &N{V: 1}; b := &N{V: 2}; c := &N{V: 3}; d := &N{V: 4}; a.Next = b; b.Next = c; c.Next = d; d.Next = a; println(a)`,
	`a := []any{1, 2}; a[0] = a; println(a)`,
	`a := []any{1}; b := []any{a}; a[0] = b; println(a, b)`,
	`m := map[string]any{}; m["self"] = m; println(m)`,
	`m := map[int]any{}; s := []any{m}; m[1] = s; println(m)`,
	`type N struct { Kids []*N; M map[string]*N; A []any }; n := &N{}; n.Kids = append(n.Kids, n); n.M = map[string]*N{"me": n}; n.A = []any{n, n.Kids, n.M}; println(n)`,
	`type N struct { A []any }; n := &N{}; s := []any{n}; m := map[string]any{"s": s}; n.A = []any{m}; println(n, s, m)`,
	`import "fmt"; type N struct { Next *N }; n := &N{}; n.Next = n; x := fmt.Sprint(n); y := fmt.Sprintf("%v|%s", n, n); fmt.Println(len(x) > 0, len(y) > 0); fmt.Print(n)`,
	`type A struct { B *B }; type B struct { C *C }; type C struct { A *A; S []*A }; a := &A{}; b := &B{}; c := &C{}; a.B = b; b.C = c; c.A = a; c.S = []*A{a, a}; println(a, b, c)`,
	`a := [][]any{{1}}; a[0][0] = a; println(a)`,
}

type c14CycleOut struct {
	Results []struct {
		Src   string `json:"src"`
		Out   string `json:"out"`
		Err   string `json:"err"`
		Panic string `json:"panic"`
		Len   int    `json:"len"`
	} `json:"results"`
}

// C14Worker is the child-process entry for the cyclic cases: vcheck C14 worker <seed> <n>
func C14Worker(args []string) int {
	seed, _ := strconv.ParseInt(args[0], 10, 64)
	n, _ := strconv.Atoi(args[1])
	var out c14CycleOut
	srcs := append([]string{}, c14Cycles...)
	for i := 0; i < n; i++ {
		srcs = append(srcs, c14RandCycle(core.Derive(seed, "c14-cycle", i)))
	}
	for _, src := range srcs {
		fmt.Fprintf(os.Stderr, "rendering: %s\n", src) // names the culprit if the process dies
		m := core.NewMachine(core.VMOpts{Optimize: true, Obs: core.NewObs(core.SmallBudget, false, nil)})
		o := m.Eval(nil, src)
		res := struct {
			Src   string `json:"src"`
			Out   string `json:"out"`
			Err   string `json:"err"`
			Panic string `json:"panic"`
			Len   int    `json:"len"`
		}{Src: src, Err: o.Err, Panic: o.Panic, Len: len(o.Out)}
		if len(o.Out) < 400 {
			res.Out = o.Out
		}
		// host-side String() of every global the script created
		out.Results = append(out.Results, res)
	}
	b, _ := json.Marshal(out)
	os.Stdout.Write(b)
	return 0
}

// c14RandCycle builds a random graph of 2-4 nodes linked through struct
// fields, slices and maps, with at least one cycle, and prints every node.
func c14RandCycle(rng *core.Rng) string {
	n := rng.Range(1, 4)
	var sb strings.Builder
	sb.WriteString("type N struct { P *N; S []*N; M map[int]*N; A []any }; ")
	for i := 0; i < n; i++ {
		fmt.Fprintf(&sb, "n%d := &N{M: map[int]*N{}}; ", i)
	}
	for i := 0; i < n; i++ {
		j := (i + 1) % n // a ring guarantees a cycle
		switch rng.Intn(4) {
		case 0:
			fmt.Fprintf(&sb, "n%d.P = n%d; ", i, j)
		case 1:
			fmt.Fprintf(&sb, "n%d.S = append(n%d.S, n%d); ", i, i, j)
		case 2:
			fmt.Fprintf(&sb, "n%d.M[%d] = n%d; ", i, j, j)
		default:
			fmt.Fprintf(&sb, "n%d.A = append(n%d.A, n%d, n%d.A); ", i, i, j, i)
		}
		if rng.Bool() {
			fmt.Fprintf(&sb, "n%d.A = append(n%d.A, n%d.S, n%d.M, n%d); ", i, i, rng.Intn(n), rng.Intn(n), rng.Intn(n))
		}
	}
	sb.WriteString("println(")
	for i := 0; i < n; i++ {
		if i > 0 {
			sb.WriteString(", ")
		}
		fmt.Fprintf(&sb, "n%d", i)
	}
	sb.WriteString(")")
	return sb.String()
}

func runC14(r *core.Run) {
	r.SetRule("values of every supported kind (bool; int32/int8/uint8/uint32 boundaries; float64 classes: +-0, +-Inf, NaN, subnormal, 1e20/1e21, 1e-4/1e-5, 2^53, shortest-representation stress values, random bit patterns; strings incl. spaces, newlines, quotes, invalid UTF-8; slices nested to depth 5; mixed []any; single-entry maps, also ones that are single-entry because the other entries were deleted; typed nil slice/map; struct references built by the host with NewStruct; struct references, also after their type declaration ran several times in one VM) values that script operations derived from host-supplied ones (whole-range slice expressions, maps.Clone, maps.Keys, slices.Delete) nested two and three containers deep; rendered through Value.String and through script println / fmt.Println with 1-4 operands / fmt.Print / fmt.Sprint with host-supplied operands; cyclic object graphs (fixed catalogue plus random rings through struct fields, slices, maps and []any) rendered in a child process. non-trivial = every case (each renders at least one value); distinct by value description")
	r.Assume("fmt.Sprint / Sprintln on the mirrored native value are the specification; multi-entry map order, nil pointers and nested struct references inside containers are not specified by the property and not judged; for cyclic graphs only termination and bounded size are judged")
	n := r.N(20000, 800000)
	core.Parallel((n+99)/100, func(chunk int) {
		w := newC14Worker(r)
		if w == nil {
			return
		}
		for i := chunk * 100; i < (chunk+1)*100 && i < n; i++ {
			r.Eval(1)
			what, cs, bad := c14One(w, r.Seed, i)
			if bad {
				r.Violate(core.Violation{Check: "c14", Index: i, What: what, Case: cs})
				continue
			}
			r.Distinct(fmt.Sprint(cs.Kind, cs.Desc))
			r.Count("kind:"+cs.Kind, 1)
			if i%4001 == 0 {
				r.Sample(cs)
			}
		}
	})
	// recorded finding K01: containers reached through an any-typed element at depth >= 2
	for _, src := range []string{`x := []any{[]any{[]any{1}}}; x`, `x := []any{[]any{map[string]int{"a": 1}}}; x`} {
		m := core.NewMachine(core.VMOpts{Optimize: true})
		o := m.Eval(nil, src)
		r.Eval(1)
		want := map[string]string{`x := []any{[]any{[]any{1}}}; x`: "[[[1]]]", `x := []any{[]any{map[string]int{"a": 1}}}; x`: "[[map[a:1]]]"}[src]
		if o.Failed() || len(o.Rets) != 1 || o.Rets[0] != want {
			if r.Findings().Open("K01") && len(o.Rets) == 1 && strings.Contains(o.Rets[0], "...") {
				r.KnownFinding("K01")
			} else {
				r.Violate(core.Violation{Check: "c14-any-nesting", What: "a container nested through any-typed elements is not rendered as Go renders it", Case: c14Case{Kind: "any-nesting", Desc: []string{src}}, Expected: want, Observed: o})
			}
		}
	}
	// cyclic graphs in a child process
	nCyc := r.N(200, 5000)
	exe, err := os.Executable()
	if err != nil {
		r.Inconclusive("no_executable_path")
		return
	}
	cmd := exec.Command(exe, "C14", "worker", fmt.Sprint(r.Seed), fmt.Sprint(nCyc))
	cmd.Env = append(os.Environ(), "GOTRACEBACK=single", "GOMEMLIMIT=3GiB")
	var so, se bytes.Buffer
	cmd.Stdout, cmd.Stderr = &so, &limitedBuffer{max: 1 << 20, w: &se}
	done := make(chan error, 1)
	if err := cmd.Start(); err != nil {
		r.Inconclusive("cannot_spawn_child")
		return
	}
	go func() { done <- cmd.Wait() }()
	var werr error
	timedOut := false
	select {
	case werr = <-done:
	case <-time.After(5 * time.Minute):
		cmd.Process.Kill()
		<-done
		timedOut = true
	}
	lastSrc := ""
	for _, l := range strings.Split(se.String(), "\n") {
		if strings.HasPrefix(l, "rendering: ") {
			lastSrc = strings.TrimPrefix(l, "rendering: ")
		}
	}
	if timedOut || werr != nil {
		what := "rendering a cyclic value did not terminate (the child process was still rendering after 5 minutes)"
		if werr != nil {
			what = "rendering a cyclic value killed the process: " + firstLines(se.String()[strings.LastIndex(se.String(), "rendering: ")+1:], 4)
		}
		r.Eval(1)
		r.Violate(core.Violation{Check: "c14-cycle", What: what, Case: c14Case{Kind: "cycle", Desc: []string{lastSrc}}})
		return
	}
	var out c14CycleOut
	if err := json.Unmarshal(so.Bytes(), &out); err != nil {
		r.Inconclusive("child_output_unreadable")
		return
	}
	for i, res := range out.Results {
		r.Eval(1)
		switch {
		case res.Panic != "":
			r.Violate(core.Violation{Check: "c14-cycle", Index: i, What: "a Go panic escaped while printing a cyclic value: " + res.Panic, Case: c14Case{Kind: "cycle", Desc: []string{res.Src}}})
		case res.Err != "":
			r.Violate(core.Violation{Check: "c14-cycle", Index: i, What: "printing a cyclic value failed: " + core.ErrFirstLine(res.Err), Case: c14Case{Kind: "cycle", Desc: []string{res.Src}}})
		case res.Len > 64<<10:
			r.Violate(core.Violation{Check: "c14-cycle", Index: i, What: fmt.Sprintf("rendering a small cyclic graph produced %d bytes", res.Len), Case: c14Case{Kind: "cycle", Desc: []string{res.Src}}})
		case res.Len == 0:
			r.Violate(core.Violation{Check: "c14-cycle", Index: i, What: "nothing was printed", Case: c14Case{Kind: "cycle", Desc: []string{res.Src}}})
		default:
			r.Distinct(res.Src)
			r.Count("cyclic_graphs_rendered", 1)
			if i == 0 || i == len(c14Cycles)+1 {
				r.Sample(map[string]any{"cyclic_script": res.Src, "printed": res.Out})
			}
		}
	}
}

func replayC14(r *core.Run, v *core.Violation) {
	var cs c14Case
	if err := remarshal(v.Case, &cs); err != nil {
		return
	}
	if cs.Kind == "cycle" {
		fmt.Println("re-run the cyclic script with: vcheck C14 worker <seed> 0 (fixed catalogue) — script:", cs.Desc)
		return
	}
	w := newC14Worker(r)
	if w == nil {
		return
	}
	if what, c2, bad := c14One(w, cs.Seed, cs.Idx); bad {
		r.Violate(core.Violation{Check: "c14", What: what, Case: c2})
	}
}
