package checks

import (
	"bytes"
	"fmt"
	"go/ast"
	"go/parser"
	"go/token"
	"strconv"
	"strings"

	"github.com/philhassey/goatlang"

	"verif/internal/core"
)

// C05 — expressions group by Go's precedence and associativity.
//
// Oracle: go/parser gives the grouping; a small evaluator over that tree with
// native int32/bool operators gives the value. The evaluator knows nothing
// about precedence. Observed: goatlang's WithTreeDump grouping and the value
// Eval returns.

func init() { register("C05", &Check{Run: runC05, Replay: replayC05}) }

var c05BinOps = []string{"*", "/", "%", "<<", ">>", "&", "&^", "+", "-", "|", "^", "==", "!=", "<", "<=", ">", ">=", "&&", "||"}

type c05Node struct {
	op   string // binary operator, or "" for a leaf / unary
	un   string // unary operator applied to this node's value ("" none)
	l, r *c05Node
	leaf string
	typ  byte // 'i' or 'b'
}

func (n *c05Node) sexpr() string {
	var s string
	switch {
	case n.op == "":
		s = n.leaf
	case n.op == "&^":
		s = "(& " + n.l.sexpr() + " (complement " + n.r.sexpr() + "))"
	default:
		s = "(" + n.op + " " + n.l.sexpr() + " " + n.r.sexpr() + ")"
	}
	switch n.un {
	case "-":
		if n.op == "" && n.leaf != "" && n.leaf[0] >= '0' && n.leaf[0] <= '9' {
			s = "-" + s // the parser folds the sign into a numeric literal
			break
		}
		s = "(negate " + s + ")"
	case "^":
		s = "(complement " + s + ")"
	case "!":
		s = "(! " + s + ")"
	}
	return s
}

// text renders with explicit parentheses around every binary node.
func (n *c05Node) text(top bool) string {
	var s string
	if n.op == "" {
		s = n.leaf
	} else {
		s = n.l.text(false) + " " + n.op + " " + n.r.text(false)
		if !top || n.un != "" {
			s = "(" + s + ")"
		}
	}
	return n.un + s
}

type c05Val struct {
	i   int32
	b   bool
	isB bool
	err bool
}

func (v c05Val) String() string {
	if v.err {
		return "error"
	}
	if v.isB {
		return fmt.Sprint(v.b)
	}
	return fmt.Sprint(v.i)
}

func c05Eval(n *c05Node, env map[string]c05Val) (res c05Val) {
	defer func() {
		if r := recover(); r != nil {
			res = c05Val{err: true}
		}
	}()
	if n.op == "" {
		if n.leaf != "" && n.leaf[0] >= '0' && n.leaf[0] <= '9' {
			v, _ := strconv.Atoi(n.leaf)
			res = c05Val{i: int32(v)}
		} else if len(n.leaf) == 3 && n.leaf[0] == '\'' {
			res = c05Val{i: int32(n.leaf[1])} // a character literal is an untyped integer constant
		} else if n.leaf == "true" || n.leaf == "false" {
			res = c05Val{isB: true, b: n.leaf == "true"}
		} else {
			res = env[n.leaf]
		}
	} else if n.op == "&&" || n.op == "||" {
		l := c05Eval(n.l, env)
		if l.err {
			return l
		}
		if n.op == "&&" && !l.b {
			res = c05Val{isB: true, b: false}
		} else if n.op == "||" && l.b {
			res = c05Val{isB: true, b: true}
		} else {
			r := c05Eval(n.r, env)
			if r.err {
				return r
			}
			res = c05Val{isB: true, b: r.b}
		}
	} else {
		l := c05Eval(n.l, env)
		if l.err {
			return l
		}
		r := c05Eval(n.r, env)
		if r.err {
			return r
		}
		a, b := l.i, r.i
		switch n.op {
		case "*":
			res.i = a * b
		case "/":
			res.i = a / b
		case "%":
			res.i = a % b
		case "<<":
			res.i = a << b
		case ">>":
			res.i = a >> b
		case "&":
			res.i = a & b
		case "&^":
			res.i = a &^ b
		case "+":
			res.i = a + b
		case "-":
			res.i = a - b
		case "|":
			res.i = a | b
		case "^":
			res.i = a ^ b
		case "==":
			res.isB = true
			if l.isB {
				res.b = l.b == r.b
			} else {
				res.b = a == b
			}
		case "!=":
			res.isB = true
			if l.isB {
				res.b = l.b != r.b
			} else {
				res.b = a != b
			}
		case "<":
			res.isB, res.b = true, a < b
		case "<=":
			res.isB, res.b = true, a <= b
		case ">":
			res.isB, res.b = true, a > b
		case ">=":
			res.isB, res.b = true, a >= b
		default:
			panic("op")
		}
	}
	switch n.un {
	case "-":
		res.i = -res.i
	case "^":
		res.i = ^res.i
	case "!":
		res.b = !res.b
	}
	return res
}

// c05FromGo converts go/parser's tree. Parentheses disappear, as in
// goatlang's dump.
func c05FromGo(e ast.Expr) *c05Node {
	switch x := e.(type) {
	case *ast.ParenExpr:
		return c05FromGo(x.X)
	case *ast.Ident:
		return &c05Node{leaf: x.Name}
	case *ast.BasicLit:
		return &c05Node{leaf: x.Value}
	case *ast.UnaryExpr:
		n := c05FromGo(x.X)
		if n.un != "" {
			// nested unary: wrap
			return &c05Node{op: "", leaf: "", un: x.Op.String(), l: n}
		}
		n.un = x.Op.String()
		return n
	case *ast.BinaryExpr:
		return &c05Node{op: x.Op.String(), l: c05FromGo(x.X), r: c05FromGo(x.Y)}
	}
	panic(fmt.Sprintf("unexpected node %T", e))
}

// c05Type infers operand types top-down; eqChoice supplies one bit per ==/!=
// node (0 = int operands, 1 = bool operands). Returns false if ill-typed.
func c05Type(n *c05Node, want byte, eqChoice *uint, ints, bools *int) bool {
	if n.un == "!" && want != 'b' {
		return false
	}
	if (n.un == "-" || n.un == "^") && want != 'i' {
		return false
	}
	n.typ = want
	if n.op == "" {
		if want == 'i' {
			n.leaf = string(rune('a' + *ints))
			*ints++
		} else {
			n.leaf = string(rune('p' + *bools))
			*bools++
		}
		return true
	}
	switch n.op {
	case "*", "/", "%", "<<", ">>", "&", "&^", "+", "-", "|", "^":
		if want != 'i' {
			return false
		}
		return c05Type(n.l, 'i', eqChoice, ints, bools) && c05Type(n.r, 'i', eqChoice, ints, bools)
	case "<", "<=", ">", ">=":
		if want != 'b' {
			return false
		}
		return c05Type(n.l, 'i', eqChoice, ints, bools) && c05Type(n.r, 'i', eqChoice, ints, bools)
	case "==", "!=":
		if want != 'b' {
			return false
		}
		t := byte('i')
		if *eqChoice&1 == 1 {
			t = 'b'
		}
		*eqChoice >>= 1
		return c05Type(n.l, t, eqChoice, ints, bools) && c05Type(n.r, t, eqChoice, ints, bools)
	case "&&", "||":
		if want != 'b' {
			return false
		}
		return c05Type(n.l, 'b', eqChoice, ints, bools) && c05Type(n.r, 'b', eqChoice, ints, bools)
	}
	return false
}

// c05IsBool: the static type of a tree built from go/parser's output.
func c05IsBool(n *c05Node) bool {
	switch n.un {
	case "!":
		return true
	case "-", "^", "+":
		return false
	}
	if n.op != "" {
		return c05RootWant(n) == 'b'
	}
	if n.l != nil {
		return c05IsBool(n.l)
	}
	return n.leaf == "true" || n.leaf == "false" || (len(n.leaf) == 1 && n.leaf[0] >= 'p' && n.leaf[0] <= 't')
}

func c05RootWant(n *c05Node) byte {
	switch n.op {
	case "*", "/", "%", "<<", ">>", "&", "&^", "+", "-", "|", "^":
		return 'i'
	}
	return 'b'
}

func c05CountEq(n *c05Node) int {
	if n == nil || n.op == "" {
		return 0
	}
	c := c05CountEq(n.l) + c05CountEq(n.r)
	if n.op == "==" || n.op == "!=" {
		c++
	}
	return c
}

func c05Clone(n *c05Node) *c05Node {
	if n == nil {
		return nil
	}
	c := *n
	c.l, c.r = c05Clone(n.l), c05Clone(n.r)
	return &c
}

// c05Leaves lists leaves left to right.
func c05Leaves(n *c05Node, out *[]*c05Node) {
	if n.op == "" {
		*out = append(*out, n)
		return
	}
	c05Leaves(n.l, out)
	c05Leaves(n.r, out)
}

// c05AllTrees enumerates every binary tree over ops[lo:hi] with leaves
// lo..hi (Catalan many).
func c05AllTrees(ops []string, lo, hi int) []*c05Node {
	if lo == hi {
		return []*c05Node{{}}
	}
	var res []*c05Node
	for k := lo; k < hi; k++ {
		for _, l := range c05AllTrees(ops, lo, k) {
			for _, r := range c05AllTrees(ops, k+1, hi) {
				res = append(res, &c05Node{op: ops[k], l: c05Clone(l), r: c05Clone(r)})
			}
		}
	}
	return res
}

var c05Vectors [][2][5]int32

func init() {
	// int operands a..e and bool operands p..t (as 0/1). Small positive values
	// keep shifts and divisions defined; later vectors add zero, negatives
	// and boundaries (both sides must then fail alike).
	c05Vectors = [][2][5]int32{
		{{7, 3, 2, 5, 1}, {1, 0, 1, 0, 1}},
		{{1, 2, 3, 1, 2}, {0, 1, 0, 1, 0}},
		{{12, 5, 9, 2, 6}, {1, 1, 0, 0, 1}},
		{{3, 1, 4, 1, 5}, {0, 0, 1, 1, 0}},
		{{6, 2, 1, 3, 2}, {1, 0, 0, 1, 1}},
		{{-9, 4, 3, -2, 1}, {0, 1, 1, 0, 0}},
		{{2147483647, 2, 31, 1, 3}, {1, 1, 1, 1, 1}},
		{{5, 0, -3, 33, -2147483648}, {0, 0, 0, 0, 0}},
	}
}

func c05Env(vec [2][5]int32) map[string]c05Val {
	env := map[string]c05Val{}
	for i := 0; i < 5; i++ {
		env[string(rune('a'+i))] = c05Val{i: vec[0][i]}
		env[string(rune('p'+i))] = c05Val{isB: true, b: vec[1][i] != 0}
	}
	return env
}

type c05Case struct {
	Expr string `json:"expr"`
	Kind string `json:"kind"`
}

type c05Worker struct {
	m    *core.Machine
	fset *token.FileSet
}

func newC05Worker() *c05Worker {
	return &c05Worker{m: core.NewMachine(core.VMOpts{Optimize: true, Obs: core.NewObs(core.DefaultBudget, false, nil)}), fset: token.NewFileSet()}
}

func (w *c05Worker) bind(vec [2][5]int32) {
	for i := 0; i < 5; i++ {
		w.m.VM.Set("main."+string(rune('a'+i)), goatlang.Int32(vec[0][i]))
		w.m.VM.Set("main."+string(rune('p'+i)), goatlang.Bool(vec[1][i] != 0))
	}
}

// checkExpr runs one expression text through both sides. alt (optional) are
// the alternative groupings, for the separation statistic.
func (w *c05Worker) checkExpr(r *core.Run, idx int, kind, expr string, alts []*c05Node) {
	goTree, err := parser.ParseExpr(expr)
	if err != nil {
		r.Count("harness_parse_error", 1)
		return
	}
	want := c05FromGo(goTree)
	r.Eval(1)
	cs := c05Case{Expr: expr, Kind: kind}
	separated := make([]bool, len(alts))
	nontrivial := false
	// the same expression as the body of a function over parameters: operands are frame slots there, so the
	// optimizer's fused local forms apply (at top level the operands are globals)
	fnT := "int"
	if c05IsBool(want) {
		fnT = "bool"
	}
	fnOK := false
	if fo := w.m.Eval(nil, "func c05f(a int, b int, c int, d int, e int, p bool, q bool, r bool, s bool, t bool) "+fnT+" {\n\treturn "+expr+"\n}"); fo.Panic != "" {
		r.Violate(core.Violation{Check: "c05", Index: idx, What: "Go panic escaped Eval of a function returning the expression", Case: cs, Observed: fo})
		return
	} else if fo.Err == "" {
		fnOK = true
	} else if !strings.Contains(fo.Err, "divide by zero") && !strings.Contains(fo.Err, "shift") {
		r.Violate(core.Violation{Check: "c05", Index: idx, What: "goatlang rejects a function whose body returns a well-typed expression over int/bool parameters", Case: cs, Observed: fo})
		return
	}
	// ... and in the header of an if / switch statement, directly before the opening brace
	hdrOK := false
	{
		body := "switch " + expr + " {\n\tcase 0:\n\t\treturn 0\n\t}\n\treturn 1"
		if fnT == "bool" {
			body = "if " + expr + " {\n\t\treturn 1\n\t}\n\treturn 0"
		}
		ho := w.m.Eval(nil, "func c05h(a int, b int, c int, d int, e int, p bool, q bool, r bool, s bool, t bool) int {\n\t"+body+"\n}")
		if ho.Panic != "" || (ho.Err != "" && !strings.Contains(ho.Err, "divide by zero") && !strings.Contains(ho.Err, "shift")) {
			r.Violate(core.Violation{Check: "c05", Index: idx, What: "goatlang rejects the expression in the header of an if / switch statement", Case: cs, Observed: ho})
			return
		}
		hdrOK = ho.Err == ""
	}
	for vi, vec := range c05Vectors {
		env := c05Env(vec)
		exp := c05Eval(want, env)
		w.bind(vec)
		w.m.Out.Reset()
		var dump bytes.Buffer
		var o core.Outcome
		if vi == 0 {
			o = w.m.Eval(nil, expr, goatlang.WithTreeDump(&dump))
		} else {
			o = w.m.Eval(nil, expr)
		}
		if o.Panic != "" {
			r.Violate(core.Violation{Check: "c05", Index: idx, What: "Go panic escaped Eval of an expression", Case: cs, Observed: o})
			return
		}
		if vi == 0 {
			got := strings.TrimSpace(dump.String())
			if o.Err != "" && strings.HasPrefix(o.Err, "error in parse") || strings.HasPrefix(o.Err, "error in tokenize") || strings.HasPrefix(o.Err, "error in compile") {
				r.Violate(core.Violation{Check: "c05", Index: idx, What: "goatlang rejects a well-typed expression over int32/bool variables", Case: cs, Expected: want.sexpr(), Observed: o})
				return
			}
			if got != want.sexpr() {
				r.Violate(core.Violation{Check: "c05", Index: idx, What: "grouping differs from go/parser", Case: cs, Expected: want.sexpr(), Observed: got})
				return
			}
		}
		var got string
		switch {
		case o.Err != "":
			got = "error"
		case len(o.Rets) != 1:
			got = fmt.Sprintf("%d values %v", len(o.Rets), o.Rets)
		default:
			got = o.Rets[0]
			wantT := "int32"
			if exp.isB {
				wantT = "bool"
			}
			if !exp.err && o.Types[0] != wantT && !(wantT == "int32" && o.Types[0] == "number") { // an all-constant left operand of a shift stays untyped until it is used
				got += " (" + o.Types[0] + ")"
			}
		}
		if got != exp.String() {
			r.Violate(core.Violation{Check: "c05", Index: idx, What: "value differs from the value of Go's grouping", Case: cs,
				Expected: map[string]any{"value": exp.String(), "grouping": want.sexpr(), "operands": vec}, Observed: o})
			return
		}
		if fnOK {
			var args []goatlang.Value
			for i := 0; i < 5; i++ {
				args = append(args, goatlang.Int32(vec[0][i]))
			}
			for i := 0; i < 5; i++ {
				args = append(args, goatlang.Bool(vec[1][i] != 0))
			}
			fo := w.m.Call("main.c05f", 1, args...)
			fgot := "error"
			switch {
			case fo.Panic != "":
				fgot = "panic " + fo.Panic
			case fo.Err != "":
			case len(fo.Rets) != 1:
				fgot = fmt.Sprintf("%d values %v", len(fo.Rets), fo.Rets)
			default:
				fgot = fo.Rets[0]
			}
			if fgot != exp.String() {
				r.Violate(core.Violation{Check: "c05", Index: idx, What: "inside a function over parameters the value differs from the value of Go's grouping", Case: cs,
					Expected: map[string]any{"value": exp.String(), "grouping": want.sexpr(), "operands": vec}, Observed: fo})
				return
			}
			r.Count("evaluations_inside_a_function", 1)
			if hdrOK {
				ho := w.m.Call("main.c05h", 1, args...)
				hgot, hwant := "error", "error"
				if ho.Panic != "" {
					hgot = "panic " + ho.Panic
				} else if ho.Err == "" && len(ho.Rets) == 1 {
					hgot = ho.Rets[0]
				}
				if !exp.err {
					hwant = "0"
					if (exp.isB && exp.b) || (!exp.isB && exp.i != 0) {
						hwant = "1"
					}
				}
				if hgot != hwant {
					r.Violate(core.Violation{Check: "c05", Index: idx, What: "in the header of an if / switch statement the expression evaluates differently", Case: cs,
						Expected: map[string]any{"branch": hwant, "value": exp.String(), "grouping": want.sexpr(), "operands": vec}, Observed: ho})
					return
				}
				r.Count("evaluations_in_statement_headers", 1)
			}
		}
		if !exp.err {
			nontrivial = true
		}
		for ai, alt := range alts {
			if separated[ai] {
				continue
			}
			if av := c05Eval(alt, env); av.String() != exp.String() {
				separated[ai] = true
			}
		}
	}
	if nontrivial {
		r.Distinct(expr)
	}
	for _, s := range separated {
		r.Count("alternative_groupings", 1)
		if s {
			r.Count("alternative_groupings_separated_by_values", 1)
		}
	}
	if idx%997 == 0 {
		r.Sample(map[string]any{"expr": expr, "kind": kind, "grouping": want.sexpr()})
	}
}

// c05Variants returns the well-typed operand assignments of a tree shape as
// fresh trees with named leaves.
func c05Variants(shape *c05Node) []*c05Node {
	var res []*c05Node
	neq := c05CountEq(shape)
	for choice := uint(0); choice < 1<<uint(neq); choice++ {
		t := c05Clone(shape)
		c := choice
		ints, bools := 0, 0
		if c05Type(t, c05RootWant(t), &c, &ints, &bools) {
			res = append(res, t)
		}
	}
	return res
}

// c05Flat renders leaves and operators in sequence without parentheses,
// unary prefixes attached to their leaf.
func c05Flat(n *c05Node) string {
	if n.op == "" {
		return n.un + n.leaf
	}
	return c05Flat(n.l) + " " + n.op + " " + c05Flat(n.r)
}

func runC05(r *core.Run) {
	r.SetRule("every operator sequence x0 op1 x1 .. opk xk (k<=3, 19 binary operators) typed by inference on go/parser's tree, each evaluated on 8 operand vectors; plus unary prefixes on every operand (k<=2) and on every parenthesised group incl. the whole expression, every full parenthesisation (k<=3), expressions continued on the next line after a binary operator, literal operands (integers, characters, bool literals, also under unary operators), sampled k=4 sequences; each also as the body of a function over parameters and in the header of an if / switch statement. non-trivial = parsed by both sides and evaluated without error on at least one vector; distinct by expression text")
	r.Assume("go/parser implements the Go specification's precedence table; native int32/bool operators are Go's semantics")
	type job struct {
		kind, expr string
		alts       []*c05Node
	}
	var jobs []job
	seqs := 0
	skippedIllTyped := 0
	addSeq := func(opsSeq []string, kind string, withParens, withUnary bool) {
		// Go's grouping of the flat sequence decides typing
		names := make([]string, len(opsSeq)+1)
		for i := range names {
			names[i] = fmt.Sprintf("x%d", i)
		}
		var sb strings.Builder
		for i, n := range names {
			if i > 0 {
				sb.WriteString(" " + opsSeq[i-1] + " ")
			}
			sb.WriteString(n)
		}
		goTree, err := parser.ParseExpr(sb.String())
		if err != nil {
			panic(err)
		}
		shape := c05FromGo(goTree)
		variants := c05Variants(shape)
		if len(variants) == 0 {
			skippedIllTyped++
			return
		}
		seqs++
		for _, v := range variants {
			// alternatives: other trees over the same leaves/ops that are well-typed with the same leaf types
			var leaves []*c05Node
			c05Leaves(v, &leaves)
			var alts []*c05Node
			for _, t := range c05AllTrees(opsSeq, 0, len(opsSeq)) {
				var tl []*c05Node
				c05Leaves(t, &tl)
				for i := range tl {
					tl[i].leaf, tl[i].typ = leaves[i].leaf, leaves[i].typ
				}
				if t.sexpr() == v.sexpr() {
					continue
				}
				if c05WellTyped(t) {
					alts = append(alts, t)
				}
			}
			jobs = append(jobs, job{kind: kind, expr: c05Flat(v), alts: alts})
			// withLits returns t with a pseudo-random subset of its int leaves replaced by literals
			withLits := func(t *c05Node, salt int) *c05Node {
				u := c05Clone(t)
				var ul []*c05Node
				c05Leaves(u, &ul)
				h := int(core.HashString(c05Flat(t))>>8) + salt
				changed, vars := 0, 0
				for i := range ul {
					if ul[i].typ == 'i' && (h>>uint(i))&1 == 1 {
						ul[i].leaf = []string{"1", "2", "3", "5", "7"}[(h+i)%5]
						changed++
					} else {
						vars++
					}
				}
				if changed == 0 || vars == 0 || c05ConstShiftLeft(u) {
					return nil
				}
				return u
			}
			if withParens {
				for ai, a := range alts {
					jobs = append(jobs, job{kind: "parenthesised", expr: a.text(true)})
					if u := withLits(a, ai); u != nil {
						jobs = append(jobs, job{kind: "parenthesised-literals", expr: u.text(true)})
					}
				}
				jobs = append(jobs, job{kind: "parenthesised", expr: v.text(true)})
			}
			if len(opsSeq) >= 4 {
				for salt := 0; salt < 3; salt++ {
					if u := withLits(v, salt*7); u != nil {
						jobs = append(jobs, job{kind: "literal-operands", expr: c05Flat(u)})
					}
				}
			}
			// literal operands: small integer constants in place of variables (constant operands take
			// other compiler paths - PUSH, constant folding of the peephole pass - than variables)
			if len(opsSeq) <= 3 {
				nl := len(leaves)
				for mask := 1; mask < 1<<uint(nl); mask++ {
					u := c05Clone(v)
					var ul []*c05Node
					c05Leaves(u, &ul)
					ok, consts := true, 0
					for i := 0; i < nl; i++ {
						if mask>>uint(i)&1 == 1 {
							if ul[i].typ != 'i' {
								ul[i].leaf = []string{"true", "false"}[(i+mask)%2]
							} else {
								ul[i].leaf = []string{"1", "2", "3", "5", "7", "'a'", "'0'"}[(i+mask)%7]
							}
							consts++
						}
					}
					// the left operand of a shift keeps at least one variable: a run-time shift of an
					// all-constant left operand is computed untyped (recorded finding K04)
					if ok && consts < nl && !c05ConstShiftLeft(u) {
						jobs = append(jobs, job{kind: "literal-operands", expr: c05Flat(u)})
						// ... and with unary operators on the literals (-'a', !true, ^3)
						w := c05Clone(u)
						var wl []*c05Node
						c05Leaves(w, &wl)
						for i := 0; i < nl; i++ {
							if mask>>uint(i)&1 == 1 && wl[i].un == "" {
								if wl[i].typ == 'i' {
									wl[i].un = []string{"-", "^"}[(i+mask)%2]
								} else {
									wl[i].un = "!"
								}
							}
						}
						jobs = append(jobs, job{kind: "unary-on-literals", expr: c05Flat(w)})
					}
				}
			}
			// unary operators applied to parenthesised groups (the root included), and expressions continued on
			// the next line after a binary operator
			if len(opsSeq) <= 2 || (len(opsSeq) == 3 && int(core.HashString(c05Flat(v)))%4 == 0) {
				for _, t := range append([]*c05Node{v}, alts...) {
					var inner []*c05Node
					var walk func(n *c05Node)
					walk = func(n *c05Node) {
						if n == nil || n.op == "" {
							return
						}
						inner = append(inner, n)
						walk(n.l)
						walk(n.r)
					}
					walk(t)
					for gi := range inner {
						u := c05Clone(t)
						var ui []*c05Node
						var walk2 func(n *c05Node)
						walk2 = func(n *c05Node) {
							if n == nil || n.op == "" {
								return
							}
							ui = append(ui, n)
							walk2(n.l)
							walk2(n.r)
						}
						walk2(u)
						if c05RootWant(ui[gi]) == 'b' {
							ui[gi].un = "!"
						} else if gi%2 == 0 {
							ui[gi].un = "-"
						} else {
							ui[gi].un = "^"
						}
						jobs = append(jobs, job{kind: "unary-on-group", expr: u.text(true)})
					}
				}
				flat := c05Flat(v)
				if parts := strings.Split(flat, " "); len(parts) >= 3 {
					// operators sit at the odd positions of the flat rendering
					k := 1 + 2*(int(core.HashString(flat)>>4)%(len(parts)/2))
					jobs = append(jobs, job{kind: "continued-on-next-line", expr: strings.Join(parts[:k+1], " ") + "\n\t" + strings.Join(parts[k+1:], " ")})
				}
			}
			if withUnary {
				n := len(leaves)
				total := 1
				for i := 0; i < n; i++ {
					total *= 3
				}
				for code := 1; code < total; code++ {
					u := c05Clone(v)
					var ul []*c05Node
					c05Leaves(u, &ul)
					c := code
					ok := true
					for i := 0; i < n; i++ {
						d := c % 3
						c /= 3
						switch {
						case d == 0:
						case ul[i].typ == 'i' && d == 1:
							ul[i].un = "-"
						case ul[i].typ == 'i' && d == 2:
							ul[i].un = "^"
						case ul[i].typ == 'b' && d == 1:
							ul[i].un = "!"
						default:
							ok = false
						}
					}
					if ok {
						jobs = append(jobs, job{kind: "unary", expr: c05Flat(u)})
					}
				}
			}
		}
	}
	ops := c05BinOps
	for _, a := range ops {
		addSeq([]string{a}, "k=1", true, true)
		for _, b := range ops {
			addSeq([]string{a, b}, "k=2", true, true)
			for _, c := range ops {
				addSeq([]string{a, b, c}, "k=3", true, false)
			}
		}
	}
	exhaustiveJobs := len(jobs)
	nRand := r.N(2000, 40000)
	rng := core.Derive(r.Seed, "c05-k4", 0)
	for i := 0; i < nRand; i++ {
		k := 4 // five operands: a..e / p..t are the bound variables
		seq := make([]string, k)
		for j := range seq {
			seq[j] = core.Pick(rng, ops)
		}
		before := len(jobs)
		addSeq(seq, fmt.Sprintf("k=%d", k), false, false)
		if len(jobs) > before+4 {
			jobs = jobs[:before+4]
		}
	}
	r.Count("operator_sequences_well_typed", seqs)
	r.Count("operator_sequences_ill_typed_skipped", skippedIllTyped)
	r.Count("exhaustive_part_expressions", exhaustiveJobs)
	r.SetExhaustive(true)
	r.SetObserved("exhaustive_scope", "all sequences of <=3 binary operators, their parenthesisations, and unary placements for <=2 operators; k>=4 sequences are sampled")

	// workers
	const chunk = 256
	nChunks := (len(jobs) + chunk - 1) / chunk
	core.Parallel(nChunks, func(ci int) {
		w := newC05Worker()
		for i := ci * chunk; i < (ci+1)*chunk && i < len(jobs); i++ {
			j := jobs[i]
			if len(j.expr) > 0 {
				w.checkExpr(r, i, j.kind, j.expr, j.alts)
			}
			r.Count("kind:"+j.kind, 1)
		}
	})
}

func c05HasVar(n *c05Node) bool {
	if n.op == "" {
		return !(n.leaf != "" && (n.leaf[0] >= '0' && n.leaf[0] <= '9' || n.leaf[0] == '\'' || n.leaf == "true" || n.leaf == "false"))
	}
	return c05HasVar(n.l) || c05HasVar(n.r)
}

func c05ConstShiftLeft(n *c05Node) bool {
	if n.op == "" {
		return false
	}
	if (n.op == "<<" || n.op == ">>") && !c05HasVar(n.l) {
		return true
	}
	return c05ConstShiftLeft(n.l) || c05ConstShiftLeft(n.r)
}

func c05WellTyped(n *c05Node) bool {
	_, ok := c05TypeOf(n)
	return ok
}

func c05TypeOf(n *c05Node) (byte, bool) {
	var t byte
	if n.op == "" {
		t = n.typ
	} else {
		lt, ok1 := c05TypeOf(n.l)
		rt, ok2 := c05TypeOf(n.r)
		if !ok1 || !ok2 {
			return 0, false
		}
		switch n.op {
		case "*", "/", "%", "<<", ">>", "&", "&^", "+", "-", "|", "^":
			if lt != 'i' || rt != 'i' {
				return 0, false
			}
			t = 'i'
		case "<", "<=", ">", ">=":
			if lt != 'i' || rt != 'i' {
				return 0, false
			}
			t = 'b'
		case "==", "!=":
			if lt != rt {
				return 0, false
			}
			t = 'b'
		case "&&", "||":
			if lt != 'b' || rt != 'b' {
				return 0, false
			}
			t = 'b'
		}
	}
	if n.un == "!" && t != 'b' || (n.un == "-" || n.un == "^") && t != 'i' {
		return 0, false
	}
	return t, true
}

func replayC05(r *core.Run, v *core.Violation) {
	var cs c05Case
	if err := remarshal(v.Case, &cs); err != nil {
		return
	}
	w := newC05Worker()
	w.checkExpr(r, v.Index, cs.Kind, cs.Expr, nil)
}
