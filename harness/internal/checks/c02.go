package checks

import (
	"fmt"
	"go/ast"
	"go/parser"
	"go/token"
	"os"
	"path/filepath"
	"regexp"
	"sort"
	"strconv"
	"strings"
	"time"

	"verif/internal/core"
	"verif/internal/gen"
)

// C02 — the optimizer is observationally transparent.
//
// Oracle: the same tree with the peephole pass switched off (hook
// VerifSetOptimize) is the reference semantics. Observed per mode: stdout,
// returned values with dynamic types, success/failure, and the source line of
// a failure. The step hook's histogram shows which fused opcodes the
// optimized runs actually executed.

func init() { register("C02", &Check{Run: runC02, Replay: replayC02}) }

type c02Case struct {
	Kind  string            `json:"kind"` // program | eval | history | reload
	Files map[string]string `json:"files,omitempty"`
	Main  string            `json:"main_dir,omitempty"`
	Src   string            `json:"src,omitempty"`
	// history: Eval inputs given to one VM one after the other; reload: successive versions of one
	// program, each loaded into the same VM and run
	Tag      string              `json:"family,omitempty"`
	Steps    []string            `json:"steps,omitempty"`
	Versions []map[string]string `json:"versions,omitempty"`
}

var fusedOps = []string{"LOCALINCDEC", "LOCALADD", "LOCALSUB", "LOCALMUL", "LOCALDIV", "FASTGET", "FASTSET", "FASTGETINT", "FASTSETINT", "FASTCALL", "FASTCALLATTR", "FASTGETATTR", "FASTSETATTR", "INCDEC", "PASS"}

var errFirstRe = regexp.MustCompile(`^(.*?)([^\s:()]+):(\d+):\d+: ([A-Z]*): (.*)$`)
var errTraceRe = regexp.MustCompile(`^(.*?)([^\s:()]+):(\d+):\d+$`)

// normErr reduces a run-time error to what must be equal in both modes:
// stage prefix and function, file:line of the failing operation, the message
// after the opcode name, and function + file:line of every backtrace entry.
// Columns are dropped (a fused instruction carries the position of its first
// component; the property speaks of lines) and so is the opcode name.
func normErr(e string) string {
	if e == "" {
		return ""
	}
	lines := strings.Split(e, "\n")
	var out []string
	for i, l := range lines {
		if i == 0 {
			if m := errFirstRe.FindStringSubmatch(l); m != nil {
				out = append(out, m[1]+m[2]+":"+m[3]+" "+m[5])
				continue
			}
		}
		if m := errTraceRe.FindStringSubmatch(l); m != nil {
			out = append(out, strings.TrimSpace(m[1])+" "+m[2]+":"+m[3])
			continue
		}
		out = append(out, strings.TrimSpace(l))
	}
	return strings.Join(out, "\n")
}

// normRets makes the rendering of map values order-free (Value.String walks a
// Go map, so the order of a multi-entry map changes from call to call).
func normRets(rets, types []string) string {
	var out []string
	for i, r := range rets {
		if i < len(types) && strings.Contains(types[i], "map[") || strings.Contains(r, "map[") {
			toks := strings.Fields(strings.NewReplacer("[", " [ ", "]", " ] ").Replace(r))
			sort.Strings(toks)
			r = strings.Join(toks, " ")
		}
		out = append(out, r)
	}
	return strings.Join(out, "\x00")
}

func sameOutcome(a, b core.Outcome) string {
	switch {
	case a.Panic != "" || b.Panic != "":
		if a.Panic != b.Panic {
			return "a Go panic escaped in one mode"
		}
	case a.Budget || b.Budget:
		return "" // inconclusive, decided by the caller
	case a.Out != b.Out:
		return "printed output differs between optimizer off and on"
	case (a.Err == "") != (b.Err == ""):
		return "one mode fails, the other succeeds"
	case normErr(a.Err) != normErr(b.Err):
		return "the failure is reported differently (line, message or call chain)"
	case normRets(a.Rets, a.Types) != normRets(b.Rets, b.Types):
		return "returned values differ"
	case strings.Join(a.Types, "\x00") != strings.Join(b.Types, "\x00"):
		return "dynamic types of the returned values differ"
	}
	return ""
}

func (c c02Case) run(optimize bool) (core.Outcome, map[string]int) {
	obs := core.NewObs(core.SmallBudget, true, nil)
	m := core.NewMachine(core.VMOpts{Optimize: optimize, Obs: obs})
	var o core.Outcome
	hist := map[string]int{}
	merge := func(steps int, next func(i int) core.Outcome) {
		for i := 0; i < steps; i++ {
			so := next(i)
			core.MergeHist(hist, obs.HistMap())
			o.Out, o.Steps = so.Out, o.Steps+so.Steps
			o.Rets = append(append(o.Rets, fmt.Sprintf("step %d:", i)), so.Rets...)
			o.Types = append(append(o.Types, "-"), so.Types...)
			o.Panic, o.Budget, o.Err = so.Panic, so.Budget, so.Err
			if so.Failed() || so.Budget {
				break
			}
		}
	}
	if c.Kind == "history" {
		merge(len(c.Steps), func(i int) core.Outcome { return m.Eval(core.MapFS(c.Files), c.Steps[i]) })
	} else if c.Kind == "reload" {
		merge(len(c.Versions), func(i int) core.Outcome { return m.LoadMain(core.MapFS(c.Versions[i]), c.Main) })
	} else if c.Kind == "program" {
		o = m.LoadMain(core.MapFS(c.Files), c.Main)
		core.MergeHist(hist, obs.HistMap())
	} else {
		o = m.Eval(core.MapFS(c.Files), c.Src)
		core.MergeHist(hist, obs.HistMap())
	}
	return o, hist
}

func c02Decide(r *core.Run, idx int, c c02Case, total map[string]int, sample bool) {
	t0 := time.Now()
	off, _ := c.run(false)
	on, hist := c.run(true)
	if d := time.Since(t0); d > 3*time.Second && os.Getenv("VERIF_DEBUG") != "" {
		fmt.Fprintf(os.Stderr, "slow case %d: %v steps=%d/%d out=%d bytes\n", idx, d, off.Steps, on.Steps, len(off.Out))
	}
	r.Eval(1)
	if off.Budget || on.Budget {
		r.Inconclusive("vm_budget")
		return
	}
	if what := sameOutcome(off, on); what != "" {
		r.Violate(core.Violation{Check: "c02", Index: idx, What: what, Case: c, Expected: map[string]any{"optimizer_off": off}, Observed: map[string]any{"optimizer_on": on},
			Extra: firstDiff(off.Out, on.Out)})
		return
	}
	fused := 0
	for _, f := range fusedOps {
		fused += hist[f]
	}
	if off.Steps > 0 && fused > 0 {
		key := c.Src + strings.Join(c.Steps, "\x00")
		for _, v := range c.Versions {
			key += v[c.Main+"/main.go"] + "\x00"
		}
		if c.Kind == "program" {
			var ks []string
			for k := range c.Files {
				ks = append(ks, k)
			}
			sort.Strings(ks)
			for _, k := range ks {
				key += c.Files[k]
			}
		}
		r.Distinct(key)
	}
	r.MergeCounts("executed:", hist, fusedOps)
	if off.Err != "" {
		r.Count("cases_failing_identically_in_both_modes", 1)
		if c.Tag != "" {
			r.Count("failing_identically:"+c.Tag, 1)
			if os.Getenv("VERIF_DEBUG") != "" {
				fmt.Fprintf(os.Stderr, "%s fails in both modes: %s\n%s\n", c.Tag, off.Err, c.Src+strings.Join(c.Steps, "\n--\n"))
			}
		}
	}
	if sample {
		src := c.Src
		if c.Kind == "program" {
			src = excerpt(c.Files[c.Main+"/main.go"], 25)
		}
		r.Sample(map[string]any{"kind": c.Kind, "source": src, "instructions_unoptimized": off.Steps, "instructions_optimized": on.Steps})
	}
}

// harvestTestStrings collects every string literal in /repo/*_test.go.
func harvestTestStrings() []string {
	seen := map[string]bool{}
	var res []string
	repo := os.Getenv("VERIF_REPO")
	if repo == "" {
		repo = "/repo"
	}
	files, _ := filepath.Glob(repo + "/*_test.go")
	sort.Strings(files)
	fset := token.NewFileSet()
	for _, f := range files {
		af, err := parser.ParseFile(fset, f, nil, 0)
		if err != nil {
			continue
		}
		ast.Inspect(af, func(n ast.Node) bool {
			if bl, ok := n.(*ast.BasicLit); ok && bl.Kind == token.STRING {
				if s, err := strconv.Unquote(bl.Value); err == nil && len(s) > 0 && len(s) < 4000 && !seen[s] {
					seen[s] = true
					res = append(res, s)
				}
			}
			return true
		})
	}
	return res
}

var mutOps = [][]string{{" + ", " - ", " * "}, {" < ", " <= ", " > ", " >= "}, {" == ", " != "}, {" && ", " || "}, {" & ", " | ", " ^ "}, {" << ", " >> "}, {"++", "--"}, {" += ", " -= ", " *= "}}

// mutate applies k same-signature operator / literal replacements.
func mutate(rng *core.Rng, src string, k int) string {
	for i := 0; i < k; i++ {
		grp := core.Pick(rng, mutOps)
		from := core.Pick(rng, grp)
		to := core.Pick(rng, grp)
		if from == to {
			continue
		}
		// replace the n-th occurrence
		cnt := strings.Count(src, from)
		if cnt == 0 {
			continue
		}
		n := rng.Intn(cnt)
		pos := 0
		for j := 0; j <= n; j++ {
			p := strings.Index(src[pos:], from)
			if p < 0 {
				break
			}
			pos += p
			if j < n {
				pos += len(from)
			}
		}
		if strings.HasPrefix(src[pos:], from) {
			src = src[:pos] + to + src[pos+len(from):]
		}
	}
	return src
}

// localsHeavy are Eval-level snippets written so that every fusion fires on
// locals inside functions and blocks, including error paths.
var c02Snippets = []string{
	// case values and conditions that end in local +- constant (each is optimized on its own)
	`func f(base int, x int) string { switch x { case base + 1: return "next"; case base - 1, base + 2: return "near"; case base: return "same" }; return "far" }; r := []string{f(5, 6), f(5, 4), f(5, 7), f(5, 5), f(5, 9)}; r`,
	`func f(n int) int { t := 0; for i := n - 1; i < n + 2; i++ { if i == n + 1 { t += 100 }; switch { case i > n - 1: t += i + 1; default: t -= 1 } }; return t }; r := f(3); r`,
	// a missing string-map entry used as a string
	`func f(k string) string { m := map[string]string{"a": "x"}; return "[" + m["zz"] + m["a"] + m[k] + "]" }; g := map[string]string{}; r := []string{f("a"), f("q"), "<" + g["none"] + ">"}; r`,
	// a package-level variable of function type reassigned between two executions of one call site
	`func f1(a int) int { return a + 10 }; func f2(a int) int { return a * 20 }; var fv = f1; func run() []int { r := []int{}; for i := 1; i < 4; i++ { r = append(r, fv(i)); if i == 1 { fv = f2 } else { fv = f1 } }; return r }; out := run(); out`,
	`func f1(a int) int { return a + 10 }; func f2(a int) int { return a * 20 }; fv := f1; s := 0; for i := 0; i < 4; i++ { s += fv(i); fv = f2 }; s`,
	`type H struct { F func(int) int }; func d(a int) int { return a * 2 }; func n(a int) int { return -a }; h := &H{F: d}; func use(h *H) int { s := 0; for i := 1; i < 4; i++ { s = s*10 + h.F(i); h.F = n }; return s }; r := use(h); r`,
	// spread calls through methods reached as attributes of locals
	`type A struct { B int }; func (a *A) Sum(xs ...int) int { t := a.B; for _, x := range xs { t += x }; return t*100 + len(xs) }; func via(a *A, xs []int) int { return a.Sum(xs...) }; g := &A{B: 1}; xs := []int{4, 5, 6}; r := []int{g.Sum(xs...), via(g, xs), via(g, nil), g.Sum(1, 2, 3), via(g, xs[:1])}; r`,
	// chains of constant additions: float64 addition is not associative; integers settle after repeated rewriting
	`func f(x float64) float64 { return x + 1 + 2 }; func g(x float64) float64 { x = x + 1 + 1; return x - 1 - 1 }; r := []float64{f(1e16), g(9007199254740992.0), f(0.1) - 3, g(0.1)}; r`,
	`func f(n int) int { n = n + 1 + 2; n = n - 1 - 1 + 5; if n > 3 { n = n + 2 + 3 }; return n }; func g(b byte) byte { b = b + 200 + 100; return b + 1 + 1 }; r := []int{f(1), f(40), int(g(7))}; r`,
	`x := 1e16; y := x + 1 + 2; z := 0.1 + 1 - 1; w := 9007199254740992.0 + 1 + 1; []float64{y, z, w}`,
	`func f(a int, b int) int { return a / b }; r := f(7, 0); r`,
	`func f(a int8, b int8) int8 { c := a - b; c++; c = c + 1; c = c - 3; return c * a }; r := f(100, -100); r`,
	`func f(s []int) int { s[0] = s[1]; s[2] += 5; return s[3] }; r := f([]int{1,2,3}); r`,
	`func f(m map[string]int) int { m["a"] = m["b"]; m["c"]++; return m["a"] + m["zz"] }; r := f(map[string]int{"b": 2}); r`,
	`type T struct { X int; N *T }; func (t *T) Get() int { return t.X }; func f(t *T) int { t.X = t.X + 1; t.X += 2; return t.Get() + t.N.X }; r := f(&T{X: 1}); r`,
	`type T struct { X int }; func (t *T) Add(a int) int { t.X += a; return t.X }; func f(t *T) int { x := t.Add(2); y := t.Add(3); return x * y }; r := f(&T{}); r`,
	`func g(a int) int { return a * 2 }; func f(a int) int { b := g(a); c := g(b) + g(a); return c }; r := f(3); r`,
	`func f(b byte) byte { b = b + 1; b += 255; b++; x := b - 1; return x }; r := f(255); t := __type(r); r; t`,
	`t := __type(2+3); t`,
	`func f() int { x := 0; for i := 0; i < 10; i++ { if i == 3 { continue }; if i > 6 { break }; x = x + i }; return x }; r := f(); r`,
	`func f(a float64, b float64) float64 { return a / b - a * b + a }; r := f(1.5, 0.0); r`,
	`func f(s string) int { n := 0; for i, c := range s { n = n + i * int(c) }; return n }; r := f("héllo"); r`,
	`func f(a []int) []int { b := a[1:]; b[0] = 9; a = append(a, 4); return a }; r := f([]int{1,2,3}); r`,
	`func f(a uint32, n uint32) uint32 { a = a - 1; a = a >> n; a--; return a }; r := f(0, 1); r`,
	`func f(p *T) int { return p.X }; type T struct { X int }; var q *T; r := f(q); r`,
	"func boom(a int, b int) int {\n\tz := 0\n\treturn a / z\n}\nfunc f(n int) int {\n\treturn boom(\n\t\tn,\n\t\t2)\n}\nx := f(\n\t3)\n",
	"type T struct { N int }\nfunc (t *T) M(a int,\n\tb int) int {\n\tvar p *T\n\treturn p.N + a + b\n}\nfunc g(t *T) int {\n\treturn t.M(\n\t\t1,\n\t\t2)\n}\ny := g(&T{})\n",
	`func f() int { m := map[uint32]int{}; m[4000000000] = 7; m[1] = m[4000000000] + 1; var k uint32 = 4000000000; return m[k]*100 + m[1] }; r := f(); r`,
	`func f() int { m := map[float64]int{}; m[3000000000] = 7; k := 3000000000.0; return m[k] + m[3000000000] }; r := f(); r`,
	`func f(a int) int { switch a { case 1, 2: a = a + 10; case 3: a--; default: a = a * a }; return a }; x := f(1); y := f(3); z := f(5); x; y; z`,
}

func runC02(r *core.Run) {
	r.SetRule("each case runs twice on fresh VMs, optimizer off (reference) and on: generated programs of every profile (Load + Call main.main), operator/literal mutations of them, hand-written locals-heavy snippets, a table of x OP literal / literal OP x / x OP= literal functions per numeric type over boundary operands (the identities a strength reduction would use), stores of untyped constants into typed elements through every storage form, concatenations of string literals next to literals spelled like their value, failing operations whose parts stand on different lines, histories in which one VM compiles twice (a later Eval or a second Load that declares a constant, function or type again) and every string literal of /repo/*_test.go (harvested at run time) as Eval input. non-trivial = executed at least one instruction and at least one fused opcode in the optimized run; distinct by source text")
	r.Assume("the unoptimized compilation (one instruction per tree node) is the reference semantics; differences the two modes share are C01's business")
	perProfile := r.N(60, 1500)
	nm := 1 // mutants per program
	if r.Thorough() {
		nm = 2
	}
	nGen := len(gen.Profiles) * perProfile
	// generated programs and their mutants are produced inside the workers (not kept)
	core.Parallel(nGen, func(i int) {
		prof := gen.Profiles[i/perProfile]
		rng := core.Derive(r.Seed, "c02-"+prof, i%perProfile)
		p := gen.Generate(rng, i, prof)
		c02Decide(r, i, c02Case{Kind: "program", Files: p.Files, Main: p.MainDir}, nil, i%211 == 0)
		for k := 0; k < nm; k++ {
			files := map[string]string{}
			for f, s := range p.Files {
				files[f] = s
			}
			main := p.MainDir + "/main.go"
			files[main] = mutate(rng, files[main], 1+rng.Intn(4))
			c02Decide(r, i, c02Case{Kind: "program", Files: files, Main: p.MainDir}, nil, false)
		}
	})
	r.Count("generated_programs", nGen)
	r.Count("mutants_of_generated_programs", nGen*nm)
	var cases []c02Case
	for _, s := range sentinelPrograms(nGen) {
		cases = append(cases, c02Case{Kind: "program", Files: s.Files, Main: s.MainDir})
	}
	for _, s := range c02Snippets {
		cases = append(cases, c02Case{Kind: "eval", Src: s})
	}
	alg := c02AlgebraSnippets()
	for _, s := range alg {
		cases = append(cases, c02Case{Kind: "eval", Src: s, Tag: "operator_x_literal"})
	}
	r.Count("operator_x_literal_snippets", len(alg))
	st := c02StoreSnippets()
	for _, s := range st {
		cases = append(cases, c02Case{Kind: "eval", Src: s, Tag: "constant_store"})
	}
	r.Count("constant_store_snippets", len(st))
	for _, s := range c02LiteralSnippets() {
		cases = append(cases, c02Case{Kind: "eval", Src: s, Tag: "literal_lookalikes"})
	}
	for _, s := range c02SplitCallSnippets() {
		cases = append(cases, c02Case{Kind: "eval", Src: s})
	}
	hs := c02Histories()
	cases = append(cases, hs...)
	r.Count("histories_on_one_vm", len(hs))
	harvested := harvestTestStrings()
	for _, s := range harvested {
		cases = append(cases, c02Case{Kind: "eval", Src: s})
	}
	r.Count("harvested_test_strings", len(harvested))
	if len(harvested) == 0 {
		fmt.Fprintln(os.Stderr, "warning: no test strings harvested from /repo")
	}
	core.Parallel(len(cases), func(i int) {
		c02Decide(r, nGen+i, cases[i], nil, i%211 == 0)
	})
	var never []string
	for _, f := range fusedOps {
		if r.Counter("executed:"+f) == 0 {
			never = append(never, f)
		}
	}
	r.SetObserved("fused_opcodes_never_executed", never)
	if len(never) > 0 {
		r.Inconclusive("some_fused_opcodes_never_executed")
	}
}

func replayC02(r *core.Run, v *core.Violation) {
	var c c02Case
	if err := remarshal(v.Case, &c); err != nil {
		return
	}
	c02Decide(r, v.Index, c, nil, false)
}
