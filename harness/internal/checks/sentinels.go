package checks

import (
	"fmt"

	"verif/internal/gen"
)

// sentinelPrograms are hand-written programs pinning the defects named in the
// properties and those repaired in /repo (see known_findings.json). They are
// ordinary cases for the differential oracle: nothing about their expected
// output is written here.
func sentinelPrograms(firstID int) []*gen.Program {
	srcs := []string{
		// F01 precedence of << >> & | ^
		`package main

import "fmt"

func main() {
	a, b, c := 6, 1, 3
	fmt.Println(1<<3-1, a|b+c, a&b<<c, a^b*c, a>>1+c, a+b<<c, a|b&c, a&^b+c)
}
`,
		// F02/F03 b++ on a byte, typed declarations
		`package main

import "fmt"

func main() {
	var b byte = 255
	b++
	var u uint32 = 0
	u--
	var i int8 = 127
	i++
	var x uint32 = 1
	x -= 2
	var y int8 = -128
	y--
	fmt.Println(b, u, i, x, y)
	for j := 0; j < 3; j = j + 1 {
		fmt.Println(j)
	}
}
`,
		// F07 break in default, F20 multi-value case
		`package main

import "fmt"

func main() {
	for i := 0; i < 6; i++ {
		switch i {
		case 1, 3:
			fmt.Println("odd", i)
		case 4:
			if i > 3 {
				break
			}
			fmt.Println("never")
		default:
			if i == 2 {
				break
			}
			fmt.Println("default", i)
		}
		fmt.Println("after", i)
	}
}
`,
		// F08/F09 scoping
		`package main

import "fmt"

var x = 1

func f() int {
	if true {
		x := 2
		if true {
			x := 3
			_ = x
		}
		_ = x
	}
	return x
}

func main() {
	for i := 0; i < 3; i++ {
		i := 10
		i++
		fmt.Println(i)
	}
	for k, v := range []int{5, 6} {
		k := k * 100
		v := v + k
		fmt.Println(k, v)
	}
	fmt.Println(f(), x)
}
`,
		// F11 return append, F12-F14 strings
		`package main

import "fmt"

func add(a []int, b int) []int {
	return append(a, b)
}

func main() {
	fmt.Println(add([]int{1}, 2))
	s := "héllo, 世界"
	for i, r := range s {
		fmt.Println(i, r, string(r))
	}
	fmt.Println(s[1], s[1]+200, '\'', '\\', "\x41\101é")
}
`,
		// F16-F18 statement headers, F19 negative bound, F21 Sprintf, F22 shifts, F26 constants
		`package main

import "fmt"

var n = 0

func inc() int {
	n++
	return n
}

func ok(a int) bool { return a > 1 }

const k = 200
const (
	c0 = iota
	c1
	c2
)

func main() {
	for inc(); n < 3; inc() {
	}
	if inc(); n > 0 {
		fmt.Println("n", n)
	}
	switch {
	case ok(n):
		fmt.Println("ok")
	}
	var u uint32 = 4000000000
	sh := 1
	var b byte = k
	b += 100
	b += c2
	fmt.Println(u>>sh, b, fmt.Sprintf("%d %5.2f %x %q %c", n, 1.5, 255, "s", 65))
	s := []int{1, 2, 3}
	j := -1
	fmt.Println(s[0:j])
}
`,
		// F44 methods called on nil struct references
		`package main

import "fmt"

type Node struct {
	V    int
	Next *Node
}

func (n *Node) Len() int {
	if n == nil {
		return 0
	}
	return 1 + n.Next.Len()
}

func (n *Node) Hello() string {
	return "hello"
}

func (n *Node) Sum() int {
	s := 0
	for n != nil {
		s += n.V
		n = n.Next
	}
	return s
}

func (n *Node) Zero() int {
	if n == nil {
		return 40
	}
	return 1
}

func (n *Node) Deep() int {
	if n == nil {
		return n.Zero() + n.Len() + 1
	}
	return n.Next.Deep() + 100
}

func (n *Node) Self() *Node {
	return n
}

func main() {
	var p *Node
	fmt.Println(p.Deep(), p.Self().Zero(), p.Self().Self().Len())
	d := p.Deep
	q := p.Self()
	fmt.Println(d(), q.Zero(), (&Node{V: 1}).Deep())
	fmt.Println(p.Len(), p.Hello(), p.Sum())
	l := &Node{V: 1, Next: &Node{V: 2}}
	fmt.Println(l.Len(), l.Sum(), l.Next.Next.Len(), l.Next.Next.Hello())
	f := p.Len
	fmt.Println(f())
}
`,
		// F53: nil assigned to a method's receiver is a nil of the receiver's type; F54: scalars held by any are not nil;
		// F57: nil on the left of a comparison; F58: typed declarations with a nil initialiser
		`package main

import "fmt"

type Node struct {
	val  int
	next *Node
}

func (n *Node) Count() int {
	if n == nil {
		return 0
	}
	return 1 + n.next.Count()
}

func (n *Node) Clear() int {
	n = nil
	return n.Count()
}

func (n *Node) Drop() *Node {
	if n.val > 0 {
		n = n.next
	}
	if nil == n {
		return nil
	}
	return n
}

func main() {
	h := &Node{val: 1, next: &Node{val: 2}}
	fmt.Println(h.Count(), h.Clear(), h.next.Drop() == nil, h.Drop().val)
	var a any = "x"
	var z any = 0
	var f any = false
	fmt.Println(a == nil, z == nil, f == nil, nil == a, nil != z)
	var s []float64 = nil
	var m map[string]int
	var p *Node = nil
	s = append(s, 1)
	fmt.Println(s[0]/2, nil == m, p.Count(), nil == p, -010, 5 - 0x10)
}
`,
	}
	var res []*gen.Program
	for i, src := range srcs {
		id := firstID + i
		dir := fmt.Sprintf("ref/c%06d/cmd%06d", id, id)
		res = append(res, &gen.Program{Files: map[string]string{dir + "/main.go": src}, MainDir: dir, Profile: "sentinel"})
	}
	return res
}

type kfProgram struct {
	id   string
	prog *gen.Program
}

// knownFindingPrograms witness defects that are recorded in
// known_findings.json rather than repaired.
func knownFindingPrograms(firstID int) []kfProgram {
	srcs := []struct{ id, src string }{
		// K02: no automatic semicolon insertion - a statement that begins with '(' continues the previous line
		{"K02", `package main

import "fmt"

type T struct {
	N int
}

func (t *T) Show() {
	fmt.Println("T", t.N)
}

func main() {
	n := 4
	(&T{N: n}).Show()
	fmt.Println(n)
}
`},
		// K03: an index expression with side effects is evaluated twice in a compound assignment
		{"K03", `package main

import "fmt"

var calls = 0

func next() int {
	calls++
	return calls
}

func main() {
	m := map[int]int{}
	m[next()] += 10
	s := []int{0, 0, 0, 0}
	s[next()]++
	fmt.Println(m, s, calls)
}
`},
		// K10: keys in a slice literal are taken for elements
		{"K10", `package main

import "fmt"

func main() {
	k := []int{0: 1, 2: 5}
	fmt.Println(k, len(k))
}
`},
		// K11: the operands of index expressions on the left of a tuple assignment are evaluated after the assignment began
		{"K11", `package main

import "fmt"

func two() (int, int) {
	return 1, 2
}

func main() {
	xs := []int{0, 0, 0}
	i := 0
	xs[i], i = two()
	fmt.Println(xs, i)
}
`},
	}
	var res []kfProgram
	for i, k := range srcs {
		id := firstID + i
		dir := fmt.Sprintf("ref/c%06d/cmd%06d", id, id)
		res = append(res, kfProgram{k.id, &gen.Program{Files: map[string]string{dir + "/main.go": k.src}, MainDir: dir, Profile: "known-finding"}})
	}
	return res
}
