package checks

import (
	"fmt"
	"sort"
	"strings"
	"sync"

	"github.com/philhassey/goatlang"

	"verif/internal/core"
)

// C15 — packages initialise once each, dependencies first, for any import
// graph.
//
// Observed: the ordered log of marker calls made by top-level code and init
// functions during one Load / Eval (a native function records them). Oracle:
// an offline checker over that log — exactly once per reachable, included
// file; nothing from unreachable packages, _test.go files, files excluded by a
// build constraint or shadowed directories; every package's markers after
// those of the packages it imports. Cyclic graphs and conflicting package
// clauses must yield an error.

func init() { register("C15", &Check{Run: runC15, Replay: replayC15}) }

type c15File struct {
	Name     string   `json:"name"`
	Included bool     `json:"included"`
	Markers  []string `json:"markers"`
}

type c15Pkg struct {
	Name    string    `json:"name"`
	Import  string    `json:"import_path"`
	Dir     string    `json:"dir"`
	Deps    []int     `json:"deps"`
	Files   []c15File `json:"files"`
	Reached bool      `json:"reachable"`
}

type c15Case struct {
	Files  map[string]string `json:"files"`
	Pkgs   []c15Pkg          `json:"packages"`
	Entry  string            `json:"entry"`
	Mode   string            `json:"mode"` // load-pkg | load-file | eval
	Src    string            `json:"eval_src,omitempty"`
	Cyclic bool              `json:"must_fail"`
	Why    string            `json:"why_it_must_fail,omitempty"`
	// PreEval: the VM evaluated the entry's import once before, against an empty tree
	PreEval bool `json:"earlier_eval_against_an_empty_tree,omitempty"`
}

var c15Constraints = []struct {
	text string
	ok   bool
}{
	{"//go:build goat", true}, {"//go:build !goat", false}, {"//go:build ignore", false}, {"//go:build goat && !x", true},
	{"//go:build linux || goat", true}, {"//go:build !goat || windows", false}, {"//go:build (goat)", true}, {"//go:build !(goat && !ignore)", false},
	{"//go:build goat || ignore", true}, {"//go:build x && y", false},
}

func c15Gen(seed int64, idx int) c15Case {
	rng := core.Derive(seed, "c15", idx)
	n := rng.Range(1, 12)
	if rng.Chance(1, 60) {
		n = rng.Range(60, 80) // more packages than fit a machine word
	}
	c := c15Case{Files: map[string]string{}}
	pkgs := make([]c15Pkg, n)
	for i := range pkgs {
		p := &pkgs[i]
		p.Name = fmt.Sprintf("p%d", i)
		switch rng.Intn(3) {
		case 0:
			p.Import = "lib/" + p.Name
		case 1:
			p.Import = "example.com/x/" + p.Name
		default:
			p.Import = p.Name
		}
		if i > 0 && rng.Chance(1, 6) {
			// a package below another package's import path: wherever the parent is placed, the directory named by
			// the parent's full path may exist and hold nothing but this sub-package
			p.Import = pkgs[rng.Intn(i)].Import + "/" + p.Name
		}
		// dependencies only on lower-numbered packages: acyclic
		for j := 0; j < i; j++ {
			if rng.Chance(1, 3) && len(p.Deps) < 4 {
				p.Deps = append(p.Deps, j)
			}
		}
		if i > 0 && len(p.Deps) == 0 && rng.Chance(2, 3) {
			p.Deps = []int{rng.Intn(i)}
		}
		if n >= 60 && i > 0 {
			// the large graphs are reachable as a whole: every package also imports its predecessor
			has := false
			for _, d := range p.Deps {
				has = has || d == i-1
			}
			if !has {
				p.Deps = append(p.Deps, i-1)
			}
		}
	}
	entry := n - 1
	// reachability
	var visit func(i int)
	visit = func(i int) {
		if pkgs[i].Reached {
			return
		}
		pkgs[i].Reached = true
		for _, d := range pkgs[i].Deps {
			visit(d)
		}
	}
	visit(entry)
	for i := range pkgs {
		p := &pkgs[i]
		// placement: full path, under vendor/, or a shortened suffix of the path
		parts := strings.Split(p.Import, "/")
		place := rng.Intn(4)
		if i == entry {
			place = 3 // the entry is addressed by its directory
		}
		switch place {
		case 0:
			p.Dir = "vendor/" + p.Import
			if rng.Bool() {
				// a lower-priority decoy at the plain path must be ignored
				c.Files[p.Import+"/decoy.go"] = fmt.Sprintf("package %s\n\nvar _ = mark(\"DECOY %s\")\n", p.Name, p.Name)
			}
		case 1:
			p.Dir = strings.Join(parts[rng.Intn(len(parts)):], "/")
		default:
			p.Dir = p.Import
		}
		nf := rng.Range(1, 4)
		names := []string{"a.go", "b.go", "z_first.go", "a_last.go", "A.go", "a1.go", "a10.go", "a2.go", "main.go", p.Name + ".go", "_x.go", "0.go"}
		core.Shuffle(rng, names)
		// each dependency is imported by at least one file
		importers := make([][]int, nf)
		for _, d := range p.Deps {
			k := rng.Intn(nf)
			importers[k] = append(importers[k], d)
			if rng.Chance(1, 3) {
				k2 := rng.Intn(nf)
				if k2 != k {
					importers[k2] = append(importers[k2], d)
				}
			}
		}
		anyIncluded := false
		for f := 0; f < nf; f++ {
			file := c15File{Name: names[f], Included: true}
			var sb strings.Builder
			// build constraint (never on the file that must carry an import, so the graph stays as designed)
			if len(importers[f]) == 0 && rng.Chance(1, 3) && (anyIncluded || f < nf-1) {
				bc := core.Pick(rng, c15Constraints)
				switch rng.Intn(5) {
				case 0:
					sb.WriteString(bc.text + "\n\n")
				case 1:
					sb.WriteString("\n\n" + bc.text + "\n\n")
				case 2:
					// comments that mention words of the clauses below
					sb.WriteString("// Fallback tables for package " + p.Name + " (pure script); import nothing here.\n// func init is in the other file\n" + bc.text + "\n\n")
				case 3:
					sb.WriteString("// Copyright notice\n\n// package documentation follows the constraint\n\n" + bc.text + "\n\n// Package " + p.Name + " does things.\n")
				default:
					sb.WriteString("// Copyright notice\n// second line\n\n" + bc.text + "\n\n")
				}
				file.Included = bc.ok
			}
			if file.Included {
				anyIncluded = true
			}
			fmt.Fprintf(&sb, "package %s\n\n", p.Name)
			if len(importers[f]) > 0 {
				sb.WriteString("import (\n")
				for _, d := range importers[f] {
					switch rng.Intn(8) {
					case 6:
						// an import path may be written as a raw string
						fmt.Fprintf(&sb, "\t`%s`\n", pkgs[d].Import)
					case 7:
						fmt.Fprintf(&sb, "\t_ `%s`\n", pkgs[d].Import)
					case 0:
						fmt.Fprintf(&sb, "\tal%d %q\n", d, pkgs[d].Import)
					case 1:
						// imported for its side effects only: still loaded and initialised, with its own imports
						fmt.Fprintf(&sb, "\t_ %q\n", pkgs[d].Import)
					default:
						fmt.Fprintf(&sb, "\t%q\n", pkgs[d].Import)
					}
				}
				sb.WriteString(")\n\n")
			}
			nm := rng.Range(1, 3)
			for k := 0; k < nm; k++ {
				m := fmt.Sprintf("%s/%s/%d", p.Name, file.Name, k)
				if !file.Included {
					m = "EXCLUDED " + m
				} else {
					file.Markers = append(file.Markers, m)
				}
				fmt.Fprintf(&sb, "var V%d_%d = mark(%q)\n", f, k, m)
			}
			if rng.Chance(1, 3) {
				// top-level statements with block-scoped variables (loop, range, if-init, switch): they need
				// frame slots of their own at package level
				m := fmt.Sprintf("%s/%s/stmt", p.Name, file.Name)
				if !file.Included {
					m = "EXCLUDED " + m
				} else {
					file.Markers = append(file.Markers, m)
				}
				acc := fmt.Sprintf("Acc%d_%d", i, f)
				fmt.Fprintf(&sb, "var %s = 0\n", acc)
				for l := rng.Range(1, 4); l > 0; l-- {
					switch rng.Intn(3) {
					case 0:
						fmt.Fprintf(&sb, "for i := 0; i < 3; i++ {\n\tt := i * 2\n\t%s += t\n}\n", acc)
					case 1:
						fmt.Fprintf(&sb, "for k, w := range []int{5, 6} {\n\tkw := k * w\n\t%s += kw\n}\n", acc)
					default:
						fmt.Fprintf(&sb, "switch {\ncase %s > 1000000:\n\t%s = 0\ndefault:\n\ty := %s + 1\n\t%s = y\n}\n", acc, acc, acc, acc)
					}
				}
				fmt.Fprintf(&sb, "if v := %s; v >= 0 {\n\tmark(%q)\n}\n", acc, m)
			}
			if rng.Bool() {
				// the init function of this file uses a function and a variable declared in the file that sorts last:
				// all declarations and initialisers of a package are in place before its init functions run
				m := fmt.Sprintf("%s/%s/init", p.Name, file.Name)
				if !file.Included {
					m = "EXCLUDED " + m
				} else {
					file.Markers = append(file.Markers, m+"+")
				}
				fmt.Fprintf(&sb, "\nfunc init() {\n\tmark(%q + depF%d())\n}\n", m, i)
			}
			if !file.Included && rng.Bool() {
				// an excluded file is not read any further: it may hold Go that the script language does not have
				sb.WriteString(core.Pick(rng, []string{
					"\nfunc Sum[T ~int | ~float64](xs []T) T {\n\tvar t T\n\tfor _, x := range xs {\n\t\tt += x\n\t}\n\treturn t\n}\n",
					"\ntype Set[K comparable] map[K]struct{}\n\nfunc (s Set[K]) Has(k K) bool {\n\t_, ok := s[k]\n\treturn ok\n}\n",
					"\nfunc pump(c chan int, done <-chan struct{}) {\n\tfor {\n\t\tselect {\n\t\tcase c <- 1:\n\t\tcase <-done:\n\t\t\treturn\n\t\t}\n\t}\n}\n",
					"\nfunc retry() int {\n\tn := 0\nagain:\n\tn++\n\tif n < 3 {\n\t\tgoto again\n\t}\n\treturn n\n}\n",
				}))
			}
			if i == entry && f == 0 {
				sb.WriteString("\nfunc main() {\n}\n")
			}
			c.Files[p.Dir+"/"+file.Name] = sb.String()
			p.Files = append(p.Files, file)
		}
		c.Files[p.Dir+"/zz_dep.go"] = fmt.Sprintf("package %s\n\nvar depV%d = \"+\"\n\nfunc depF%d() string {\n\treturn depV%d\n}\n", p.Name, i, i, i)
		if rng.Chance(1, 3) {
			// one to three test files, some of them adjacent in the sorted directory listing
			tnames := []string{"a_test.go", "x_test.go", p.Name + "_test.go", "xa_test.go", "y_test.go", "a_b_test.go"}
			core.Shuffle(rng, tnames)
			for _, tn := range tnames[:rng.Range(1, 3)] {
				pk := p.Name
				if rng.Bool() {
					pk += "_test"
				}
				c.Files[p.Dir+"/"+tn] = fmt.Sprintf("package %s\n\nvar _ = mark(\"TEST %s\")\n\nfunc init() {\n\tmark(\"TEST init %s\")\n}\n", pk, p.Name, p.Name)
			}
		}
	}
	c.Pkgs = pkgs
	c.Entry = pkgs[entry].Import
	switch rng.Intn(5) {
	case 0:
		c.Mode = "eval"
		c.Src = fmt.Sprintf("import %q\nmark(\"EVAL done\")\n", c.Entry)
		c.PreEval = rng.Chance(1, 3)
	default:
		c.Mode = "load-pkg"
	}
	return c
}

// c15Cycles enumerates every digraph on n<=4 nodes (no self loops unless
// wanted) that contains a cycle reachable from node 0.
func c15Cycles() []c15Case {
	var res []c15Case
	for n := 1; n <= 4; n++ {
		edges := n * n
		for mask := 1; mask < 1<<uint(edges); mask++ {
			adj := make([][]int, n)
			for e := 0; e < edges; e++ {
				if mask>>uint(e)&1 == 1 {
					adj[e/n] = append(adj[e/n], e%n)
				}
			}
			if n == 4 && bitsSet(mask) > 5 {
				continue // keep the 4-node family to sparse graphs
			}
			if !c15HasReachableCycle(adj) {
				continue
			}
			c := c15Case{Files: map[string]string{}, Cyclic: true, Why: "import cycle", Mode: "load-pkg", Entry: "c0"}
			// every third graph also imports stock packages (more of them than there are script packages)
			natives := [][]string{nil, nil, {"fmt", "strings", "math", "strconv", "errors"}}[len(res)%3]
			for i := 0; i < n; i++ {
				var sb strings.Builder
				fmt.Fprintf(&sb, "package c%d\n\n", i)
				for _, j := range adj[i] {
					fmt.Fprintf(&sb, "import \"c%d\"\n", j)
				}
				for k, nat := range natives {
					if (k+i)%2 == 0 || i == 0 {
						fmt.Fprintf(&sb, "import \"%s\"\n", nat)
					}
				}
				fmt.Fprintf(&sb, "\nvar V = mark(\"c%d\")\n", i)
				if i == 0 {
					sb.WriteString("\nfunc main() {\n}\n")
				}
				c.Files[fmt.Sprintf("c%d/c%d.go", i, i)] = sb.String()
			}
			res = append(res, c)
		}
	}
	return res
}

func bitsSet(x int) int {
	n := 0
	for ; x > 0; x &= x - 1 {
		n++
	}
	return n
}

func c15HasReachableCycle(adj [][]int) bool {
	n := len(adj)
	state := make([]int, n)
	var dfs func(i int) bool
	dfs = func(i int) bool {
		state[i] = 1
		for _, j := range adj[i] {
			if state[j] == 1 {
				return true
			}
			if state[j] == 0 && dfs(j) {
				return true
			}
		}
		state[i] = 2
		return false
	}
	return dfs(0)
}

func c15Conflicts(rng *core.Rng) c15Case {
	c := c15Case{Files: map[string]string{}, Cyclic: true, Why: "conflicting package clauses", Mode: "load-pkg", Entry: "app"}
	c.Files["app/a.go"] = "package app\n\nimport \"dep\"\n\nvar V = mark(\"app\") + dep.X\n\nfunc main() {\n}\n"
	c.Files["dep/a.go"] = "package dep\n\nvar X = mark(\"dep a\")\n"
	c.Files["dep/b.go"] = "package other\n\nvar Y = mark(\"dep b\")\n"
	if rng.Bool() {
		// the conflict sits in the entry package itself
		c.Files["app/b.go"] = "package apple\n\nvar W = 1\n"
		delete(c.Files, "dep/b.go")
	}
	return c
}

func c15Run(c c15Case) (log []string, o core.Outcome) {
	var mu sync.Mutex
	m := core.NewMachine(core.VMOpts{Optimize: true, Obs: core.NewObs(core.SmallBudget, false, nil)})
	m.VM.Set("builtin.mark", goatlang.NewFunc(1, 1, func(vm *goatlang.VM, args []goatlang.Value) goatlang.Value {
		mu.Lock()
		log = append(log, args[0].String())
		mu.Unlock()
		return goatlang.Int(0)
	}))
	sys := core.MapFS(c.Files)
	switch c.Mode {
	case "eval":
		if c.PreEval {
			// the same VM evaluated the same import earlier against a tree in which the packages were not written yet
			// (the import then names nothing); what it finds now is what counts
			if pre := m.Eval(core.MapFS(map[string]string{}), fmt.Sprintf("import %q\n", c.Entry)); pre.Panic != "" {
				o = pre
				return log, o
			}
			log = nil
		}
		o = m.Eval(sys, c.Src)
	default:
		var err error
		if p := core.Guard(func() { err = m.VM.Load(sys, c.Entry) }); p != "" {
			o.Panic = p
		}
		if err != nil {
			o.Err = err.Error()
		}
	}
	return log, o
}

// c15Check is the offline checker over the marker log.
func c15Check(c c15Case, log []string, o core.Outcome) string {
	if o.Panic != "" {
		return "a Go panic escaped: " + o.Panic
	}
	if c.Cyclic {
		if o.Err == "" {
			return "loading succeeded although it must fail (" + c.Why + ")"
		}
		return ""
	}
	if o.Err != "" {
		return "loading an acyclic graph failed: " + core.ErrFirstLine(o.Err)
	}
	pos := map[string][]int{}
	for i, m := range log {
		pos[m] = append(pos[m], i)
		switch {
		case strings.HasPrefix(m, "EXCLUDED"):
			return "a file excluded by its //go:build constraint ran: " + m
		case strings.HasPrefix(m, "TEST"):
			return "a _test.go file ran: " + m
		case strings.HasPrefix(m, "DECOY"):
			return "a directory shadowed by vendor/ was loaded: " + m
		}
	}
	first := map[int]int{}
	last := map[int]int{}
	for i, p := range c.Pkgs {
		first[i], last[i] = 1<<30, -1
		for _, f := range p.Files {
			for _, m := range f.Markers {
				ps := pos[m]
				if !p.Reached {
					if len(ps) > 0 {
						return "package " + p.Name + " is not imported by anything reachable, but its code ran: " + m
					}
					continue
				}
				if len(ps) == 0 {
					return "top-level code / init of a reachable package did not run: " + m
				}
				if len(ps) > 1 {
					return fmt.Sprintf("marker %s ran %d times", m, len(ps))
				}
				if ps[0] < first[i] {
					first[i] = ps[0]
				}
				if ps[0] > last[i] {
					last[i] = ps[0]
				}
			}
		}
	}
	for i, p := range c.Pkgs {
		if !p.Reached || last[i] < 0 {
			continue
		}
		for _, d := range p.Deps {
			if last[d] >= 0 && last[d] > first[i] {
				return fmt.Sprintf("package %s ran code (log position %d) before its dependency %s had finished initialising (position %d)", p.Name, first[i], c.Pkgs[d].Name, last[d])
			}
		}
	}
	return ""
}

func runC15(r *core.Run) {
	r.SetRule("random acyclic import graphs of 1-12 packages (one in sixty of 60-80), packages whose import path lies below another package's path, (fan-out <= 4, diamonds, chains, unreachable packages), 1-4 files per package with sort-order trap names, per-file imports, aliases and blank imports, directories at the full import path / under vendor/ (optionally with a decoy at the plain path) / at a shortened suffix, //go:build lines of known truth (first line, after blank lines, after comment blocks that mention 'package', 'import' and 'func', before a package comment), 1-3 _test.go files incl. package x_test and adjacent ones; top-level statements with block-scoped variables (for, range, switch and if with init) in packages at every depth of the graph; entry through Load(package) or Eval with an import; plus every digraph on <= 3 nodes and every sparse digraph on 4 nodes with a cycle reachable from the entry, and conflicting package clauses. non-trivial = at least 2 packages ran markers (or the case must fail); distinct by file tree")
	r.Assume("only the partial order (dependencies before dependents), exactly-once and the exclusion rules are judged, not one particular topological order")
	n := r.N(3000, 120000)
	core.Parallel((n+99)/100, func(chunk int) {
		for i := chunk * 100; i < (chunk+1)*100 && i < n; i++ {
			c := c15Gen(r.Seed, i)
			log, o := c15Run(c)
			r.Eval(1)
			if what := c15Check(c, log, o); what != "" {
				r.Violate(core.Violation{Check: "c15", Index: i, What: what, Case: c, Observed: map[string]any{"marker_log": log, "outcome": o}})
				continue
			}
			reached := 0
			for _, p := range c.Pkgs {
				if p.Reached {
					reached++
				}
			}
			r.Count("markers_checked", len(log))
			r.Count("packages_initialised", reached)
			if reached >= 2 {
				r.Distinct(treeKey(c.Files))
			}
			if i%1501 == 0 {
				r.Sample(map[string]any{"entry": c.Entry, "mode": c.Mode, "packages": len(c.Pkgs), "marker_log": log})
			}
		}
	})
	cyc := c15Cycles()
	for k := 0; k < 20; k++ {
		cyc = append(cyc, c15Conflicts(core.Derive(r.Seed, "c15-conflict", k)))
	}
	r.Count("cyclic_or_conflicting_trees", len(cyc))
	core.Parallel(len(cyc), func(i int) {
		c := cyc[i]
		log, o := c15Run(c)
		r.Eval(1)
		if what := c15Check(c, log, o); what != "" {
			r.Violate(core.Violation{Check: "c15-cycle", Index: i, What: what, Case: c, Observed: o})
			return
		}
		r.Distinct(treeKey(c.Files))
	})
}

func treeKey(files map[string]string) string {
	var ks []string
	for k := range files {
		ks = append(ks, k)
	}
	sort.Strings(ks)
	var sb strings.Builder
	for _, k := range ks {
		sb.WriteString(k + "\x00" + files[k] + "\x00")
	}
	return sb.String()
}

func replayC15(r *core.Run, v *core.Violation) {
	var c c15Case
	if err := remarshal(v.Case, &c); err != nil {
		return
	}
	log, o := c15Run(c)
	fmt.Println("marker log:", log, "err:", o.Err)
	if what := c15Check(c, log, o); what != "" {
		r.Violate(core.Violation{Check: v.Check, What: what, Case: c})
	}
}
