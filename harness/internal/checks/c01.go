package checks

import (
	"fmt"
	"os"
	"strings"

	"verif/internal/core"
	"verif/internal/gen"
	"verif/internal/mon"
)

// C01 — subset programs run exactly as the Go toolchain runs them.
//
// Oracle: the Go toolchain itself with GOARCH=386 (int is 32 bit) on the
// identical source files. Observed: stdout and success/failure of Load +
// Call main.main.

func init() { register("C01", &Check{Run: runC01, Replay: replayC01}) }

type progCase struct {
	Prog *gen.Program `json:"program"`
}

// runGoat loads the program and calls main.main with the given optimizer
// setting; m may carry a trace monitor.
func runGoat(p *gen.Program, optimize bool, hist bool, inner *mon.Monitor) (core.Outcome, *core.Obs) {
	var obs *core.Obs
	if inner != nil {
		obs = core.NewObs(core.DefaultBudget, hist, inner)
	} else {
		obs = core.NewObs(core.DefaultBudget, hist, nil)
	}
	m := core.NewMachine(core.VMOpts{Optimize: optimize, Obs: obs})
	o := m.LoadMain(core.MapFS(p.Files), p.MainDir)
	return o, obs
}

// compareWithGo decides one program. Returns "" if the property held, else a
// description.
func compareWithGo(ref core.RefResult, o core.Outcome) string {
	if o.Panic != "" {
		return "a Go panic escaped Load/Call: " + o.Panic
	}
	if ref.Panicked || ref.Exit != 0 {
		// Go died with a run-time panic: same output prefix, then an error
		if o.Err == "" {
			return "Go panics at run time but goatlang reports success"
		}
		if o.Out != ref.Out {
			return "output before the run-time panic differs"
		}
		return ""
	}
	if o.Err != "" {
		return "goatlang fails where Go succeeds: " + core.ErrFirstLine(o.Err)
	}
	if o.Out != ref.Out {
		return "printed output differs from Go's"
	}
	return ""
}

func firstDiff(a, b string) map[string]any {
	la, lb := strings.Split(a, "\n"), strings.Split(b, "\n")
	for i := 0; i < len(la) || i < len(lb); i++ {
		var x, y string
		if i < len(la) {
			x = la[i]
		}
		if i < len(lb) {
			y = lb[i]
		}
		if x != y {
			return map[string]any{"line": i + 1, "go": x, "goatlang": y}
		}
	}
	return nil
}

// c01InitOrderProgram: several packages that all import fmt only (besides each other), each printing while it is
// initialised. Since Go 1.21 the order is fixed: packages sorted by import path, repeatedly the first one whose
// imports are all initialised.
func c01InitOrderProgram(rng *core.Rng, id int) *gen.Program {
	root := fmt.Sprintf("ref/i%06d", id)
	dir := fmt.Sprintf("%s/cmd%06d", root, id)
	names := []string{"a", "b", "c", "d", "lib/e", "lib/a", "m", "z", "app/q", "k/k2"}
	core.Shuffle(rng, names)
	n := rng.Range(3, 7)
	names = names[:n]
	files := map[string]string{}
	deps := make([][]int, n)
	for i := range names {
		for j := 0; j < i; j++ {
			if rng.Chance(1, 3) {
				deps[i] = append(deps[i], j)
			}
		}
	}
	pkgName := func(p string) string { return p[strings.LastIndex(p, "/")+1:] }
	for i, p := range names {
		var sb strings.Builder
		fmt.Fprintf(&sb, "package %s\n\nimport (\n\t\"fmt\"\n", pkgName(p))
		for _, d := range deps[i] {
			fmt.Fprintf(&sb, "\tp%d %q\n", d, root+"/"+names[d])
		}
		sb.WriteString(")\n\n")
		fmt.Fprintf(&sb, "var V = note(%q)\n\nfunc note(s string) int {\n\tfmt.Println(s)\n\treturn %d\n}\n\n", "var "+p, i+1)
		fmt.Fprintf(&sb, "func init() {\n\tfmt.Println(%q, V", "init "+p)
		for _, d := range deps[i] {
			fmt.Fprintf(&sb, ", p%d.V", d)
		}
		sb.WriteString(")\n}\n")
		files[root+"/"+p+"/"+pkgName(p)+".go"] = sb.String()
	}
	var sb strings.Builder
	sb.WriteString("package main\n\nimport (\n\t\"fmt\"\n")
	for i, p := range names {
		fmt.Fprintf(&sb, "\tp%d %q\n", i, root+"/"+p)
	}
	sb.WriteString(")\n\nfunc main() {\n\tfmt.Println(\"main\"")
	for i := range names {
		fmt.Fprintf(&sb, ", p%d.V", i)
	}
	sb.WriteString(")\n}\n")
	files[dir+"/main.go"] = sb.String()
	return &gen.Program{Files: files, MainDir: dir, Profile: "init-order"}
}

func runC01(r *core.Run) {
	r.SetRule("typed-AST program generator, 8 profiles (arith, ctrl, scope, calls, coll, objs, pkgs, stdlib) plus hand-written sentinel programs wide-frame programs (functions with 100-300 locals) and initialisation-order programs (3-7 packages importing fmt and each other, each printing while it is initialised); the same files are compiled by go build GOARCH=386 and loaded by goatlang. non-trivial = accepted by the Go compiler, ran to completion (or to a planted panic) and printed at least 3 lines; distinct by source text")
	r.Assume("the Go toolchain (GOARCH=386) is the definition of Go semantics with a 32-bit int; map iteration order, out-of-range float->int conversions and struct-reference printing are kept unobservable by the generator (Go leaves them unspecified / C14 defines them differently)")
	perProfile := r.N(120, 2500)
	var progs []*gen.Program
	id := 0
	for _, prof := range gen.Profiles {
		for i := 0; i < perProfile; i++ {
			rng := core.Derive(r.Seed, "c01-"+prof, i)
			progs = append(progs, gen.Generate(rng, id, prof))
			id++
		}
	}
	for _, s := range sentinelPrograms(id) {
		progs = append(progs, s)
		id++
	}
	// wide frames: 100-300 locals per function (slot numbers beyond 7 and 8 bits, beyond the number of globals)
	for i := 0; i < r.N(10, 150); i++ {
		progs = append(progs, c07WideProgram(core.Derive(r.Seed, "c01-wide", i), id))
		id++
	}
	// initialisation order of independent packages (fixed by Go since 1.21 when all of them import the same standard packages)
	for i := 0; i < r.N(60, 1000); i++ {
		progs = append(progs, c01InitOrderProgram(core.Derive(r.Seed, "c01-init", i), id))
		id++
	}
	// programs that witness recorded (open) findings: a mismatch on exactly these is reported as
	// KNOWN-FINDING, never as a violation; when they stop failing nothing is printed
	kfFirst := id
	kfIDs := []string{}
	for _, k := range knownFindingPrograms(id) {
		progs = append(progs, k.prog)
		kfIDs = append(kfIDs, k.id)
		id++
	}
	decidePrograms(r, "c01", progs, func(idx int, p *gen.Program, ref core.RefResult) {
		o, _ := runGoat(p, true, false, nil)
		if o.Budget {
			r.Inconclusive("vm_budget")
			return
		}
		if what := compareWithGo(ref, o); what != "" {
			if idx >= kfFirst && idx-kfFirst < len(kfIDs) && r.Findings().Open(kfIDs[idx-kfFirst]) {
				r.KnownFinding(kfIDs[idx-kfFirst])
				return
			}
			r.Violate(core.Violation{Check: "c01", Index: idx, What: what, Case: progCase{p},
				Expected: map[string]any{"stdout": ref.Out, "exit": ref.Exit, "stderr": ref.Stderr}, Observed: o, Extra: firstDiff(ref.Out, o.Out)})
			return
		}
		if strings.Count(ref.Out, "\n") >= 3 {
			r.Distinct(p.Source())
		}
		r.Count("profile:"+p.Profile, 1)
		if ref.Panicked {
			r.Count("programs_ending_in_a_go_panic", 1)
		}
		r.Count("output_lines_compared", strings.Count(ref.Out, "\n"))
		if idx%97 == 0 {
			r.Sample(map[string]any{"profile": p.Profile, "source_excerpt": excerpt(p.Files[p.MainDir+"/main.go"], 40), "stdout_excerpt": excerpt(ref.Out, 8)})
		}
	})
}

func excerpt(s string, lines int) string {
	ls := strings.Split(s, "\n")
	if len(ls) > lines {
		ls = append(ls[:lines], "...")
	}
	return strings.Join(ls, "\n")
}

// decidePrograms runs the Go/386 reference for all programs in batches and
// calls f for every program Go accepted.
func decidePrograms(r *core.Run, check string, progs []*gen.Program, f func(idx int, p *gen.Program, ref core.RefResult)) {
	const batch = 400
	rejected := 0
	for lo := 0; lo < len(progs); lo += batch {
		hi := lo + batch
		if hi > len(progs) {
			hi = len(progs)
		}
		cases := make([]core.RefCase, hi-lo)
		for i, p := range progs[lo:hi] {
			cases[i] = core.RefCase{Files: p.Files, MainDir: p.MainDir}
		}
		refs, err := core.RunRef(cases)
		if err != nil {
			fmt.Fprintln(os.Stderr, "reference executor:", err)
			r.Inconclusive("reference_executor_failed")
			continue
		}
		core.Parallel(hi-lo, func(i int) {
			ref := refs[i]
			r.Eval(1)
			if ref.Rejected {
				r.Count("rejected_by_go", 1)
				r.NoteReject(progs[lo+i].Profile + ": " + firstLine(ref.RejectMsg))
				return
			}
			if ref.TimedOut {
				r.Inconclusive("reference_timeout")
				if dbg := os.Getenv("VERIF_DEBUG"); dbg != "" {
					os.WriteFile(dbg+"/timeout_"+fmt.Sprint(lo+i)+".go.txt", []byte(progs[lo+i].Source()), 0o644)
				}
				return
			}
			f(lo+i, progs[lo+i], ref)
		})
	}
	rejected = r.Counter("rejected_by_go")
	if rejected*20 > len(progs) {
		// more than 5% generator slips: the run says little; never a violation
		r.Inconclusive("too_many_programs_rejected_by_go")
		r.TooManyRejects = true
	}
}

func firstLine(s string) string {
	if i := strings.IndexByte(s, '\n'); i >= 0 {
		return s[:i]
	}
	return s
}

func replayC01(r *core.Run, v *core.Violation) {
	var pc progCase
	if err := remarshal(v.Case, &pc); err != nil || pc.Prog == nil {
		fmt.Println("cannot read the recorded program")
		return
	}
	decidePrograms(r, "c01", []*gen.Program{pc.Prog}, func(idx int, p *gen.Program, ref core.RefResult) {
		o, _ := runGoat(p, true, false, nil)
		fmt.Printf("--- go stdout ---\n%s--- goatlang stdout ---\n%s--- goatlang err: %s\n", ref.Out, o.Out, o.Err)
		if what := compareWithGo(ref, o); what != "" {
			r.Violate(core.Violation{Check: "c01", What: what, Case: pc, Extra: firstDiff(ref.Out, o.Out)})
		}
	})
}
