package checks

import (
	"fmt"
	"strings"

	"verif/internal/core"
)

// C08 — names resolve by Go's lexical block scoping.
//
// Oracle: the Go toolchain (GOARCH=386) on the same scope-tree functions.
// Observed: the values every emit() prints (all names, after every
// declaration, assignment and block end).

func init() { register("C08", &Check{Run: runC08, Replay: replayC08}) }

const c08Prelude = `package main

import "fmt"

var x = 100
var y = 200

func emit(tag int, a int, b int) {
	fmt.Println(tag, a, b)
}

func emitf(tag int, v float64) {
	fmt.Println(tag, v)
}

func bump(v int) int {
	return v + 1000
}

func hdr(id string) {
	fmt.Println("==", id)
	x = 100
	y = 200
}

`

type scGen struct {
	r      *core.Rng
	sb     strings.Builder
	tag    int
	k      int
	scopes []map[string]bool // names declared per open scope
	loops  int
	budget int
	uid    int
}

func (g *scGen) line(ind int, f string, a ...any) {
	g.sb.WriteString(strings.Repeat("\t", ind))
	fmt.Fprintf(&g.sb, f, a...)
	g.sb.WriteByte('\n')
}

func (g *scGen) K() int               { g.k++; return g.k*7 + 1 }
func (g *scGen) push()                { g.scopes = append(g.scopes, map[string]bool{}) }
func (g *scGen) pop()                 { g.scopes = g.scopes[:len(g.scopes)-1] }
func (g *scGen) cur() map[string]bool { return g.scopes[len(g.scopes)-1] }
func (g *scGen) name() string         { return core.Pick(g.r, []string{"x", "y"}) }
func (g *scGen) emit(ind int) {
	g.tag++
	g.line(ind, "emit(%d, x, y)", g.tag)
}

// typedSegment: a name declared again in an inner block with another type than the loop variable, init
// variable or parameter of that name. The new variable is a new variable: it takes its type from its own
// initialiser (shown by arithmetic whose result depends on the type), and the outer one is untouched.
func (g *scGen) typedSegment(ind int) {
	n := core.Pick(g.r, []string{"x", "y", "v"})
	g.tag++
	t := g.tag
	switch g.r.Intn(11) {
	case 8:
		// a constant declared in a block is a new entity there; the outer variable of that name is untouched
		o := core.Pick(g.r, []string{"x", "y"})
		g.line(ind, "if bump(0) > 0 {")
		g.line(ind+1, "const %s = %d", o, g.r.Range(3, 9))
		g.line(ind+1, "emit(%d, %s, %s*2)", t, o, o)
		g.line(ind, "}")
	case 9:
		o := core.Pick(g.r, []string{"x", "y"})
		g.line(ind, "for i := 0; i < 2; i++ {")
		g.line(ind+1, "const %s = \"k\"", o)
		g.line(ind+1, "emit(%d, len(%s), i)", t, o)
		g.line(ind, "}")
	case 10:
		o := core.Pick(g.r, []string{"x", "y"})
		g.line(ind, "switch {")
		g.line(ind, "case bump(1) > 0:")
		g.line(ind+1, "const %s = 2.5", o)
		g.line(ind+1, "emitf(%d, %s*2)", t, o)
		g.line(ind, "default:")
		g.line(ind+1, "emit(%d, x, y)", t)
		g.line(ind, "}")
	case 0:
		g.line(ind, "for _, %s := range []float64{1.5, 2.5} {", n)
		g.line(ind+1, "emitf(%d, %s)", t, n)
		g.line(ind+1, "%s := %d", n, g.r.Range(5, 9))
		g.line(ind+1, "emit(%d, %s/4, %s%%4)", t, n, n)
		g.line(ind, "}")
	case 1:
		g.line(ind, "for _, %s := range []byte{250, 251} {", n)
		g.line(ind+1, "emit(%d, int(%s), 0)", t, n)
		g.line(ind+1, "%s := 300", n)
		g.line(ind+1, "%s += 20", n)
		g.line(ind+1, "emit(%d, %s, %s+%s)", t, n, n, n)
		g.line(ind, "}")
	case 2:
		g.line(ind, "for %s := 0.5; %s < 2; %s++ {", n, n, n)
		g.line(ind+1, "%s := 7", n)
		g.line(ind+1, "emit(%d, %s/2, %s*3/2)", t, n, n)
		g.line(ind, "}")
	case 3:
		g.line(ind, "if %s := 2.5; %s > %d {", n, n, g.r.Range(1, 3))
		g.line(ind+1, "%s := 7", n)
		g.line(ind+1, "emit(%d, %s/2, 1)", t, n)
		g.line(ind, "} else {")
		g.line(ind+1, "%s := 9", n)
		g.line(ind+1, "emit(%d, %s/2, 2)", t, n)
		g.line(ind, "}")
	case 4:
		g.line(ind, "func(%s float64) {", n)
		g.line(ind+1, "if %s > 1 {", n)
		g.line(ind+2, "%s := 9", n)
		g.line(ind+2, "emit(%d, %s/2, 0)", t, n)
		g.line(ind+1, "}")
		g.line(ind+1, "emitf(%d, %s/2)", t, n)
		g.line(ind, "}(3)")
	case 5:
		g.line(ind, "for %s := range []int{4, 5} {", n)
		g.line(ind+1, "emit(%d, %s, 0)", t, n)
		g.line(ind+1, "%s := 2.5", n)
		g.line(ind+1, "emitf(%d, %s*3)", t, n)
		g.line(ind, "}")
	case 6:
		g.line(ind, "for _, %s := range []uint32{4000000000} {", n)
		g.line(ind+1, "if %s > 5 {", n)
		g.line(ind+2, "%s := 2000000000", n)
		g.line(ind+2, "%s += 100000000", n)
		g.line(ind+2, "emit(%d, %s, %s/3)", t, n, n)
		g.line(ind+1, "}")
		g.line(ind, "}")
	default:
		g.line(ind, "for _, %s := range []string{\"ab\", \"c\"} {", n)
		g.line(ind+1, "%s := len(%s) * 10", n, n)
		g.line(ind+1, "emit(%d, %s, %s/4)", t, n, n)
		g.line(ind, "}")
	}
}

func (g *scGen) block(ind, depth int) {
	n := g.r.Range(1, 4)
	for i := 0; i < n && g.budget > 0; i++ {
		g.action(ind, depth)
	}
}

func (g *scGen) action(ind, depth int) {
	g.budget--
	choice := g.r.Intn(20)
	if depth >= 5 && choice >= 9 {
		choice = g.r.Intn(9)
	}
	switch {
	case choice < 3: // n := K (new or shadowing); same-scope redeclaration is plain assignment
		n := g.name()
		if g.cur()[n] {
			g.line(ind, "%s = %d", n, g.K())
		} else {
			switch g.r.Intn(4) {
			case 0:
				g.line(ind, "var %s int = %d", n, g.K())
			case 1:
				g.line(ind, "var %s int", n)
			case 2:
				// initialiser reads the outer binding of the same name
				g.line(ind, "%s := %s + %d", n, n, g.K())
			default:
				g.line(ind, "%s := %d", n, g.K())
			}
			g.cur()[n] = true
		}
		g.emit(ind)
	case choice < 5: // x, y := K1, K2 with at least one new name, else assignment
		if g.cur()["x"] && g.cur()["y"] {
			g.line(ind, "x, y = %d, %d", g.K(), g.K())
		} else {
			if g.r.Bool() {
				g.line(ind, "x, y := %d, %d", g.K(), g.K())
			} else {
				g.line(ind, "y, x := x+%d, y+%d", g.K(), g.K())
			}
			g.cur()["x"], g.cur()["y"] = true, true
		}
		g.emit(ind)
	case choice < 9: // assignment to the nearest binding
		n := g.name()
		if g.r.Chance(1, 5) {
			// tuple assignment without declaration: each target is resolved on its own (one may be a global, the other a local)
			switch g.r.Intn(3) {
			case 0:
				g.line(ind, "x, y = x+y, y*2+%d", g.K())
			case 1:
				g.line(ind, "y, x = x+%d, y+%d", g.K(), g.K())
			default:
				g.line(ind, "x, y = bump(y), x+%d", g.K())
			}
			g.emit(ind)
			return
		}
		if g.r.Chance(1, 6) {
			// a function literal with names of its own: afterwards the enclosing function's names are what they were
			g.uid++
			inner := g.name()
			g.line(ind, "lit%d := func(%s int) int {", g.uid, inner)
			g.line(ind+1, "%s += %d", inner, g.K())
			g.line(ind+1, "w := %s * 2", inner)
			g.line(ind+1, "return w")
			g.line(ind, "}")
			g.line(ind, "%s = lit%d(%s)", n, g.uid, g.name())
			g.emit(ind)
			return
		}
		switch g.r.Intn(4) {
		case 0:
			g.line(ind, "%s = %d", n, g.K())
		case 1:
			g.line(ind, "%s += %d", n, g.K())
		case 2:
			g.line(ind, "%s++", n)
		default:
			g.line(ind, "%s = bump(%s)", n, g.name())
		}
		g.emit(ind)
	case choice < 11: // if with then/else
		g.line(ind, "if %s > %d {", g.name(), g.r.Intn(300))
		g.push()
		g.block(ind+1, depth+1)
		g.pop()
		if g.r.Bool() {
			g.line(ind, "} else {")
			g.push()
			g.block(ind+1, depth+1)
			g.pop()
		}
		g.line(ind, "}")
		g.emit(ind)
	case choice < 13: // if with init: the init variable is visible in every branch
		n := g.name()
		g.push() // implicit block of the if statement
		g.cur()[n] = true
		g.line(ind, "if %s := %s + %d; %s%%2 == 0 {", n, n, g.K(), n)
		g.push()
		g.emit(ind + 1)
		g.block(ind+1, depth+1)
		g.pop()
		g.line(ind, "} else if %s > 0 {", n)
		g.push()
		g.emit(ind + 1)
		g.block(ind+1, depth+1)
		g.pop()
		g.line(ind, "} else {")
		g.push()
		g.emit(ind + 1)
		g.pop()
		g.line(ind, "}")
		g.pop()
		g.emit(ind)
	case choice < 15 && g.loops < 2: // for with a loop variable named from the set
		n := g.name()
		g.loops++
		g.push()
		g.cur()[n] = true
		g.line(ind, "for %s := 0; %s < 2; %s++ {", n, n, n)
		g.push()
		g.emit(ind + 1)
		// the body may redeclare the loop variable's name: a new variable per iteration
		g.block(ind+1, depth+1)
		g.pop()
		g.line(ind, "}")
		g.pop()
		g.loops--
		g.emit(ind)
	case choice < 16 && g.loops < 2: // variables declared in a loop body start fresh on every iteration
		g.uid++
		i := fmt.Sprintf("i%d", g.uid)
		n := g.name()
		g.loops++
		g.line(ind, "for %s := 0; %s < 3; %s++ {", i, i, i)
		g.push()
		g.line(ind+1, "var %s int", n)
		g.cur()[n] = true
		g.line(ind+1, "%s += %s + 5", n, i)
		g.emit(ind + 1)
		g.block(ind+1, depth+1)
		g.pop()
		g.line(ind, "}")
		g.loops--
		g.emit(ind)
	case choice < 18 && g.loops < 2: // range with key/value named from the set
		g.loops++
		g.push()
		switch g.r.Intn(3) {
		case 0:
			g.line(ind, "for x, y := range []int{x + %d, y + %d, %d} {", g.K(), g.K(), g.K())
			g.cur()["x"], g.cur()["y"] = true, true
		case 1:
			n := g.name()
			g.line(ind, "for %s := range make([]int, %s%%3+2) {", n, n)
			g.cur()[n] = true
		default:
			n := g.name()
			g.line(ind, "for _, %s := range []int{%s + %d, %d} {", n, n, g.K(), g.K())
			g.cur()[n] = true
		}
		g.push()
		g.emit(ind + 1)
		g.block(ind+1, depth+1)
		g.pop()
		g.line(ind, "}")
		g.pop()
		g.loops--
		g.emit(ind)
	default: // switch: every clause is its own block
		n := g.name()
		g.line(ind, "switch %s %% 3 {", n)
		nc := g.r.Range(1, 3)
		def := g.r.Intn(nc + 2)
		for c := 0; c <= nc; c++ {
			if c == def {
				g.line(ind, "default:")
				g.push()
				g.block(ind+1, depth+1)
				g.pop()
			}
			if c == nc {
				break
			}
			g.line(ind, "case %d:", c)
			g.push()
			g.block(ind+1, depth+1)
			g.pop()
		}
		g.line(ind, "}")
		g.emit(ind)
	}
}

func c08Case(seed int64, idx int) packedCase {
	g := &scGen{r: core.Derive(seed, "c08", idx), budget: 14}
	id := fmt.Sprintf("sc%d", idx)
	params := ""
	g.push() // function scope (parameters and body share it)
	switch g.r.Intn(4) {
	case 0:
		params = "x int"
		g.cur()["x"] = true
	case 1:
		params = "y int"
		g.cur()["y"] = true
	case 2:
		params = "y int, x int"
		g.cur()["x"], g.cur()["y"] = true, true
	}
	g.emit(1)
	g.block(1, 0)
	if g.r.Chance(1, 3) {
		g.typedSegment(1)
	}
	g.emit(1)
	g.pop()
	decl := fmt.Sprintf("func %s(%s) {\n%s}\n", id, params, g.sb.String())
	args := ""
	switch strings.Count(params, "int") {
	case 1:
		args = "7"
	case 2:
		args = "8, 9"
	}
	call := fmt.Sprintf("\thdr(%q)\n\t%s(%s)\n\temit(0, x, y)\n", id, id, args)
	return packedCase{ID: id, Decl: decl, Call: call}
}

var c08Budget = core.Budget{MaxSteps: 100000, MaxDepth: 200, MaxLen: 1 << 12, MaxOut: 1 << 18}

func runC08(r *core.Run) {
	r.SetRule("scope-tree functions over the names x and y (package globals, optionally also parameters): := / var / x, y := declarations (new, shadowing, mixed redeclaration), assignments (also parallel ones whose targets resolve to a local and a global), function literals with parameters named like the outer names, if with and without init, for with a loop variable from the name set, per-iteration body variables, range with key/value from the name set, switch clauses; both names are printed after every declaration, assignment and block end, and the globals after the call; plus two-package programs in which parameters, locals, block-level variables, loop and range variables, switch-clause and if-init variables are named like an imported package (or its alias, or fmt), with stores, compound assignments and ++ through them and uses of the package before and after the block, the package assigning to its own variables with = and a parallel assignment; plus segments in which a loop, range, init variable or parameter of type float64 / byte / uint32 / string is declared again in the body from a constant of another type, and constants declared in if / for / switch-clause blocks under the name of an outer variable. non-trivial = accepted by Go and at least 5 emits executed; distinct by function text")
	r.Assume("Go toolchain (GOARCH=386) as the reference")
	n := r.N(4000, 80000)
	cases := make([]packedCase, n)
	for i := range cases {
		cases[i] = c08Case(r.Seed, i)
	}
	res := runPacked(r, "sc", c08Prelude, cases, 250, c08Budget)
	kinds := map[string]int{}
	for i, pr := range res {
		r.Eval(1)
		if !pr.GoOK {
			r.Inconclusive("no_reference_output")
			continue
		}
		what := ""
		switch {
		case pr.Goat.Panic != "":
			what = "a Go panic escaped: " + pr.Goat.Panic
		case pr.Goat.Err != "" && !pr.GoPanic:
			what = "goatlang fails where Go succeeds: " + core.ErrFirstLine(pr.Goat.Err)
		case pr.Goat.Out != pr.Go:
			what = "printed values differ from Go's"
		}
		if what != "" {
			r.Violate(core.Violation{Check: "c08", Index: i, What: what, Case: cases[i], Expected: pr.Go, Observed: pr.Goat, Extra: firstDiff(pr.Go, pr.Goat.Out)})
			continue
		}
		if strings.Count(pr.Go, "\n") >= 6 {
			r.Distinct(cases[i].Decl)
		}
		for _, k := range []string{"if x :=", "if y :=", "for x :=", "for y :=", "range", "switch", "x, y :=", "y, x :=", "var x int", "var y int"} {
			if strings.Contains(cases[i].Decl, k) {
				kinds[k]++
			}
		}
		if i%1500 == 0 {
			r.Sample(map[string]any{"function": cases[i].Decl, "output": excerpt(pr.Go, 14)})
		}
	}
	r.SetObserved("constructs_in_decided_cases", kinds)
	c08RunPkgCases(r)
}

// c08PkgCase: parameters, locals, loop and range variables named like an imported package (or its alias,
// or like fmt) shadow the package inside their block; outside it the package is visible again.
func c08PkgCase(seed int64, idx int) core.RefCase {
	rng := core.Derive(seed, "c08-pkg", idx)
	root := fmt.Sprintf("ref/p%06d", idx)
	dir := root + fmt.Sprintf("/cmd%06d", idx)
	fld := core.Pick(rng, []string{"Count", "N", "Total"})
	var lib strings.Builder
	fmt.Fprintf(&lib, "package util\n\nvar %s = %d\nvar Other = %d\n\nfunc Inc() int {\n\t%s++\n\treturn %s\n}\n\nfunc Get() int {\n\treturn %s * 2\n}\n\nfunc Set(n int) int {\n\t%s = n\n\tOther = %s + 1\n\treturn %s + Other\n}\n\nfunc Swap() {\n\tif Other > 0 {\n\t\told := %s\n\t\t%s, Other = Other, old\n\t}\n}\n", fld, rng.Intn(50), rng.Intn(50), fld, fld, fld, fld, fld, fld, fld, fld)
	alias := "util"
	imp := fmt.Sprintf("\t\"%s/util\"\n", root)
	if rng.Bool() {
		alias = core.Pick(rng, []string{"u", "ut", "lib"})
		imp = fmt.Sprintf("\t%s \"%s/util\"\n", alias, root)
	}
	var sb strings.Builder
	fmt.Fprintf(&sb, "package main\n\nimport (\n\t\"fmt\"\n%s)\n\n", imp)
	fmt.Fprintf(&sb, "type S struct {\n\t%s int\n\tOther int\n}\n\nfunc (s *S) Get() int {\n\treturn s.%s + 1\n}\n\nfunc (s *S) Inc() int {\n\ts.%s += 10\n\treturn s.%s\n}\n\n", fld, fld, fld, fld)
	a, b, c := rng.Intn(40), rng.Range(1, 9), rng.Range(2, 5)
	var calls []string
	add := func(name, body, call string) {
		fmt.Fprintf(&sb, "func %s {\n%s}\n\n", name, body)
		calls = append(calls, call)
	}
	A := alias
	forms := []func(){
		func() { // parameter
			add(fmt.Sprintf("f1(%s *S, n int) int", A), fmt.Sprintf("\t%s.%s = n\n\t%s.%s += %d\n\t%s.%s++\n\t%s.Other = %s.%s * %d\n\treturn %s.%s + %s.Other + %s.Get()\n", A, fld, A, fld, b, A, fld, A, A, fld, c, A, fld, A, A), fmt.Sprintf("f1(&S{}, %d)", a))
		},
		func() { // local
			add("f2() int", fmt.Sprintf("\t%s := &S{%s: %d}\n\t%s.%s *= %d\n\t%s.Other = %d\n\tr := %s.%s\n\tr += %s.Get()\n\tr += %s.Inc()\n\treturn r\n", A, fld, a, A, fld, c, A, b, A, fld, A, A), "f2()")
		},
		func() { // block-level: the package is visible before and after the block
			add("f3() int", fmt.Sprintf("\tr := %s.Inc()\n\tif r > 0 {\n\t\t%s := &S{}\n\t\t%s.%s = %d\n\t\t%s.%s++\n\t\tr += %s.%s\n\t\tr += %s.Inc()\n\t}\n\t%s.%s += %d\n\treturn r + %s.Inc() + %s.Get()\n", A, A, A, fld, a, A, fld, A, fld, A, A, fld, b, A, A), "f3()")
		},
		func() { // loop variable
			add("f4() int", fmt.Sprintf("\ts := %s.Get()\n\tfor %s := 0; %s < %d; %s++ {\n\t\ts += %s\n\t}\n\tfor _, %s := range []int{%d, %d} {\n\t\ts += %s * 2\n\t}\n\treturn s + %s.Inc()\n", A, A, A, c, A, A, A, a, b, A, A), "f4()")
		},
		func() { // a parameter named fmt, an int local named like the package
			add("f5(fmt int) int", fmt.Sprintf("\t%s := fmt * %d\n\t%s += %d\n\t%s++\n\treturn %s + fmt\n", A, c, A, b, A, A), fmt.Sprintf("f5(%d)", a))
		},
		func() { // switch clause and if-init
			add("f6(n int) int", fmt.Sprintf("\tr := 0\n\tswitch {\n\tcase n > 1:\n\t\t%s := n * %d\n\t\tr = %s\n\tdefault:\n\t\tr = %s.Get()\n\t}\n\tif %s := r + 1; %s > 0 {\n\t\tr += %s\n\t}\n\t%s.Other += r\n\treturn r + %s.Other\n", A, c, A, A, A, A, A, A, A), fmt.Sprintf("f6(%d)", rng.Intn(4)))
		},
	}
	core.Shuffle(rng, forms)
	for _, f := range forms[:rng.Range(2, len(forms))] {
		f()
	}
	sb.WriteString("func main() {\n")
	for _, cl := range calls {
		fmt.Fprintf(&sb, "\tfmt.Println(%q, %s, %s.%s, %s.Other)\n", cl, cl, A, fld, A)
	}
	fmt.Fprintf(&sb, "\tfmt.Println(%s.Inc(), %s.Get())\n", A, A)
	fmt.Fprintf(&sb, "\tfmt.Println(%s.Set(%d))\n\tfmt.Println(%s.%s, %s.Other)\n\tfmt.Println(%s.Get())\n\tfmt.Println(%s.Inc())\n\t%s.Swap()\n\tfmt.Println(%s.%s, %s.Other)\n}\n", A, rng.Intn(90), A, fld, A, A, A, A, A, fld, A)
	return core.RefCase{Files: map[string]string{root + "/util/util.go": lib.String(), dir + "/main.go": sb.String()}, MainDir: dir}
}

func c08RunPkgCases(r *core.Run) {
	n := r.N(200, 4000)
	var cases []core.RefCase
	for i := 0; i < n; i++ {
		cases = append(cases, c08PkgCase(r.Seed, i))
	}
	refs, err := core.RunRef(cases)
	if err != nil {
		r.Inconclusive("reference_executor_failed")
		return
	}
	core.Parallel(n, func(i int) {
		r.Eval(1)
		if refs[i].Rejected {
			r.Count("rejected_by_go", 1)
			r.NoteReject(firstLine(refs[i].RejectMsg))
			return
		}
		m := core.NewMachine(core.VMOpts{Optimize: i%2 == 0, Obs: core.NewObs(core.SmallBudget, false, nil)})
		o := m.LoadMain(core.MapFS(cases[i].Files), cases[i].MainDir)
		if what := compareWithGo(refs[i], o); what != "" {
			r.Violate(core.Violation{Check: "c08-pkg", Index: i, What: "names shadowing an imported package: " + what, Case: cases[i], Expected: refs[i].Out, Observed: o, Extra: firstDiff(refs[i].Out, o.Out)})
			return
		}
		r.Distinct(treeKey(cases[i].Files))
		r.Count("package_shadowing_cases", 1)
	})
}

func replayC08(r *core.Run, v *core.Violation) {
	var c packedCase
	if err := remarshal(v.Case, &c); err != nil {
		return
	}
	res := runPacked(r, "scr", c08Prelude, []packedCase{c}, 1, c08Budget)
	fmt.Printf("--- go ---\n%s--- goatlang ---\n%s err=%s\n", res[0].Go, res[0].Goat.Out, res[0].Goat.Err)
	if res[0].GoOK && (res[0].Goat.Out != res[0].Go || res[0].Goat.Err != "") {
		r.Violate(core.Violation{Check: "c08", What: "printed values differ from Go's", Case: c, Extra: firstDiff(res[0].Go, res[0].Goat.Out)})
	}
}
