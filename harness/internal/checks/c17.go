package checks

import (
	"fmt"
	"strings"

	"github.com/philhassey/goatlang"

	"verif/internal/core"
)

// C17 — reloading swaps code in place and keeps state.
//
// Oracle: a small executable model of the reload contract. Every function
// and method body returns a tag naming its version, so the expected report
// after any history of (load version k | tick | capture | report) is
// computable. Observed: the report string returned by the script.

func init() { register("C17", &Check{Run: runC17, Replay: replayC17}) }

type c17Step struct {
	Op  string `json:"op"` // load | tick | capture | report | reload-same
	Ver int    `json:"version,omitempty"`
	// Spell: how the host spells the package directory in this Load (0 = "app")
	Spell int `json:"path_spelling,omitempty"`
}

var c17Spellings = []string{"app", "./app", "app/", "app/../app", "./app/", "store/../app", "app/.", "app/app.go", "./app/app.go"}

type c17Case struct {
	Versions int       `json:"versions"`
	Via      string    `json:"via"` // load | eval
	Shape    int       `json:"shape_seed"`
	Steps    []c17Step `json:"steps"`
}

// c17Source renders version k of the package. shape varies what the
// versions differ in besides the tags (helper arity, extra methods).
func c17Source(k int, shape int, asPackage bool) string {
	var sb strings.Builder
	if asPackage {
		sb.WriteString("package app\n\nimport (\n\t\"errors\"\n\t\"fmt\"\n\t\"store\"\n)\n\n")
	} else {
		sb.WriteString("import (\n\t\"errors\"\n\t\"fmt\"\n)\n\n")
	}
	fmt.Fprintf(&sb, "type T struct {\n\tN int\n\tLabel string\n}\n\ntype H struct {\n\tF func() string\n\tG func(int) string\n\tP func(int) string\n}\n\ntype Namer interface {\n\tM() string\n}\n\n")
	// a function literal inside a function, at the same line and column in every version; an initialiser that calls
	// a function declared below it
	fmt.Fprintf(&sb, "func viaLit(n int) string {\n\tf := func(a int) string {\n\t\treturn \"lit@v%d:\" + fmt.Sprint(a)\n\t}\n\treturn f(n)\n}\n\n", k)
	if asPackage {
		fmt.Fprintf(&sb, "var early = earlyTag()\n\nfunc earlyTag() string {\n\treturn \"early@v%d\"\n}\n\n", k)
	} else {
		// (top-level statements given to Eval run in the order written)
		fmt.Fprintf(&sb, "func earlyTag() string {\n\treturn \"early@v%d\"\n}\n\nvar early = earlyTag()\n\n", k)
	}
	// state
	sb.WriteString("var keep int\nvar loads int\nvar saved func() string\nvar savedG func(int) string\nvar obj *T\nvar bound func() string\nvar boundP func(int) string\nvar holder *H\nvar list []func() string\nvar anyKeep any\nvar namer Namer\nvar lastErr error\nvar hits, misses int\nvar cache map[string]int\nvar queue []int\nvar fa, fb float64\n")
	fmt.Fprintf(&sb, "var reset = %d\nvar resetS = \"init-v%d\"\n", 100*k, k)
	// a variable initialised with a function literal: an initialiser like any other (the variable starts over with every
	// load, whatever it was pointed at in between, and the functions it was pointed at keep their own bodies)
	fmt.Fprintf(&sb, "var hook = func() string {\n\treturn \"hook@v%d\"\n}\n\n", k)
	// initialisers that spell the zero value are initialisers all the same
	sb.WriteString("var zi int = 0\nvar zb bool = false\nvar zs string = \"\"\nvar zf = 0.0\n\n")
	// locals that shadow package variables, updated by compound assignment and ++
	sb.WriteString("func Bump() int {\n\tkeep := 1\n\tkeep += 5\n\tkeep++\n\tloads := 10\n\tloads -= 3\n\tloads--\n\treset := 2\n\treset *= 4\n\treturn keep*100 + loads*10 + reset\n}\n\n")
	// helper whose arity changes between versions (used consistently inside one version)
	if (shape+k)%2 == 0 {
		fmt.Fprintf(&sb, "func helper(a int) string {\n\treturn \"h%d:\" + fmt.Sprint(a)\n}\n\n", k)
		fmt.Fprintf(&sb, "func f0() string {\n\treturn \"f0@v%d/\" + helper(%d)\n}\n\n", k, k)
	} else {
		fmt.Fprintf(&sb, "func helper(a int, b string) string {\n\treturn \"h%d:\" + fmt.Sprint(a) + b\n}\n\n", k)
		fmt.Fprintf(&sb, "func f0() string {\n\treturn \"f0@v%d/\" + helper(%d, \"x\")\n}\n\n", k, k)
	}
	fmt.Fprintf(&sb, "func f1() string {\n\treturn \"f1@v%d\"\n}\n\n", k)
	fmt.Fprintf(&sb, "func g(n int) string {\n\treturn \"g@v%d:\" + fmt.Sprint(n*%d)\n}\n\n", k, k)
	fmt.Fprintf(&sb, "func (t *T) M() string {\n\treturn \"M@v%d:\" + fmt.Sprint(t.N) + t.Label\n}\n\n", k)
	fmt.Fprintf(&sb, "func (t *T) P(a int) string {\n\treturn \"P@v%d:\" + fmt.Sprint(t.N+a)\n}\n\n", k)
	if k >= 2 && shape%3 != 0 {
		// a method added in a later version is found on instances created earlier
		fmt.Fprintf(&sb, "func (t *T) Extra() string {\n\treturn \"Extra@v%d:\" + fmt.Sprint(t.N)\n}\n\n", k)
	}
	if k >= 2 && shape%3 != 0 {
		sb.WriteString("const HasExtra = true\n\n")
	} else {
		// the method must exist for the call to compile; versions without Extra never call it
		sb.WriteString("const HasExtra = false\n\n")
	}
	// a struct type declared inside a function; its fields differ from version to version
	fmt.Fprintf(&sb, "func localSum(n int) int {\n\ttype acc struct {\n\t\ta int\n\t\tf%d int\n\t\ttag%d string\n\t}\n\tp := &acc{a: n}\n\tp.f%d = %d\n\tp.tag%d = \"v%d\"\n\treturn p.a*100 + p.f%d*10 + len(p.tag%d)\n}\n\n", k, k, k, k, k, k, k, k)
	sb.WriteString("func init() {\n\tloads++\n}\n\n")
	// many literals no other version has: the first load of a version makes the VM's tables grow
	sb.WriteString("func filler() int {\n\ts := []string{")
	for i := 0; i < 130; i++ {
		fmt.Fprintf(&sb, "\"v%d-%d\", ", k, i)
	}
	sb.WriteString("}\n\treturn len(s)\n}\n\n")
	// Mid is running while the host loads another version (reloadnow is a host function): the running body goes on,
	// and what it reads and calls afterwards is the reloaded state and code
	sb.WriteString("func Mid() string {\n\tbefore := keep\n\tr0 := reset\n\treloadnow()\n\tkeep++\n\treset += 5\n\treturn fmt.Sprint(before, keep, r0 > 0, reset) + \" \" + f1() + \" \" + resetS + fmt.Sprint(filler())\n}\n\n")
	sb.WriteString("func Tick() {\n\tkeep++\n\treset++\n\tresetS += \"+\"\n" + c17StoreTick(asPackage) + "\tzi++\n\tzb = true\n\tzs += \"t\"\n\tzf += 0.5\n\tanyKeep = keep\n\thits++\n\tmisses += 2\n\tfa += 0.5\n\tfb += fa\n\tif cache == nil {\n\t\tcache = map[string]int{}\n\t}\n\tcache[\"k\"] = keep\n\tif keep%2 == 0 {\n\t\tdelete(cache, \"k\")\n\t}\n\tqueue = append(queue, keep)\n\tif keep%3 == 0 {\n\t\tqueue = queue[:0]\n\t}\n\tif obj != nil {\n\t\tobj.N += 10\n\t}\n}\n\n")
	sb.WriteString("func Capture() {\n\tsaved = f0\n\tsavedG = g\n\tobj = &T{N: keep, Label: \"L\"}\n\tbound = obj.M\n\tboundP = obj.P\n\tholder = &H{F: f1, G: g, P: obj.P}\n\tlist = append(list, f1)\n\thook = f1\n\tnamer = obj\n\tlastErr = errors.New(\"e\" + fmt.Sprint(keep))\n}\n\n")
	sb.WriteString("func Report() string {\n\ts := f0() + \" \" + f1() + \" \" + g(2)\n\tif saved != nil {\n\t\ts += \" saved=\" + saved() + \" savedG=\" + savedG(3) + \" bound=\" + bound() + \" holder=\" + holder.F() + holder.G(4) + \" obj=\" + obj.M() + \" boundP=\" + boundP(5) + \" holderP=\" + holder.P(6) + \" namer=\" + namer.M() + \" err=\" + lastErr.Error()\n\t\tfor _, f := range list {\n\t\t\ts += \" l=\" + f()\n\t\t}\n\t} else {\n\t\ts += \" saved=nil\"\n\t}\n\tif obj != nil && HasExtra {\n\t\ts += \" extra=\" + obj.Extra()\n\t}\n\tif anyKeep != nil {\n\t\ts += \" any=\" + fmt.Sprint(anyKeep)\n\t} else {\n\t\ts += \" any=nil\"\n\t}\n" + c17StoreReport(asPackage) + "\ts += \" hook=\" + hook()\n\ts += \" local=\" + fmt.Sprint(localSum(keep)) + \" \" + viaLit(2) + \" \" + early\n\ts += \" hm=\" + fmt.Sprint(hits, misses, fa, fb) + \" cache=\" + fmt.Sprint(cache == nil, len(cache)) + \" queue=\" + fmt.Sprint(queue == nil, len(queue))\n\ts += \" bump=\" + fmt.Sprint(Bump()) + \" z=\" + fmt.Sprint(zi) + fmt.Sprint(zb) + zs + fmt.Sprint(zf)\n\treturn s + \" keep=\" + fmt.Sprint(keep) + \" reset=\" + fmt.Sprint(reset) + \" resetS=\" + resetS + \" loads=\" + fmt.Sprint(loads)\n}\n")
	return sb.String()
}

func c17StoreTick(asPackage bool) string {
	if asPackage {
		return "\tstore.Bump()\n"
	}
	return ""
}

func c17StoreReport(asPackage bool) string {
	if asPackage {
		return "\ts += \" store=\" + fmt.Sprint(store.Hits, store.Kept)\n"
	}
	return ""
}

// c17Store is an imported package whose source never changes: loading app again loads it again too, so its
// initialised variable starts over and its uninitialised one is kept.
const c17Store = "package store\n\nvar Hits = 100\nvar Kept int\n\nfunc Bump() {\n\tHits++\n\tKept++\n}\n"

type c17Model struct {
	ver       int
	shape     int
	keep      int
	loads     int
	reset     int
	resetS    string
	captured  bool
	objN      int
	listLen   int
	errN      int
	pkg       bool
	hookF1    bool // hook was pointed at f1 since the last load
	anySet    bool // anyKeep holds keep's value at the last tick
	anyV      int
	ticks     int // all ticks so far (store.Kept)
	zticks    int // ticks since the last load: variables whose initialiser is a zero value are re-initialised too
	evalLoads int
	cacheLen  int // entries of cache after the last tick (the map itself exists from the first tick on, also when empty)
	queueLen  int
	fb        float64
}

// hook: what the variable initialised with a function literal returns when called.
func (m *c17Model) hook() string {
	if m.hookF1 {
		return fmt.Sprintf("f1@v%d", m.ver)
	}
	return fmt.Sprintf("hook@v%d", m.ver)
}

func (m *c17Model) report() string {
	k := m.ver
	h := fmt.Sprintf("h%d:%d", k, k)
	if (m.shape+k)%2 != 0 {
		h += "x"
	}
	f0 := fmt.Sprintf("f0@v%d/", k) + h
	f1 := fmt.Sprintf("f1@v%d", k)
	g := func(n int) string { return fmt.Sprintf("g@v%d:%d", k, n*k) }
	s := f0 + " " + f1 + " " + g(2)
	if m.captured {
		M := fmt.Sprintf("M@v%d:%dL", k, m.objN)
		P := func(a int) string { return fmt.Sprintf("P@v%d:%d", k, m.objN+a) }
		s += " saved=" + f0 + " savedG=" + g(3) + " bound=" + M + " holder=" + f1 + g(4) + " obj=" + M + " boundP=" + P(5) + " holderP=" + P(6) + " namer=" + M + " err=e" + fmt.Sprint(m.errN)
		for i := 0; i < m.listLen; i++ {
			s += " l=" + f1
		}
	} else {
		s += " saved=nil"
	}
	if m.captured && k >= 2 && m.shape%3 != 0 {
		s += fmt.Sprintf(" extra=Extra@v%d:%d", k, m.objN)
	}
	if m.anySet {
		s += fmt.Sprintf(" any=%d", m.anyV)
	} else {
		s += " any=nil"
	}
	if m.pkg {
		s += fmt.Sprintf(" store=%d %d", 100+m.zticks, m.ticks)
	}
	s += " hook=" + m.hook()
	s += fmt.Sprintf(" local=%d lit@v%d:2 early@v%d", m.keep*100+m.ver*10+2, m.ver, m.ver)
	s += fmt.Sprintf(" hm=%d %d %v %v cache=%v %d queue=%v %d", m.ticks, 2*m.ticks, float64(m.ticks)/2, m.fb, m.ticks == 0, m.cacheLen, m.ticks == 0, m.queueLen)
	s += fmt.Sprintf(" bump=768 z=%d%v%s%v", m.zticks, m.zticks > 0, strings.Repeat("t", m.zticks), float64(m.zticks)/2)
	return s + fmt.Sprintf(" keep=%d reset=%d resetS=%s loads=%d", m.keep, m.reset, m.resetS, m.loads)
}

func c17Gen(seed int64, idx int) c17Case {
	rng := core.Derive(seed, "c17", idx)
	c := c17Case{Versions: rng.Range(2, 6), Via: core.Pick(rng, []string{"load", "load", "eval"}), Shape: rng.Intn(12)}
	c.Steps = append(c.Steps, c17Step{Op: "load", Ver: 1})
	n := rng.Range(5, 30)
	cur := 1
	for i := 0; i < n; i++ {
		switch r := rng.Intn(12); {
		case r < 3:
			cur = rng.Range(1, c.Versions)
			c.Steps = append(c.Steps, c17Step{Op: "load", Ver: cur})
			if rng.Chance(1, 3) {
				c.Steps[len(c.Steps)-1].Spell = rng.Intn(len(c17Spellings))
			}
		case r < 4 && rng.Chance(1, 3):
			c.Steps = append(c.Steps, c17Step{Op: "load-broken"})
		case r < 4 && rng.Bool():
			cur = rng.Range(1, c.Versions)
			c.Steps = append(c.Steps, c17Step{Op: "reload-inside", Ver: cur})
		case r < 4:
			c.Steps = append(c.Steps, c17Step{Op: "reload-same", Ver: cur})
		case r < 7:
			c.Steps = append(c.Steps, c17Step{Op: "tick"})
		case r < 9:
			c.Steps = append(c.Steps, c17Step{Op: "capture"})
		default:
			c.Steps = append(c.Steps, c17Step{Op: "report"})
		}
	}
	c.Steps = append(c.Steps, c17Step{Op: "report"})
	return c
}

func c17Run(c c17Case) (what string, trace []string) {
	m := core.NewMachine(core.VMOpts{Optimize: true, Obs: core.NewObs(core.SmallBudget, false, nil)})
	model := &c17Model{shape: c.Shape, pkg: c.Via == "load"}
	target := 1
	m.VM.Set("builtin.reloadnow", goatlang.NewFunc(0, 0, func(v *goatlang.VM) {
		sys := core.MapFS(map[string]string{"app/app.go": c17Source(target, c.Shape, true), "store/store.go": c17Store})
		if c.Via == "load" {
			if err := v.Load(sys, "app"); err != nil {
				panic(err)
			}
		} else if _, err := v.Eval(core.MapFS(map[string]string{}), "app.go", c17Source(target, c.Shape, false)); err != nil {
			panic(err)
		}
	}))
	prefix := "app."
	if c.Via == "eval" {
		prefix = "main."
	}
	for si, st := range c.Steps {
		switch st.Op {
		case "load", "reload-same":
			var o core.Outcome
			if c.Via == "load" {
				sys := core.MapFS(map[string]string{"app/app.go": c17Source(st.Ver, c.Shape, true), "store/store.go": c17Store})
				var err error
				if p := core.Guard(func() { err = m.VM.Load(sys, c17Spellings[st.Spell%len(c17Spellings)]) }); p != "" {
					o.Panic = p
				}
				if err != nil {
					o.Err = err.Error()
				}
			} else {
				o = m.Eval(nil, c17Source(st.Ver, c.Shape, false))
			}
			if o.Failed() {
				return fmt.Sprintf("step %d: loading version %d failed: %s%s", si, st.Ver, core.ErrFirstLine(o.Err), o.Panic), trace
			}
			model.ver = st.Ver
			model.loads++
			model.reset = 100 * st.Ver
			model.resetS = fmt.Sprintf("init-v%d", st.Ver)
			model.zticks = 0
			model.hookF1 = false
			trace = append(trace, fmt.Sprintf("load v%d", st.Ver))
		case "tick":
			if o := m.Call(prefix+"Tick", 0); o.Failed() {
				return fmt.Sprintf("step %d: Tick failed: %s%s", si, core.ErrFirstLine(o.Err), o.Panic), trace
			}
			model.keep++
			model.reset++
			model.resetS += "+"
			model.zticks++
			model.ticks++
			model.anySet, model.anyV = true, model.keep
			model.fb += float64(model.ticks) / 2
			model.cacheLen = model.keep % 2
			model.queueLen++
			if model.keep%3 == 0 {
				model.queueLen = 0
			}
			if model.captured {
				model.objN += 10
			}
			trace = append(trace, "tick")
		case "capture":
			if o := m.Call(prefix+"Capture", 0); o.Failed() {
				return fmt.Sprintf("step %d: Capture failed: %s%s", si, core.ErrFirstLine(o.Err), o.Panic), trace
			}
			model.captured = true
			model.hookF1 = true
			model.errN = model.keep
			model.objN = model.keep
			model.listLen++
			trace = append(trace, "capture")
		case "load-broken":
			// a version whose top-level code fails at run time: the load reports an error; what was loaded before stays usable
			// and later loads work
			broken := "var boom%d = 1 / zero0()\n\nfunc zero0() int {\n\treturn 0\n}\n"
			var failed bool
			if c.Via == "load" {
				sys := core.MapFS(map[string]string{"app/app.go": "package app\n\n" + fmt.Sprintf(broken, si), "store/store.go": c17Store})
				var err error
				if p := core.Guard(func() { err = m.VM.Load(sys, "app") }); p != "" {
					return fmt.Sprintf("step %d: a Go panic escaped the failing load: %s", si, p), trace
				}
				failed = err != nil
			} else {
				o := m.Eval(nil, fmt.Sprintf(broken, si))
				failed = o.Err != ""
			}
			if !failed {
				return fmt.Sprintf("step %d: a version whose initialiser divides by zero loaded without an error", si), trace
			}
			trace = append(trace, "load-broken")
		case "reload-inside":
			target = st.Ver
			o := m.Call(prefix+"Mid", 1)
			if o.Failed() || len(o.Rets) != 1 {
				return fmt.Sprintf("step %d: loading version %d from inside a running function failed: %s%s", si, st.Ver, core.ErrFirstLine(o.Err), o.Panic), trace
			}
			before := model.keep
			model.ver = st.Ver
			model.loads++
			model.keep++
			model.reset = 100*st.Ver + 5
			model.resetS = fmt.Sprintf("init-v%d", st.Ver)
			model.zticks = 0
			model.hookF1 = false
			want := fmt.Sprintf("%d %d true %d f1@v%d init-v%d130", before, model.keep, model.reset, st.Ver, st.Ver)
			trace = append(trace, fmt.Sprintf("reload-inside v%d: %s", st.Ver, o.Rets[0]))
			if o.Rets[0] != want {
				return fmt.Sprintf("step %d: after %v a function that was running while version %d was loaded returns %q, the reload contract gives %q", si, trace[:len(trace)-1], st.Ver, o.Rets[0], want), trace
			}
		case "report":
			o := m.Call(prefix+"Report", 1)
			if o.Failed() || len(o.Rets) != 1 {
				return fmt.Sprintf("step %d: Report failed: %s%s", si, core.ErrFirstLine(o.Err), o.Panic), trace
			}
			want := model.report()
			trace = append(trace, "report: "+o.Rets[0])
			if o.Rets[0] != want {
				return fmt.Sprintf("step %d: after %v the report is %q, the reload contract gives %q", si, trace[:len(trace)-1], o.Rets[0], want), trace
			}
			if ho := m.Call(prefix+"hook", 1); ho.Failed() || len(ho.Rets) != 1 || ho.Rets[0] != model.hook() {
				return fmt.Sprintf("step %d: after %v the host's Call of the variable holding a function gives %v %s, the reload contract gives %q", si, trace[:len(trace)-1], ho.Rets, core.ErrFirstLine(ho.Err), model.hook()), trace
			}
		}
	}
	return "", trace
}

func runC17(r *core.Run) {
	r.SetRule("histories of 5-30 steps (load version k of 2-6, reload the same version, load a version from a host function while a script function is running, load a version that fails while its top-level code runs, tick, capture, report; the host also calls a variable that holds a function by name) over a generated package whose function and method bodies return a version tag; captured before reloads: a function value in a no-initialiser global, function values in struct fields and in a slice, a bound method value, an instance; state: no-initialiser int and counters, two ints and two floats declared in one var statement, a map and a slice that exist but are empty at some reloads (all kept), the host spelling the package directory in several equivalent ways, int and string variables with initialisers (re-initialised), variables whose initialiser spells the zero value (re-initialised), a function whose locals shadow package variables and are updated with += / ++ ; versions also differ in the arity of an internal helper, in added methods, in the fields of a struct type declared inside a function and in the body of a function literal that keeps its source position; the package is also loaded by the name of its file; every version brings 130 literals of its own (the VM's tables grow on its first load); the package imports a package whose source never changes (its initialised variable starts over with every load, its other variable is kept); through Load of a package and through repeated Eval of the definitions. non-trivial = at least 2 loads and 1 report after a capture; distinct by history")
	r.Assume("the model encodes the contract stated in the property: after loading version k every function and method - also through references captured earlier - runs version k's body; variables without initialiser keep their values, variables with initialiser are reset, instances keep their fields")
	n := r.N(3000, 120000)
	core.Parallel((n+49)/50, func(chunk int) {
		for i := chunk * 50; i < (chunk+1)*50 && i < n; i++ {
			c := c17Gen(r.Seed, i)
			r.Eval(1)
			what, trace := c17Run(c)
			if what != "" {
				r.Violate(core.Violation{Check: "c17", Index: i, What: what, Case: c, Observed: trace})
				continue
			}
			loads, capt := 0, false
			for _, s := range c.Steps {
				if s.Op == "load" || s.Op == "reload-same" || s.Op == "reload-inside" {
					loads++
				}
				if s.Op == "capture" {
					capt = true
				}
			}
			if loads >= 2 && capt {
				r.Distinct(fmt.Sprint(c))
			}
			r.Count("via:"+c.Via, 1)
			r.Count("loads", loads)
			if i%1501 == 0 {
				r.Sample(map[string]any{"via": c.Via, "trace": trace})
			}
		}
	})
}

func replayC17(r *core.Run, v *core.Violation) {
	var c c17Case
	if err := remarshal(v.Case, &c); err != nil {
		return
	}
	what, trace := c17Run(c)
	fmt.Println(strings.Join(trace, "\n"))
	if what != "" {
		r.Violate(core.Violation{Check: "c17", What: what, Case: c})
	}
}
