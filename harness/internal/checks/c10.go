package checks

import (
	"fmt"
	"math"
	"strconv"
	"strings"

	"github.com/philhassey/goatlang"

	"verif/internal/core"
)

// C10 — script maps behave like Go maps under any history.
//
// Oracle: a native Go map mirror for point queries and an offline checker of
// the Go-spec range constraints over the recorded visit sequence (order-free).
// At quiescent points the map-state hook shows the internal key list: every
// live key must be listed exactly once.

func init() { register("C10", &Check{Run: runC10, Replay: replayC10}) }

// key kinds
type c10KeyKind struct {
	name  string
	tag   goatlang.Type
	keys  []float64 // numeric universe (or indexes into strs)
	isStr bool
}

var c10Strs = []string{"", "a", "b", "ab", "é", "k5", "zz", "\xff"}

var c10Kinds = []c10KeyKind{
	{name: "string", tag: goatlang.TypeString, isStr: true, keys: []float64{0, 1, 2, 3, 4, 5, 6, 7}},
	{name: "int", tag: goatlang.TypeInt32, keys: []float64{0, 1, -1, 2, 7, 2147483647, -2147483648, 100}},
	{name: "int8", tag: goatlang.TypeInt8, keys: []float64{0, 1, -1, 127, -128, 5}},
	{name: "uint8", tag: goatlang.TypeUint8, keys: []float64{0, 1, 255, 128, 7, 9}},
	{name: "uint32", tag: goatlang.TypeUint32, keys: []float64{0, 1, 4294967295, 2147483648, 3, 10}},
	{name: "float64", tag: goatlang.TypeFloat64, keys: []float64{0, math.Copysign(0, -1), 1.5, -1.5, math.Inf(1), math.Inf(-1), 1e300, 0.1}},
	{name: "bool", tag: goatlang.TypeBool, keys: []float64{0, 1}},
}

func (k c10KeyKind) mk(x float64) goatlang.Value {
	switch k.name {
	case "string":
		return goatlang.String(c10Strs[int(x)])
	case "int":
		return goatlang.Int32(int32(x))
	case "int8":
		return goatlang.Int8(int8(x))
	case "uint8":
		return goatlang.Uint8(uint8(x))
	case "uint32":
		return goatlang.Uint32(uint32(x))
	case "float64":
		return goatlang.Float64(x)
	}
	return goatlang.Bool(x != 0)
}

// native key: strings by content, numbers by float64 value (+0 and -0 are the same Go map key)
func (k c10KeyKind) native(x float64) any {
	if k.isStr {
		return c10Strs[int(x)]
	}
	if k.name == "bool" {
		return x != 0
	}
	return x + 0
}

func (k c10KeyKind) nativeOf(v goatlang.Value) any {
	if k.isStr {
		return v.String()
	}
	if k.name == "bool" {
		return v.Bool()
	}
	return v.Float64() + 0
}

type c10Op struct {
	Op  string  `json:"op"`
	K   int     `json:"k"` // index into the key universe of the key kind
	V   int     `json:"v,omitempty"`
	K2  int     `json:"k2,omitempty"`     // clone: the key inserted into the clone
	Sub []c10Op `json:"during,omitempty"` // operations interleaved with a stepped range, one slot per step
}

type c10History struct {
	Kind string  `json:"key_kind"`
	Elem string  `json:"elem_kind"`
	Init int     `json:"initial_entries"`
	Ops  []c10Op `json:"ops"`
}

func c10GenHistory(seed int64, idx int) c10History {
	rng := core.Derive(seed, "c10", idx)
	kind := c10Kinds[rng.Intn(len(c10Kinds))]
	h := c10History{Kind: kind.name, Elem: core.Pick(rng, []string{"int", "string", "slice", "float64", "uint8", "any"}), Init: rng.Intn(4)}
	n := rng.Range(10, 50)
	pickKey := func() int { return rng.Intn(len(kind.keys)) }
	last := pickKey()
	for i := 0; i < n; i++ {
		k := pickKey()
		if rng.Chance(1, 3) {
			k = last // delete -> reinsert of the same key is the interesting history
		}
		last = k
		switch r := rng.Intn(20); {
		case r < 6:
			h.Ops = append(h.Ops, c10Op{Op: "set", K: k, V: rng.Intn(1000)})
		case r < 10:
			h.Ops = append(h.Ops, c10Op{Op: "delete", K: k})
		case r < 12:
			h.Ops = append(h.Ops, c10Op{Op: "get", K: k})
		case r < 14:
			h.Ops = append(h.Ops, c10Op{Op: "getok", K: k})
		case r < 15:
			h.Ops = append(h.Ops, c10Op{Op: "len"})
		case r < 17:
			h.Ops = append(h.Ops, c10Op{Op: "range"})
			if rng.Chance(1, 3) {
				// clone, then one insert into the original and one into the clone, then range the original
				h.Ops = append(h.Ops, c10Op{Op: "clone", K: k, K2: pickKey(), V: rng.Intn(1000)}, c10Op{Op: "range"})
			}
		case r < 18:
			// drain: delete everything (drives the compaction threshold)
			for x := range kind.keys {
				h.Ops = append(h.Ops, c10Op{Op: "delete", K: x})
			}
		default:
			op := c10Op{Op: "range-stepped"}
			for s := rng.Range(1, 6); s > 0; s-- {
				kk := pickKey()
				switch rng.Intn(4) {
				case 0:
					op.Sub = append(op.Sub, c10Op{Op: "set", K: kk, V: rng.Intn(1000)})
				case 1, 2:
					op.Sub = append(op.Sub, c10Op{Op: "delete", K: kk})
				default:
					op.Sub = append(op.Sub, c10Op{Op: "none"})
				}
			}
			h.Ops = append(h.Ops, op)
		}
	}
	return h
}

type c10Elem struct {
	name string
	tag  goatlang.Type
}

func c10ElemOf(name string) c10Elem {
	switch name {
	case "string":
		return c10Elem{name, goatlang.TypeString}
	case "slice":
		return c10Elem{name, goatlang.TypeSlice | goatlang.TypeInt32<<8}
	case "float64":
		return c10Elem{name, goatlang.TypeFloat64}
	case "uint8":
		return c10Elem{name, goatlang.TypeUint8}
	case "any":
		return c10Elem{name, goatlang.TypeNil}
	}
	return c10Elem{name, goatlang.TypeInt32}
}

func (e c10Elem) mk(v int) goatlang.Value {
	switch e.name {
	case "string":
		return goatlang.String("v" + strconv.Itoa(v))
	case "slice":
		return goatlang.NewSlice(goatlang.TypeInt32, []goatlang.Value{goatlang.Int(v)})
	case "float64":
		return goatlang.Float64(float64(v))
	case "uint8":
		return goatlang.Byte(byte(v))
	case "any":
		if v%4 == 0 {
			return goatlang.Nil() // a stored nil is an entry like any other
		}
	}
	return goatlang.Int(v)
}

func (e c10Elem) render(v int, present bool) string {
	if !present {
		switch e.name {
		case "string":
			return ""
		case "slice":
			return "[]"
		case "any":
			return "nil"
		}
		return "0"
	}
	if e.name == "any" && v%4 == 0 {
		return "nil"
	}
	switch e.name {
	case "string":
		return "v" + strconv.Itoa(v)
	case "slice":
		return "[" + strconv.Itoa(v) + "]"
	case "uint8":
		return strconv.Itoa(v & 255)
	}
	return strconv.Itoa(v)
}

// probe: in scripts a float64 or uint8 element is observed through a type-sensitive expression
// (halved / +200 wrapped), so that an element stored without its declared type shows.
func (e c10Elem) probe(expr string) string {
	switch e.name {
	case "float64":
		return expr + "/2"
	case "uint8":
		return expr + "+200"
	}
	return expr
}

func (e c10Elem) renderProbe(v int, present bool) string {
	if !present {
		v = 0
	}
	switch e.name {
	case "float64":
		return strconv.FormatFloat(float64(v)/2, 'g', -1, 64)
	case "uint8":
		return strconv.Itoa(((v & 255) + 200) & 255)
	}
	return e.render(v, present)
}

// c10RunHost replays a history through the host Value API against the mirror.
func c10RunHost(h c10History) (problem string, events int) {
	var kind c10KeyKind
	for _, k := range c10Kinds {
		if k.name == h.Kind {
			kind = k
		}
	}
	elem := c10ElemOf(h.Elem)
	mirror := map[any]int{}
	var init []goatlang.Value
	for i := 0; i < h.Init && i < len(kind.keys); i++ {
		if _, dup := mirror[kind.native(kind.keys[i])]; dup {
			continue
		}
		init = append(init, kind.mk(kind.keys[i]), elem.mk(i))
		mirror[kind.native(kind.keys[i])] = i
	}
	var m goatlang.Value
	if p := core.Guard(func() { m = goatlang.NewMap(kind.tag, elem.tag, init) }); p != "" {
		return "NewMap panicked: " + p, 0
	}
	vm := goatlang.New()
	quiescent := func(where string) string {
		keys, live, ok := goatlang.VerifMapState(m)
		if !ok {
			return "VerifMapState: not a script map"
		}
		if live != len(mirror) {
			return fmt.Sprintf("%s: %d live entries, the mirror has %d", where, live, len(mirror))
		}
		count := map[any]int{}
		for _, k := range keys {
			count[kind.nativeOf(k)]++
		}
		for k := range mirror {
			if count[k] != 1 {
				return fmt.Sprintf("%s: live key %v appears %d times in the internal key list", where, k, count[k])
			}
		}
		return ""
	}
	apply := func(op c10Op) string {
		kv := kind.mk(kind.keys[op.K])
		nk := kind.native(kind.keys[op.K])
		switch op.Op {
		case "set":
			m.Set(kv, elem.mk(op.V))
			mirror[nk] = op.V
		case "delete":
			m.Delete(kv)
			delete(mirror, nk)
		case "get", "getok":
			got, ok := m.Get(kv)
			want, present := mirror[nk]
			if ok != present {
				return fmt.Sprintf("Get(%v): ok=%v, Go says %v", nk, ok, present)
			}
			if got.String() != elem.render(want, present) {
				return fmt.Sprintf("Get(%v) = %s, Go says %s", nk, got.String(), elem.render(want, present))
			}
			if elem.name != "any" && vm.VerifTypeOf(got) != vm.VerifTypeOf(elem.mk(0)) {
				return fmt.Sprintf("Get(%v) has type %s, the element type is %s", nk, vm.VerifTypeOf(got), vm.VerifTypeOf(elem.mk(0)))
			}
		case "len":
			if m.Len() != len(mirror) {
				return fmt.Sprintf("Len() = %d, Go says %d", m.Len(), len(mirror))
			}
		}
		return ""
	}
	for oi, op := range h.Ops {
		events++
		var p string
		pan := core.Guard(func() {
			switch op.Op {
			case "range", "range-stepped":
				p = c10Range(m, kind, elem, mirror, op, apply)
			default:
				p = apply(op)
			}
			if p == "" {
				p = quiescent(fmt.Sprintf("after op %d (%s)", oi, op.Op))
			}
		})
		if pan != "" {
			return fmt.Sprintf("op %d (%s) panicked: %s", oi, op.Op, pan), events
		}
		if p != "" {
			return fmt.Sprintf("op %d: %s", oi, p), events
		}
	}
	return "", events
}

// c10Range steps a Range iterator, interleaving op.Sub, and checks the Go
// range constraints on the visit sequence.
func c10Range(m goatlang.Value, kind c10KeyKind, elem c10Elem, mirror map[any]int, op c10Op, apply func(c10Op) string) string {
	liveAtStart := map[any]bool{}
	for k := range mirror {
		liveAtStart[k] = true
	}
	everDeleted := map[any]bool{}
	visited := map[any]bool{}
	next := m.Range()
	step := 0
	for {
		k, v, ok := next()
		if !ok {
			break
		}
		nk := kind.nativeOf(k)
		if visited[nk] {
			return fmt.Sprintf("range visited key %v twice", nk)
		}
		visited[nk] = true
		want, live := mirror[nk]
		if !live {
			return fmt.Sprintf("range visited key %v, which is not in the map at that moment", nk)
		}
		if v.String() != elem.render(want, true) {
			return fmt.Sprintf("range delivered %v:%s, the map holds %s", nk, v.String(), elem.render(want, true))
		}
		if k.Type() != kind.tag {
			return fmt.Sprintf("range delivered a key of type tag %d for a %s-keyed map", k.Type(), kind.name)
		}
		if step < len(op.Sub) {
			sub := op.Sub[step]
			if sub.Op == "delete" {
				everDeleted[kind.native(kind.keys[sub.K])] = true
			}
			if p := apply(sub); p != "" {
				return p
			}
		}
		step++
		if step > 10000 {
			return "range does not terminate"
		}
	}
	for k := range liveAtStart {
		if _, still := mirror[k]; still && !everDeleted[k] && !visited[k] {
			return fmt.Sprintf("range did not visit key %v, which was in the map for the whole loop", k)
		}
	}
	return ""
}

// ---------------------------------------------------------------------------
// script route: a generated function performs the history and prints what it
// observes; the harness computes the same with the mirror.

func c10ScriptKey(kind c10KeyKind, idx int) string {
	k := kind.keys[idx]
	if kind.isStr {
		return strconv.Quote(c10Strs[int(k)])
	}
	return strconv.Itoa(int(k))
}

// c10Script renders the history as script source and the expected output
// lines; range lines are checked by the offline checker instead of compared.
func c10Script(h c10History) (src string, ok bool) {
	if h.Kind != "string" && h.Kind != "int" && h.Kind != "uint32" {
		return "", false
	}
	kt, et := h.Kind, "int"
	switch h.Elem {
	case "string":
		et = "string"
	case "slice":
		et = "[]int"
	case "float64", "uint8", "any":
		et = h.Elem
	}
	elem := c10ElemOf(h.Elem)
	kind := c10KindByName(h.Kind)
	val := func(v int) string {
		switch h.Elem {
		case "string":
			return strconv.Quote("v" + strconv.Itoa(v))
		case "slice":
			return "[]int{" + strconv.Itoa(v) + "}"
		case "uint8":
			return strconv.Itoa(v & 255)
		case "any":
			if v%4 == 0 {
				return "nil"
			}
		}
		return strconv.Itoa(v)
	}
	var sb strings.Builder
	fmt.Fprintf(&sb, "import \"golang.org/x/exp/maps\"\n\nfunc hist() {\n")
	var lits []string
	seen := map[string]bool{}
	for i := 0; i < h.Init && i < len(kind.keys); i++ {
		k := c10ScriptKey(kind, i)
		if h.Kind == "string" && c10Strs[int(kind.keys[i])] == "\xff" || seen[k] {
			continue
		}
		seen[k] = true
		lits = append(lits, k+": "+val(i))
	}
	// a nil map of the same type answers reads like an empty one (literal and variable keys, comma-ok, len, range)
	{
		k0, k1 := c10ScriptKey(kind, 0), c10ScriptKey(kind, len(kind.keys)-1)
		fmt.Fprintf(&sb, "\tvar nm map[%s]%s\n\tkv := %s\n", kt, et, k1)
		nprobe := func(expr string) string {
			if h.Elem == "string" {
				return "\"[\" + " + expr + " + \"]\""
			}
			return elem.probe(expr)
		}
		fmt.Fprintf(&sb, "\tprintln(\"n\", %s, %s, len(nm))\n", nprobe("nm["+k0+"]"), nprobe("nm[kv]"))
		fmt.Fprintf(&sb, "\tnv, nok := nm[%s]\n\tprintln(\"n\", %s, nok)\n\tfor range nm {\n\t\tprintln(\"nil map ranged\")\n\t}\n", k0, nprobe("nv"))
	}
	if len(lits) == 0 && h.Init%2 == 0 {
		if len(h.Ops)%3 == 0 {
			fmt.Fprintf(&sb, "\tm := make(map[%s]%s, %d)\n", kt, et, len(h.Ops)%7+2) // with a size hint
		} else {
			fmt.Fprintf(&sb, "\tm := make(map[%s]%s)\n", kt, et)
		}
	} else {
		fmt.Fprintf(&sb, "\tm := map[%s]%s{%s}\n", kt, et, strings.Join(lits, ", "))
	}
	n := 0
	for _, op := range h.Ops {
		k := c10ScriptKey(kind, op.K)
		switch op.Op {
		case "set":
			fmt.Fprintf(&sb, "\tm[%s] = %s\n", k, val(op.V))
		case "delete":
			fmt.Fprintf(&sb, "\tdelete(m, %s)\n", k)
		case "get":
			fmt.Fprintf(&sb, "\tprintln(\"g\", %s)\n", elem.probe("m["+k+"]"))
		case "getok":
			n++
			fmt.Fprintf(&sb, "\tv%d, ok%d := m[%s]\n\tprintln(\"o\", %s, ok%d)\n", n, n, k, elem.probe(fmt.Sprintf("v%d", n)), n)
		case "len":
			fmt.Fprintf(&sb, "\tprintln(\"l\", len(m))\n")
		case "clone":
			n++
			fmt.Fprintf(&sb, "\tc%d := maps.Clone(m)\n\tm[%s] = %s\n\tc%d[%s] = %s\n\tprintln(\"cl\", len(c%d), len(m))\n", n, k, val(op.V), n, c10ScriptKey(kind, op.K2), val(op.V+1), n)
		case "range":
			if n%3 == 2 {
				// two range loops over the map that start on one source line: each has an iterator of its own
				n++
				fmt.Fprintf(&sb, "\tprintln(\"rb\")\n\tpairs%d := 0\n\tfor k, v := range m { for range m { pairs%d++ }\n\t\tprintln(\"rv\", k, %s)\n\t}\n\tprintln(\"re\")\n\tprintln(\"pairs\", pairs%d == len(m)*len(m))\n", n, n, elem.probe("v"), n)
				break
			}
			if n%3 == 1 {
				// the loop variable may have the name of the ranged map: the expression is evaluated before it exists
				fmt.Fprintf(&sb, "\tprintln(\"rb\")\n\tfor k, m := range m {\n\t\tprintln(\"rv\", k, %s)\n\t}\n\tprintln(\"re\")\n", elem.probe("m"))
				n++
				break
			}
			n++
			fmt.Fprintf(&sb, "\tprintln(\"rb\")\n\tfor k, v := range m {\n\t\tprintln(\"rv\", k, %s)\n\t}\n\tprintln(\"re\")\n", elem.probe("v"))
		case "range-stepped":
			// mutate while iterating: the i-th visit performs the i-th sub-operation
			n++
			fmt.Fprintf(&sb, "\tprintln(\"rb\")\n\tstep%d := 0\n\tfor k := range m {\n\t\tprintln(\"rk\", k)\n", n)
			for i, sub := range op.Sub {
				sk := c10ScriptKey(kind, sub.K)
				switch sub.Op {
				case "set":
					fmt.Fprintf(&sb, "\t\tif step%d == %d {\n\t\t\tm[%s] = %s\n\t\t}\n", n, i, sk, val(sub.V))
				case "delete":
					fmt.Fprintf(&sb, "\t\tif step%d == %d {\n\t\t\tdelete(m, %s)\n\t\t}\n", n, i, sk)
				}
			}
			fmt.Fprintf(&sb, "\t\tstep%d++\n\t}\n\tprintln(\"re\")\n", n)
		}
	}
	fmt.Fprintf(&sb, "\tprintln(\"l\", len(m))\n}\nhist()\n")
	return sb.String(), true
}

// c10CheckScript replays the printed events against the mirror.
func c10KindByName(n string) c10KeyKind {
	for _, k := range c10Kinds {
		if k.name == n {
			return k
		}
	}
	panic("key kind " + n)
}

func c10CheckScript(h c10History, out string) string {
	kind := c10KindByName(h.Kind)
	elem := c10ElemOf(h.Elem)
	mirror := map[any]int{}
	for i := 0; i < h.Init && i < len(kind.keys); i++ {
		if h.Kind == "string" && c10Strs[int(kind.keys[i])] == "\xff" {
			continue
		}
		if _, dup := mirror[kind.native(kind.keys[i])]; !dup {
			mirror[kind.native(kind.keys[i])] = i
		}
	}
	lines := strings.Split(strings.TrimSuffix(out, "\n"), "\n")
	pos := 0
	cloneLen := 0
	nextLine := func() (string, bool) {
		if pos >= len(lines) {
			return "", false
		}
		pos++
		return lines[pos-1], true
	}
	parseKey := func(s string) any {
		if h.Kind == "string" {
			return s
		}
		f, _ := strconv.ParseFloat(s, 64)
		return f + 0
	}
	applyModel := func(op c10Op) {
		switch op.Op {
		case "clone":
			cl := map[any]bool{kind.native(kind.keys[op.K2]): true}
			for k := range mirror {
				cl[k] = true
			}
			cloneLen = len(cl)
			mirror[kind.native(kind.keys[op.K])] = op.V
		case "set":
			mirror[kind.native(kind.keys[op.K])] = op.V
		case "delete":
			delete(mirror, kind.native(kind.keys[op.K]))
		}
	}
	expectLine := func(want string) string {
		l, ok := nextLine()
		if !ok {
			return fmt.Sprintf("output ends early, expected %q", want)
		}
		if l != want {
			return fmt.Sprintf("printed %q, Go semantics give %q", l, want)
		}
		return ""
	}
	{
		z := elem.renderProbe(0, false)
		if h.Elem == "string" {
			z = "[]"
		}
		if h.Elem == "any" {
			z = "nil"
		}
		for _, want := range []string{"n " + z + " " + z + " 0", "n " + z + " false"} {
			if p := expectLine(want); p != "" {
				return "reading a nil map: " + p
			}
		}
	}
	all := append(append([]c10Op{}, h.Ops...), c10Op{Op: "len"})
	for oi, op := range all {
		var p string
		switch op.Op {
		case "set", "delete":
			applyModel(op)
		case "clone":
			applyModel(op)
			p = expectLine(fmt.Sprintf("cl %d %d", cloneLen, len(mirror)))
		case "get":
			v, present := mirror[kind.native(kind.keys[op.K])]
			p = expectLine(strings.TrimRight("g "+elem.renderProbe(v, present), " "))
			if h.Elem == "string" && !present {
				p = ""
				l := lines[pos-1]
				if l != "g " && l != "g" {
					p = fmt.Sprintf("printed %q for a missing key of a string-valued map", l)
				}
			}
		case "getok":
			v, present := mirror[kind.native(kind.keys[op.K])]
			want := "o " + elem.renderProbe(v, present) + " " + strconv.FormatBool(present)
			l, ok := nextLine()
			if !ok || strings.Join(strings.Fields(l), " ") != strings.Join(strings.Fields(want), " ") {
				p = fmt.Sprintf("printed %q, Go semantics give %q", l, want)
			}
		case "len":
			p = expectLine("l " + strconv.Itoa(len(mirror)))
		case "range", "range-stepped":
			if p = expectLine("rb"); p != "" {
				break
			}
			liveAtStart := map[any]bool{}
			for k := range mirror {
				liveAtStart[k] = true
			}
			everDeleted := map[any]bool{}
			visited := map[any]bool{}
			step := 0
			for p == "" {
				l, ok := nextLine()
				if !ok {
					p = "output ends inside a range"
					break
				}
				if l == "re" {
					break
				}
				f := strings.SplitN(l, " ", 3)
				if len(f) < 2 || (f[0] != "rv" && f[0] != "rk") {
					// a string key may be empty: "rk " / "rv  v"
					if l == "rk" || strings.HasPrefix(l, "rv") || strings.HasPrefix(l, "rk") {
						f = append(f, "", "")
					} else {
						p = fmt.Sprintf("unexpected line %q inside a range", l)
						break
					}
				}
				key := ""
				if len(f) > 1 {
					key = f[1]
				}
				nk := parseKey(key)
				if visited[nk] {
					p = fmt.Sprintf("range visited key %v twice", nk)
					break
				}
				visited[nk] = true
				v, live := mirror[nk]
				if !live {
					p = fmt.Sprintf("range visited key %v, which is not in the map at that moment", nk)
					break
				}
				if f[0] == "rv" {
					got := ""
					if len(f) > 2 {
						got = f[2]
					}
					if got != elem.renderProbe(v, true) {
						p = fmt.Sprintf("range delivered %v:%s, the map holds %s", nk, got, elem.renderProbe(v, true))
						break
					}
				}
				if op.Op == "range-stepped" && step < len(op.Sub) {
					if op.Sub[step].Op == "delete" {
						everDeleted[kind.native(kind.keys[op.Sub[step].K])] = true
					}
					applyModel(op.Sub[step])
				}
				step++
			}
			if p == "" {
				for k := range liveAtStart {
					if _, still := mirror[k]; still && !everDeleted[k] && !visited[k] {
						p = fmt.Sprintf("range did not visit key %v, which was in the map for the whole loop", k)
					}
				}
			}
			if p == "" && pos < len(lines) && strings.HasPrefix(lines[pos], "pairs ") {
				// the nested same-line spelling also counted the visits of its inner loop
				if lines[pos] != "pairs true" {
					p = "an inner range loop on the same source line did not run len(m) times per outer visit"
				}
				pos++
			}
		}
		if p != "" {
			return fmt.Sprintf("op %d (%s): %s", oi, op.Op, p)
		}
	}
	if pos != len(lines) && !(pos == len(lines)-1 && lines[pos] == "") {
		return fmt.Sprintf("%d extra output lines", len(lines)-pos)
	}
	return ""
}

func c10RunScript(h c10History) (string, bool) {
	// string keys with spaces or invalid bytes are left to the host route
	src, ok := c10Script(h)
	if !ok {
		return "", false
	}
	m := core.NewMachine(core.VMOpts{Optimize: true, Obs: core.NewObs(core.SmallBudget, false, nil)})
	o := m.Eval(nil, src)
	if o.Panic != "" {
		return "a Go panic escaped: " + o.Panic, true
	}
	if o.Err != "" {
		return "the history fails in goatlang: " + core.ErrFirstLine(o.Err), true
	}
	return c10CheckScript(h, o.Out), true
}

func runC10(r *core.Run) {
	r.SetRule("random operation histories (insert, update, delete, lookup, comma-ok, len, full range, range with insert/delete interleaved at chosen visits, drain-to-empty to cross the compaction threshold, delete->reinsert of the same key) over a universe of 2-8 keys per key kind {string, int, int8, uint8, uint32, float64 incl. +-0 and +-Inf, bool} and element kinds {int, string, []int, float64, uint8 - the last two observed in scripts through a type-sensitive expression -, any with stored nils}; reads of a nil map of the same type through literal and variable keys; a range whose value variable has the name of the map; maps.Clone followed by one insert into the original and one into the clone; every history runs through the host Value API (with the internal key list inspected after every operation) and, for string and int keys, also as a generated script. non-trivial = at least 5 operations executed; distinct by history")
	r.Assume("a native Go map is the model for point queries; for ranges only the Go-spec constraints are judged (exactly once for keys live throughout, never a key that is not in the map at that moment, at most once for inserted keys), never the order; NaN keys are excepted by the property")
	n := r.N(20000, 600000)
	core.Parallel((n+199)/200, func(chunk int) {
		for i := chunk * 200; i < (chunk+1)*200 && i < n; i++ {
			h := c10GenHistory(r.Seed, i)
			r.Eval(1)
			p, events := c10RunHost(h)
			if p != "" {
				r.Violate(core.Violation{Check: "c10-host", Index: i, What: p, Case: h})
				continue
			}
			r.Count("host_api_operations", events)
			if sp, ran := c10RunScript(h); ran {
				r.Count("script_histories", 1)
				if sp != "" {
					src, _ := c10Script(h)
					r.Violate(core.Violation{Check: "c10-script", Index: i, What: sp, Case: h, Extra: src})
					continue
				}
			}
			if events >= 5 {
				r.Distinct(fmt.Sprint(h))
			}
			r.Count("key_kind:"+h.Kind, 1)
			if i%5003 == 0 {
				r.Sample(h)
			}
		}
	})
	// pinned witness of F10
	m := core.NewMachine(core.VMOpts{Optimize: true})
	o := m.Eval(nil, `m := map[int]int{1:1,2:2,3:3}; delete(m,1); m[1]=5; n := 0; for k := range m { if k == 1 { n++ } }; n`)
	r.Eval(1)
	if o.Failed() || len(o.Rets) != 1 || o.Rets[0] != "1" {
		r.Violate(core.Violation{Check: "c10-sentinel", What: "pinned witness of repaired finding F10 fails again (delete then re-insert lists the key twice)", Case: "delete(m,1); m[1]=5; range m", Observed: o})
	}
}

func replayC10(r *core.Run, v *core.Violation) {
	var h c10History
	if err := remarshal(v.Case, &h); err != nil {
		return
	}
	if p, _ := c10RunHost(h); p != "" {
		r.Violate(core.Violation{Check: "c10-host", What: p, Case: h})
	}
	if p, ran := c10RunScript(h); ran && p != "" {
		r.Violate(core.Violation{Check: "c10-script", What: p, Case: h})
	}
}
