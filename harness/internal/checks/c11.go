package checks

import (
	"fmt"
	"strconv"
	"strings"

	"verif/internal/core"
)

// C11 — slices alias, grow and copy as Go slices do.
//
// Oracle: an explicit model of the Go specification's slice semantics (arrays
// with identity; views with offset, length and *known* capacity). The
// generator never produces an observation whose outcome depends on the growth
// policy (appending to a view with unknown spare capacity while another live
// variable shares its array). Observed: the contents, length and nil-ness of
// every live slice variable after every step of a generated script.

func init() { register("C11", &Check{Run: runC11, Replay: replayC11}) }

type slArray struct{ data []int }

type slView struct {
	arr      *slArray
	off, ln  int
	cp       int  // capacity (from off); only meaningful when capKnown
	capKnown bool // spec-guaranteed capacity
	isNil    bool
}

func (v slView) elems() []int {
	if v.isNil || v.arr == nil {
		return nil
	}
	return v.arr.data[v.off : v.off+v.ln]
}

func (v slView) render() string {
	var p []string
	for _, e := range v.elems() {
		p = append(p, strconv.Itoa(e))
	}
	return "[" + strings.Join(p, " ") + "]"
}

type slStep struct {
	Stmt   string   `json:"stmt"`
	Prints []string `json:"expected_prints,omitempty"`
	Fails  bool     `json:"must_fail,omitempty"`
}

type slHistory struct {
	NVars int `json:"vars"`
	// NRows further variables are the rows g[0..NRows-1] of a slice of slices (made with make or grown from
	// nil): nil rows that still carry the element type
	NRows   int      `json:"rows,omitempty"`
	RowInit int      `json:"row_init,omitempty"`
	Elem    string   `json:"element_type"`
	Steps   []slStep `json:"steps"`
}

type slGen struct {
	r    *core.Rng
	vars []slView
	h    slHistory
	val  int
}

func (g *slGen) nextVal() int { g.val++; return c11Norm(g.h.Elem, g.val*3+1) }

// c11Norm wraps a value to the element type (the model computes over ints).
func c11Norm(elem string, x int) int {
	if elem == "uint8" {
		return x & 255
	}
	return x
}

// c11Probe is a type-sensitive use of the first element: it shows whether the element has the slice's
// element type (a float64 element halves exactly, a uint8 element wraps).
func c11Probe(elem string, e int) string {
	switch elem {
	case "float64":
		return strconv.FormatFloat(float64(e)/2, 'g', -1, 64)
	case "uint8":
		return strconv.Itoa((e + 200) & 255)
	}
	return strconv.Itoa(e / 2)
}

func c11ProbeExpr(elem, name string) string {
	if elem == "uint8" {
		return name + "[0]+200"
	}
	return name + "[0]/2"
}

func c11Name(h slHistory, i int) string {
	if i >= h.NVars {
		return fmt.Sprintf("g[%d]", i-h.NVars)
	}
	return fmt.Sprintf("s%d", i)
}

func (g *slGen) shared(i int) bool {
	if g.vars[i].arr == nil {
		return false
	}
	for j, o := range g.vars {
		if j != i && o.arr == g.vars[i].arr {
			return true
		}
	}
	return false
}

// snapshot: what the script prints after every step
func (g *slGen) snapshot() []string {
	var out []string
	for i, v := range g.vars {
		out = append(out, fmt.Sprintf("s%d %s %d %v %v", i, v.render(), v.ln, v.isNil, v.isNil))
		if v.ln > 0 {
			out = append(out, "h "+c11Probe(g.h.Elem, v.elems()[0]))
		}
	}
	return out
}

func (g *slGen) add(stmt string, extra ...string) {
	g.h.Steps = append(g.h.Steps, slStep{Stmt: stmt, Prints: append(extra, g.snapshot()...)})
}

// appendModel computes append(src, vals...) per the spec.
func appendModel(src slView, vals []int) slView {
	if len(vals) == 0 {
		return src
	}
	if src.capKnown && !src.isNil && src.ln+len(vals) <= src.cp {
		for i, x := range vals {
			src.arr.data[src.off+src.ln+i] = x
		}
		src.ln += len(vals)
		return src
	}
	// new array; its spare capacity is the implementation's business
	na := &slArray{data: append(append([]int{}, src.elems()...), vals...)}
	return slView{arr: na, off: 0, ln: len(na.data), cp: len(na.data), capKnown: false}
}

func (g *slGen) step() {
	n := len(g.vars)
	k := g.r.Intn(n)
	j := g.r.Intn(n)
	name := func(i int) string { return c11Name(g.h, i) }
	switch c := g.r.Intn(24); {
	case c < 2: // make
		ln := g.r.Intn(5)
		if g.r.Chance(1, 3) {
			ln = g.r.Range(5, 40) // beyond small-size thresholds
		}
		g.vars[k] = slView{arr: &slArray{data: make([]int, ln)}, ln: ln, cp: ln, capKnown: true}
		g.add(fmt.Sprintf("%s = make([]%s, %d)", name(k), g.h.Elem, ln))
	case c < 5: // literal
		ln := g.r.Intn(5)
		if g.r.Chance(1, 5) {
			ln = g.r.Range(5, 12)
			if g.r.Chance(1, 3) {
				ln = g.r.Range(13, 48) // long literals: capacity == length whatever the allocator rounds to
			}
		}
		a := &slArray{}
		var lits []string
		for i := 0; i < ln; i++ {
			x := g.nextVal()
			a.data = append(a.data, x)
			lits = append(lits, strconv.Itoa(x))
		}
		g.vars[k] = slView{arr: a, ln: ln, cp: ln, capKnown: true}
		g.add(fmt.Sprintf("%s = []%s{%s}", name(k), g.h.Elem, strings.Join(lits, ", ")))
	case c < 6 && g.r.Chance(1, 3): // a literal of constants evaluated again and again: every evaluation yields a fresh array
		a := &slArray{data: []int{1, 2, 3, 4, 5, 6, 7, 8, 9}}
		g.vars[k] = slView{arr: a, ln: 9, cp: 9, capKnown: true}
		g.add(fmt.Sprintf("%s = lit9()", name(k)))
	case c < 6 && g.r.Bool(): // the slice a variadic function received (a fresh array per call, capacity == length)
		ln := g.r.Intn(4)
		a := &slArray{}
		var lits []string
		for i := 0; i < ln; i++ {
			x := g.nextVal()
			a.data = append(a.data, x)
			lits = append(lits, strconv.Itoa(x))
		}
		if ln == 0 {
			g.vars[k] = slView{isNil: true}
		} else {
			g.vars[k] = slView{arr: a, ln: ln, cp: ln, capKnown: true}
		}
		g.add(fmt.Sprintf("%s = pack(%s)", name(k), strings.Join(lits, ", ")))
	case c < 6: // nil
		g.vars[k] = slView{isNil: true}
		g.add(fmt.Sprintf("%s = nil", name(k)))
	case c < 10: // sub-slice (bounds computed through a variable so they are not constants)
		src := g.vars[j]
		limit := src.ln
		if src.capKnown && !src.isNil && g.r.Bool() {
			limit = src.cp // re-slicing up to the capacity is defined when the capacity is
		}
		lo := g.r.Intn(src.ln + 1)
		hi := lo + g.r.Intn(limit-lo+1)
		var expr string
		switch g.r.Intn(5) {
		case 0:
			hi = src.ln
			expr = fmt.Sprintf("%s[%d:]", name(j), lo)
		case 1:
			lo = 0
			expr = fmt.Sprintf("%s[:%d]", name(j), hi)
		case 2:
			lo, hi = 0, src.ln
			expr = fmt.Sprintf("%s[:]", name(j))
		case 3:
			lo, hi = 0, 0
			expr = fmt.Sprintf("%s[:0]", name(j))
		default:
			expr = fmt.Sprintf("%s[z+%d:z+%d]", name(j), lo, hi)
		}
		if src.isNil {
			g.vars[k] = slView{isNil: true}
		} else {
			g.vars[k] = slView{arr: src.arr, off: src.off + lo, ln: hi - lo, cp: src.cp - lo, capKnown: src.capKnown}
		}
		g.add(fmt.Sprintf("%s = %s", name(k), expr))
	case c < 13: // element write
		if g.vars[k].ln == 0 {
			return
		}
		i := g.r.Intn(g.vars[k].ln)
		x := g.nextVal()
		g.vars[k].arr.data[g.vars[k].off+i] = x
		if g.r.Bool() {
			g.add(fmt.Sprintf("%s[%d] = %d", name(k), i, x))
		} else {
			g.add(fmt.Sprintf("%s[z+%d] = %d", name(k), i, x))
		}
	case c < 14 && g.h.Elem == "uint8": // append the bytes of a string (spread), also through a sub-slice into shared capacity
		src := g.vars[j]
		lit := core.Pick(g.r, []string{`"go"`, `"é!"`, `"日本"`, `"a\xffb"`, `""`, `"x"`})
		str, _ := strconv.Unquote(lit)
		fits := src.capKnown && !src.isNil && src.ln+len(str) <= src.cp
		if len(str) > 0 && !fits && !src.isNil && !src.capKnown && (k != j || g.shared(j)) {
			return
		}
		var vals []int
		for i := 0; i < len(str); i++ {
			vals = append(vals, int(str[i]))
		}
		if len(vals) == 0 {
			g.vars[k] = src
		} else {
			g.vars[k] = appendModel(src, vals)
		}
		g.add(fmt.Sprintf("%s = append(%s, %s...)", name(k), name(j), lit))
	case c < 19: // append values
		src := g.vars[j]
		nv := g.r.Range(1, 3)
		fits := src.capKnown && !src.isNil && src.ln+nv <= src.cp
		if !fits && !src.isNil && !src.capKnown && (k != j || g.shared(j)) {
			return // outcome would depend on the growth policy
		}
		var vals []int
		var lits []string
		for i := 0; i < nv; i++ {
			x := g.nextVal()
			vals = append(vals, x)
			lits = append(lits, strconv.Itoa(x))
		}
		g.vars[k] = appendModel(src, vals)
		g.add(fmt.Sprintf("%s = append(%s, %s)", name(k), name(j), strings.Join(lits, ", ")))
	case c < 21: // append spread (incl. self-spread)
		src := g.vars[j]
		l := g.r.Intn(n)
		vals := append([]int{}, g.vars[l].elems()...)
		fits := src.capKnown && !src.isNil && src.ln+len(vals) <= src.cp
		if len(vals) > 0 && !fits && !src.isNil && !src.capKnown && (k != j || g.shared(j)) {
			return
		}
		if len(vals) > 8 {
			return
		}
		if len(vals) == 0 {
			g.vars[k] = src
		} else {
			g.vars[k] = appendModel(src, vals)
		}
		g.add(fmt.Sprintf("%s = append(%s, %s...)", name(k), name(j), name(l)))
	case c < 23: // copy (may overlap)
		dst, src := g.vars[k], g.vars[j]
		cnt := dst.ln
		if src.ln < cnt {
			cnt = src.ln
		}
		tmp := append([]int{}, src.elems()...)
		for i := 0; i < cnt; i++ {
			dst.arr.data[dst.off+i] = tmp[i]
		}
		if g.r.Chance(1, 3) {
			g.add(fmt.Sprintf("println(\"n\", cp(%s, %s))", name(k), name(j)), fmt.Sprintf("n %d", cnt))
		} else if g.r.Bool() {
			g.add(fmt.Sprintf("println(\"n\", copy(%s, %s))", name(k), name(j)), fmt.Sprintf("n %d", cnt))
		} else {
			g.add(fmt.Sprintf("copy(%s, %s)", name(k), name(j)))
		}
	default: // range with writes in the body
		v := g.vars[k]
		if v.ln == 0 {
			g.add(fmt.Sprintf("for i, e := range %s { %s[i] = e + 1 }", name(k), name(k)))
			return
		}
		var extra []string
		ln0 := v.ln
		for i := 0; i < ln0; i++ {
			e := v.arr.data[v.off+i]
			extra = append(extra, fmt.Sprintf("r %d %d", i, e))
			v.arr.data[v.off+(i+1)%ln0] = c11Norm(g.h.Elem, e+100)
		}
		g.add(fmt.Sprintf("for i, e := range %s { println(\"r\", i, e); %s[(i+1)%%len(%s)] = e + 100 }", name(k), name(k), name(k)), extra...)
	}
}

// failing final step: indexing or slicing out of range with computed bounds
func (g *slGen) failStep() {
	k := g.r.Intn(len(g.vars))
	v := g.vars[k]
	name := c11Name(g.h, k)
	var stmt string
	switch g.r.Intn(6) {
	case 0:
		stmt = fmt.Sprintf("w = %s[z+%d]", name, v.ln)
	case 1:
		stmt = fmt.Sprintf("w = %s[z-1]", name)
	case 2:
		stmt = fmt.Sprintf("%s[z+%d] = 1", name, v.ln+g.r.Intn(3))
	case 3:
		if v.isNil || !v.capKnown {
			stmt = fmt.Sprintf("w = %s[z+%d]", name, v.ln)
		} else {
			stmt = fmt.Sprintf("t = %s[z:z+%d]", name, v.cp+1)
		}
	case 4:
		stmt = fmt.Sprintf("t = %s[z+%d:z+%d]", name, v.ln+1, v.ln)
	default:
		stmt = fmt.Sprintf("t = %s[z:z-1]", name)
	}
	g.h.Steps = append(g.h.Steps, slStep{Stmt: stmt, Fails: true})
}

func c11Gen(seed int64, idx int) slHistory {
	g := &slGen{r: core.Derive(seed, "c11", idx)}
	n := g.r.Range(3, 7)
	g.h.NVars = n
	g.h.Elem = core.Pick(g.r, []string{"int", "int", "float64", "uint8"})
	if g.r.Chance(1, 3) {
		g.h.NRows, g.h.RowInit = g.r.Range(1, 3), g.r.Intn(3)
	}
	for i := 0; i < n+g.h.NRows; i++ {
		g.vars = append(g.vars, slView{isNil: true})
	}
	steps := g.r.Range(12, 40)
	for len(g.h.Steps) < steps {
		g.step()
	}
	if g.r.Chance(1, 3) {
		g.failStep()
	}
	return g.h
}

func c11Script(h slHistory) string {
	var sb strings.Builder
	if h.Elem == "" {
		h.Elem = "int"
	}
	fmt.Fprintf(&sb, "func pack(xs ...%s) []%s {\n\treturn xs\n}\n\n", h.Elem, h.Elem)
	fmt.Fprintf(&sb, "func lit9() []%s {\n\treturn []%s{1, 2, 3, 4, 5, 6, 7, 8, 9}\n}\n\n", h.Elem, h.Elem)
	fmt.Fprintf(&sb, "func cp(dst []%s, src []%s) int {\n\treturn copy(dst, src)\n}\n\n", h.Elem, h.Elem)
	fmt.Fprintf(&sb, "func hist(z int) {\n\tvar t []%s\n\tvar w %s\n\t_, _ = t, w\n", h.Elem, h.Elem)
	for i := 0; i < h.NVars; i++ {
		fmt.Fprintf(&sb, "\tvar s%d []%s\n", i, h.Elem)
	}
	if h.NRows > 0 {
		switch h.RowInit {
		case 0:
			fmt.Fprintf(&sb, "\tg := make([][]%s, %d)\n", h.Elem, h.NRows)
		case 1:
			fmt.Fprintf(&sb, "\tvar g [][]%s\n\tfor len(g) < %d {\n\t\tg = append(g, nil)\n\t}\n", h.Elem, h.NRows)
		default:
			fmt.Fprintf(&sb, "\tg := [][]%s{%s}\n", h.Elem, strings.TrimSuffix(strings.Repeat("nil, ", h.NRows), ", "))
		}
	}
	for si, st := range h.Steps {
		fmt.Fprintf(&sb, "\tprintln(\"#\", %d)\n\t%s\n", si, st.Stmt)
		if st.Fails {
			break
		}
		for i := 0; i < h.NVars+h.NRows; i++ {
			nm := c11Name(h, i)
			fmt.Fprintf(&sb, "\tprintln(\"s%d\", %s, len(%s), %s == nil, nil == %s)\n", i, nm, nm, nm, nm)
			fmt.Fprintf(&sb, "\tif len(%s) > 0 {\n\t\tprintln(\"h\", %s)\n\t}\n", nm, c11ProbeExpr(h.Elem, nm))
		}
	}
	sb.WriteString("\tprintln(\"done\")\n}\nhist(0)\n")
	return sb.String()
}

func c11Expected(h slHistory) (string, bool) {
	var sb strings.Builder
	fails := false
	for si, st := range h.Steps {
		fmt.Fprintf(&sb, "# %d\n", si)
		if st.Fails {
			fails = true
			break
		}
		for _, p := range st.Prints {
			sb.WriteString(p + "\n")
		}
	}
	if !fails {
		sb.WriteString("done\n")
	}
	return sb.String(), fails
}

func c11Decide(h slHistory) (what string, src string, got core.Outcome, want string) {
	src = c11Script(h)
	m := core.NewMachine(core.VMOpts{Optimize: true, Obs: core.NewObs(core.SmallBudget, false, nil)})
	got = m.Eval(nil, src)
	want, fails := c11Expected(h)
	switch {
	case got.Panic != "":
		what = "a Go panic escaped: " + got.Panic
	case fails && got.Err == "":
		what = "indexing or slicing out of range with computed bounds was not reported as an error"
	case !fails && got.Err != "":
		what = "the history fails in goatlang: " + core.ErrFirstLine(got.Err)
	case got.Out != want:
		what = "contents / length / nil-ness of a slice variable differ from the Go specification's model"
	}
	return
}

func runC11(r *core.Run) {
	r.SetRule("histories of 12-40 steps over a pool of 3-7 slice variables of one element type (int, float64 or uint8): make (lengths 0-20), the slice a variadic function received and returned, literal, nil, sub-slice (all five spellings, upper bound up to the capacity when the specification fixes it, bounds computed through a variable), element write, append of 1-3 values, append-spread including self-spread, copy incl. overlapping, range with writes in the body; every variable's contents, length, nil-ness and a type-sensitive use of its first element (halved for float64, +200 wrapped for uint8) are printed after every step; one third of the histories end with an out-of-range index or slice expression with computed bounds, which must be an error. non-trivial = at least 8 steps executed; distinct by script text")
	r.Assume("the model implements the Go specification: make(len) and literals have cap == len, s[i:j] has cap(s)-i, append within capacity writes in place, append beyond it yields a fresh array of unspecified spare capacity; the generator never appends to a slice of unspecified spare capacity while another live variable shares its array, so no expected value depends on the growth policy")
	n := r.N(6000, 200000)
	core.Parallel((n+99)/100, func(chunk int) {
		for i := chunk * 100; i < (chunk+1)*100 && i < n; i++ {
			h := c11Gen(r.Seed, i)
			r.Eval(1)
			what, src, got, want := c11Decide(h)
			if what != "" {
				r.Violate(core.Violation{Check: "c11", Index: i, What: what, Case: h, Expected: want, Observed: got, Extra: map[string]any{"script": src, "first_difference": firstDiff(want, got.Out)}})
				continue
			}
			if len(h.Steps) >= 8 {
				r.Distinct(src)
			}
			for _, st := range h.Steps {
				f := strings.Fields(st.Stmt)
				kind := f[0]
				if len(f) > 2 {
					switch {
					case strings.HasPrefix(f[2], "append") && strings.HasSuffix(st.Stmt, "...)"):
						kind = "append-spread"
					case strings.HasPrefix(f[2], "append"):
						kind = "append"
					case strings.HasPrefix(f[2], "make"):
						kind = "make"
					case strings.HasPrefix(f[2], "[]int"):
						kind = "literal"
					case f[2] == "nil":
						kind = "nil"
					case strings.Contains(f[2], ":"):
						kind = "sub-slice"
					case strings.Contains(f[0], "["):
						kind = "element-write"
					}
				}
				if strings.Contains(st.Stmt, "copy(") {
					kind = "copy"
				}
				if st.Fails {
					kind = "out-of-range (must fail)"
				}
				if f[0] == "for" {
					kind = "range-with-writes"
				}
				r.Count("step:"+kind, 1)
			}
			if i%3001 == 0 {
				r.Sample(map[string]any{"script": excerpt(src, 30)})
			}
		}
	})
	// pinned witnesses of repaired findings
	for _, s := range []struct{ id, src, want string }{
		{"F19", `s := []int{1,2,3}; j := -1; t := s[0:j]; t`, "error"},
		{"F32", `var k []int; k = k[:len(k)/2]; a := k == nil; a`, "true"},
		{"F33", `var k []int; k = append(k, k...); a := k == nil; a`, "true"},
	} {
		m := core.NewMachine(core.VMOpts{Optimize: true})
		o := m.Eval(nil, s.src)
		r.Eval(1)
		got := "error"
		if o.Err == "" && len(o.Rets) == 1 {
			got = o.Rets[0]
		}
		if got != s.want || o.Panic != "" {
			r.Violate(core.Violation{Check: "c11-sentinel", What: "pinned witness of repaired finding " + s.id + " fails again", Case: s.src, Expected: s.want, Observed: o})
		}
	}
}

func replayC11(r *core.Run, v *core.Violation) {
	var h slHistory
	if err := remarshal(v.Case, &h); err != nil || len(h.Steps) == 0 {
		return
	}
	what, src, got, want := c11Decide(h)
	fmt.Printf("%s\n--- expected ---\n%s--- goatlang ---\n%s err=%s\n", src, want, got.Out, got.Err)
	if what != "" {
		r.Violate(core.Violation{Check: "c11", What: what, Case: h})
	}
}
