// Package checks holds one deciding check per property.
package checks

import (
	"encoding/json"
	"fmt"
	"os"

	"verif/internal/core"
)

type Check struct {
	Run    func(r *core.Run)
	Replay func(r *core.Run, v *core.Violation) // re-executes one recorded case
}

var Registry = map[string]*Check{}

func register(id string, c *Check) { Registry[id] = c }

// LoadViolation reads a replay file.
func LoadViolation(path string) (*core.Violation, error) {
	b, err := os.ReadFile(path)
	if err != nil {
		return nil, err
	}
	var v core.Violation
	if err := json.Unmarshal(b, &v); err != nil {
		return nil, fmt.Errorf("%s: %w", path, err)
	}
	return &v, nil
}

// remarshal converts the generic JSON of Violation.Case back into a typed case.
func remarshal(in any, out any) error {
	b, err := json.Marshal(in)
	if err != nil {
		return err
	}
	return json.Unmarshal(b, out)
}
