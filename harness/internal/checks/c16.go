package checks

import (
	"fmt"
	"sort"
	"strings"

	"verif/internal/core"
)

// C16 — declaration order and file layout inside a package do not matter.
//
// Metamorphic oracle: every permutation of the hoistable declarations
// (functions, methods, struct types) and every repartition into files prints
// what the canonical layout prints; the canonical layout is additionally
// compared with the Go toolchain (GOARCH=386).

func init() { register("C16", &Check{Run: runC16, Replay: replayC16}) }

type c16Pkg struct {
	Hoist []string `json:"hoistable"` // functions, methods, struct types
	Spine []string `json:"spine"`     // constants, variable initialisers, init: relative order is kept
}

type c16Variant struct {
	Pkg   c16Pkg            `json:"package"`
	Files map[string]string `json:"files"`
	Order []string          `json:"order"`
	Lib   bool              `json:"as_imported_package,omitempty"`
}

// c16File renders one file: package clause, the imports this file's text needs
// (a file that needs none starts directly with a declaration), declarations.
func c16File(decls []string) string { return c16FileImports(decls, false) }

// c16FileImports: with both set, the file imports fmt and strings whatever it uses (identical headers).
func c16FileImports(decls []string, both bool) string {
	body := strings.Join(decls, "\n")
	var imps []string
	if both || strings.Contains(body, "fmt.") {
		imps = append(imps, "\t\"fmt\"\n")
	}
	if both || strings.Contains(body, "strings.") {
		imps = append(imps, "\t\"strings\"\n")
	}
	if strings.Contains(body, "c16sub.") {
		imps = append(imps, "\t\""+c16SubPath+"\"\n") // a script package: whichever file uses it imports it
	}
	h := "package main\n\n"
	if len(imps) > 0 {
		h += "import (\n" + strings.Join(imps, "") + ")\n\n"
	}
	return h + body
}

// c16SubPath / c16SubSrc: a small script package that one hoistable function uses.
const c16SubPath = "ref/c16sub"
const c16SubSrc = "package c16sub\n\nvar Calls int\n\nfunc Double(n int) int {\n\tCalls++\n\treturn n * 2\n}\n"

// c16LitA / c16LitB have the same shape, so that their literals sit at the same line and column when each is the
// first declaration of its file; both literals declare a local type named rec.
const c16LitA = "func litA() string {\n\tf := func() string {\n\t\ttype rec struct {\n\t\t\tx int\n\t\t}\n\t\treturn fmt.Sprint(&rec{x: 1}, strings.Repeat(\"a\", 2))\n\t}\n\treturn f()\n}\n"
const c16LitB = "func litB() string {\n\tf := func() string {\n\t\ttype rec struct {\n\t\t\ty string\n\t\t}\n\t\treturn fmt.Sprint(&rec{y: \"s\"}, strings.Repeat(\"b\", 2))\n\t}\n\treturn f()\n}\n"

// c16Wide: 20 fields, so that its names are interned 16 and more apart.
var c16Wide = func() string {
	var sb strings.Builder
	sb.WriteString("type Wide struct {\n")
	for i := 0; i < 20; i++ {
		fmt.Fprintf(&sb, "\tF%02d int\n", i)
	}
	sb.WriteString("}\n")
	return sb.String()
}()

// c16StripStructs drops the lines that print whole struct references: Go's %v shows no field names there (C14
// defines goatlang's rendering), so those lines are compared between layouts only, not with Go.
func c16StripStructs(out string) string {
	var keep []string
	for _, l := range strings.Split(out, "\n") {
		if !strings.HasPrefix(l, "S: ") {
			keep = append(keep, l)
		}
	}
	return strings.Join(keep, "\n")
}

func c16Gen(seed int64, idx int) c16Pkg {
	rng := core.Derive(seed, "c16", idx)
	var p c16Pkg
	nf := rng.Range(2, 6)
	// struct types referring to each other
	p.Hoist = append(p.Hoist,
		"type A struct {\n\tN int\n\tB *B\n\tTag string\n}\n",
		"type B struct {\n\tS string\n\tA *A\n}\n",
		fmt.Sprintf("func (a *A) Inc() int {\n\ta.N += %d\n\treturn a.N\n}\n", rng.Range(1, 5)),
		"func (b *B) Name() string {\n\tif b.A != nil {\n\t\treturn b.S + fmt.Sprint(b.A.N, k1)\n\t}\n\treturn b.S\n}\n",
		"func mk(n int) *A {\n\ta := &A{N: n, Tag: strings.Repeat(\"t\", n%3)}\n\ta.B = &B{S: \"b\", A: a}\n\treturn a\n}\n",
		// functions sharing their names with a field and with a method (separate name spaces)
		"func Tag(a *A) string {\n\treturn a.Tag + \"!\"\n}\n",
		"func Name(b *B) string {\n\treturn \"<\" + b.Name() + \">\"\n}\n",
		// struct types that share field names in a different order, and a wide type whose names a narrow one reuses
		"type Size struct {\n\tW int\n\tH int\n}\n",
		"type Box struct {\n\tH int\n\tW int\n\tTag string\n}\n",
		"func area(s *Size, b *Box) int {\n\tb.H = s.W + 1\n\tb.W = s.H + 2\n\ts.W += b.H\n\treturn s.W*s.H + b.W*b.H\n}\n",
		c16Wide,
		"type Pair struct {\n\tF00 int\n\tF16 int\n\tF08 int\n}\n",
		"func pair(n int) *Pair {\n\tp := &Pair{F00: n, F16: n + 1}\n\tp.F16 += 10\n\tp.F08 = p.F00 + p.F16\n\tp.F00++\n\treturn p\n}\n",
		"func wide(n int) *Wide {\n\tw := &Wide{F03: n, F19: n * 2}\n\tw.F19 += w.F03\n\tw.F16 = 7\n\tw.F00 = w.F16 + w.F19\n\treturn w\n}\n",
		"func localT(n int) int {\n\ttype Size struct {\n\t\tA int\n\t}\n\tv := &Size{A: n}\n\treturn v.A + 1\n}\n",
		c16LitA, c16LitB,
		// package functions named like predeclared ones (the package's own definition wins wherever it is declared)
		"func max(a int, b int) int {\n\tif a > b {\n\t\treturn a + 1000\n\t}\n\treturn b + 1000\n}\n",
		"func min(xs []int) int {\n\tm := 9999\n\tfor _, x := range xs {\n\t\tif x < m {\n\t\t\tm = x\n\t\t}\n\t}\n\treturn m - 1\n}\n",
		"func clear(n int) string {\n\treturn fmt.Sprint(\"cleared\", n)\n}\n",
		"func divmod(a int, b int) (int, int) {\n\treturn a / b, a % b\n}\n",
		// (a multi-valued call as the only argument of another call: goatlang forwards the first result only - recorded
		// finding K07 - so the line is compared between layouts, not with Go)
		"func showdm() string {\n\treturn fmt.Sprint(divmod(17, 5))\n}\n",
		"func usesBuiltinNames(n int) string {\n\tq, r := divmod(n, 5)\n\treturn fmt.Sprint(max(n, 3), min([]int{n, 4, 8}), clear(n), q, r)\n}\n",
		// types without fields, each with a method of the same name
		"type Dog struct {\n}\n",
		"type Cat struct {\n}\n",
		"type Cow struct {\n}\n",
		"func (d *Dog) Sound() string {\n\treturn \"woof\"\n}\n",
		"func (c *Cat) Sound() string {\n\treturn \"meow\"\n}\n",
		"func (c *Cow) Sound() string {\n\treturn \"moo\"\n}\n",
		"func (c *Cat) Legs() int {\n\treturn 4\n}\n",
		"func sounds() string {\n\td := &Dog{}\n\tc := &Cat{}\n\tw := &Cow{}\n\treturn d.Sound() + c.Sound() + w.Sound() + fmt.Sprint(c.Legs())\n}\n",
		"func dbl(n int) int {\n\treturn c16sub.Double(n) + 1\n}\n",
		// a local constant named like a package-level one, in a function and in a method
		"func fine(n int) int {\n\tconst step = 3\n\treturn n + step\n}\n",
		"func coarse(n int) int {\n\treturn n*step + step\n}\n",
		"func (a *A) Fine() int {\n\tconst step = 4\n\tconst unit = \"u\"\n\treturn a.N + step + len(unit)\n}\n",
		"func (b *B) Coarse() int {\n\treturn len(b.S) + step + len(unit)\n}\n",
		"func even(n int) bool {\n\tif n == 0 {\n\t\treturn true\n\t}\n\treturn odd(n - 1)\n}\n",
		"func odd(n int) bool {\n\tif n == 0 {\n\t\treturn false\n\t}\n\treturn even(n - 1)\n}\n",
	)
	for i := 0; i < nf; i++ {
		var body strings.Builder
		fmt.Fprintf(&body, "func f%d(x int) int {\n", i)
		if i > 0 {
			j := rng.Intn(i)
			fmt.Fprintf(&body, "\tx = f%d(x) + %d\n", j, rng.Intn(9))
		}
		switch rng.Intn(4) {
		case 0:
			body.WriteString("\tif even(x & 7) {\n\t\tx++\n\t}\n")
		case 1:
			body.WriteString("\ta := mk(x & 3)\n\tx += a.Inc() + len(a.B.Name()) + len(Tag(a)) + len(Name(a.B))\n")
		case 2:
			body.WriteString("\tx += k1 * g0\n")
		default:
			body.WriteString("\tx ^= len(fmt.Sprint(x))\n")
		}
		body.WriteString("\treturn x\n}\n")
		p.Hoist = append(p.Hoist, body.String())
	}
	p.Hoist = append(p.Hoist, fmt.Sprintf("func main() {\n\tfmt.Println(\"main\", g0, g1, g2, g3, f%d(g1), mk(k2).B.Name())\n\tfmt.Println(odd(k2), even(k1), gs, Tag(mk(k1)), Name(mk(k2).B), S)\n\tsz := &Size{W: k1, H: 2}\n\tbx := &Box{Tag: \"b\"}\n\tp := pair(k2)\n\tw := wide(k1)\n\tfmt.Println(area(sz, bx), sz.W, sz.H, bx.H, bx.W, p.F00, p.F16, p.F08, w.F00, w.F03, w.F16, w.F19)\n\tfmt.Println(\"S: \", sz, bx, p, litA(), litB(), localT(4), bl)\n\tfmt.Println(usesBuiltinNames(k1), usesBuiltinNames(k2))\n\tfmt.Println(\"S: \", showdm())\n\tfmt.Println(sounds(), len(doc), doc[:5], dbl(k1))\n\tfmt.Println(fine(1), coarse(1), mk(2).Fine(), mk(2).B.Coarse())\n\tif note == nil && pick == nil {\n\t\tpick = max\n\t\tfmt.Println(\"pick\", pick(1, 2))\n\t}\n}\n", nf-1))
	// the spine keeps its order: later initialisers depend on earlier ones
	p.Spine = []string{
		fmt.Sprintf("const k1 = %d\n", rng.Range(1, 9)),
		"const step = 10\n",
		"const unit = \"unit\"\n",
		fmt.Sprintf("var g0 = %d\n", rng.Range(1, 5)),
		fmt.Sprintf("var g1 = f%d(k1) + g0\n", rng.Intn(nf)),
		"const k2 = k1*2 + 1\n",
		"var g2 = mk(g1 & 7).Inc() + k2\n",
		fmt.Sprintf("var g3 = fmt.Sprint(even(g2&7), f%d(g2))\n", rng.Intn(nf)),
		"var gs []string\n",
		"var bl []string\n",
		// variables of function type without an initialiser (one of them without results): wherever they end up in a file
		"var note func(int)\n",
		"var pick func(int, int) int\n",
		// text that looks like a build constraint inside a string: it is text
		"var doc = `usage:\n//go:build ignore\n// +build ignore\n//go:build !goat\nend`\n",
		// package-level statements (goatlang runs them in place; for the Go reference each is wrapped into an init function)
		"if g0 > 0 {\n\tsz := &Size{W: g0, H: 2}\n\tbl = append(bl, fmt.Sprint(sz.W+sz.H, localT(3)))\n}\n",
		"for i := 0; i < 2; i++ {\n\tb := &Box{H: i}\n\tbl = append(bl, fmt.Sprint(b.H))\n}\n",
		"var S = Tag(mk(k2)) + fmt.Sprint(g0)\n", // a variable sharing its name with a field
		"func init() {\n\tfmt.Println(\"init\", g0, g1, g2, g3)\n\tg0 += 10\n\tgs = append(gs, \"i1\")\n}\n",
	}
	if rng.Bool() {
		p.Spine = append(p.Spine, "var g4 = len(gs) + g0\n", "func init() {\n\tfmt.Println(\"init2\", g4, g0)\n\tgs = append(gs, \"i2\")\n}\n")
	}
	return p
}

// c16Canonical is the single-file layout; forGo wraps package-level statements into init functions.
func c16Canonical(p c16Pkg, dir string, forGo bool) map[string]string {
	spine := append([]string{}, p.Spine...)
	if forGo {
		for i, it := range spine {
			if strings.HasPrefix(it, "if ") || strings.HasPrefix(it, "for ") {
				spine[i] = "func init() {\n\t" + strings.ReplaceAll(strings.TrimSuffix(it, "\n"), "\n", "\n\t") + "\n}\n"
			}
		}
	}
	return map[string]string{dir + "/main.go": c16File(append(append([]string{}, p.Hoist...), spine...)), c16SubPath + "/c16sub.go": c16SubSrc}
}

// c16Layout builds one variant: hoistables permuted, merged with the spine
// (spine order kept), cut into 1-3 files whose sorted names give that order.
func c16Layout(p c16Pkg, rng *core.Rng, dir string) c16Variant {
	hoist := append([]string{}, p.Hoist...)
	core.Shuffle(rng, hoist)
	// merge: choose positions for the spine items
	total := len(hoist) + len(p.Spine)
	isSpine := make([]bool, total)
	idxs := rng.Uint64()
	_ = idxs
	pos := map[int]bool{}
	for len(pos) < len(p.Spine) {
		pos[rng.Intn(total)] = true
	}
	var order []string
	hi, si := 0, 0
	for i := 0; i < total; i++ {
		if pos[i] {
			isSpine[i] = true
			order = append(order, p.Spine[si])
			si++
		} else {
			order = append(order, hoist[hi])
			hi++
		}
	}
	nfiles := rng.Range(1, 3)
	twin := rng.Chance(1, 4)
	if twin {
		// two files that begin alike: litA heads one, litB the other
		var rest []string
		for _, o := range order {
			if o != c16LitA && o != c16LitB {
				rest = append(rest, o)
			}
		}
		cut := rng.Intn(len(rest) + 1)
		v := c16Variant{Pkg: p, Files: map[string]string{}}
		h1, h2 := c16LitA, c16LitB
		if rng.Bool() {
			h1, h2 = h2, h1
		}
		// (the spine keeps its order: the first part goes into the file that sorts first)
		fa := append([]string{h1}, rest[:cut]...)
		fb := append([]string{h2}, rest[cut:]...)
		n1, n2 := "a_twin.go", "b_twin.go"
		v.Files[dir+"/"+n1] = c16FileImports(fa, true)
		v.Files[dir+"/"+n2] = c16FileImports(fb, true)
		for _, o := range append(append([]string{}, fa...), fb...) {
			v.Order = append(v.Order, firstLine(o))
		}
		v.Files[c16SubPath+"/c16sub.go"] = c16SubSrc
		return v
	}
	names := []string{"a.go", "b.go", "c.go", "m.go", "z.go", "A.go", "main.go", "0.go", "_u.go", "zz_last.go", "a1.go", "a10.go", "a2.go", "ab_testing.go", "load_tester.go", "x_testdata.go", "test.go", "b_test_util.go"}
	core.Shuffle(rng, names)
	chosen := append([]string{}, names[:nfiles]...)
	sort.Strings(chosen)
	// cut points
	cuts := []int{0}
	for k := 1; k < nfiles; k++ {
		cuts = append(cuts, rng.Intn(total+1))
	}
	cuts = append(cuts, total)
	sort.Ints(cuts)
	v := c16Variant{Pkg: p, Files: map[string]string{}}
	for k := 0; k < nfiles; k++ {
		v.Files[dir+"/"+chosen[k]] = c16File(order[cuts[k]:cuts[k+1]])
	}
	for _, o := range order {
		v.Order = append(v.Order, firstLine(o))
	}
	v.Files[c16SubPath+"/c16sub.go"] = c16SubSrc
	return v
}

// c16AsLibrary turns a layout of package main into the same files as an imported package lib plus a main that
// calls its entry point: the order and file layout of an imported package's declarations are irrelevant too.
func c16AsLibrary(files map[string]string, dir string) map[string]string {
	root := dir[:strings.LastIndex(dir, "/")]
	out := map[string]string{}
	for name, src := range files {
		if strings.HasPrefix(name, c16SubPath+"/") {
			out[name] = src
			continue
		}
		src = strings.Replace(src, "package main\n", "package lib\n", 1)
		src = strings.Replace(src, "func main() {", "func Run() {", 1)
		out[root+"/lib/"+name[strings.LastIndex(name, "/")+1:]] = src
	}
	out[dir+"/main.go"] = fmt.Sprintf("package main\n\nimport %q\n\nfunc main() {\n\tlib.Run()\n}\n", root+"/lib")
	return out
}

func c16RunGoat(files map[string]string, dir string) core.Outcome {
	m := core.NewMachine(core.VMOpts{Optimize: true, Obs: core.NewObs(core.SmallBudget, false, nil)})
	return m.LoadMain(core.MapFS(files), dir)
}

func runC16(r *core.Run) {
	r.SetRule("generated packages: two struct types referring to each other, methods (also declared before their type), a constructor, functions and a variable sharing their names with a field or a method, struct types sharing field names in another order and a 20-field type whose names a narrow type reuses (all written, read and printed whole), a mutually recursive pair, 2-6 functions calling earlier ones, main; and a fixed-order spine of constants, variable initialisers that call those functions, and one or two init functions. Each package is laid out in many variants: hoistable declarations permuted, merged with the spine at random positions (spine order kept), cut into 1-3 files with sort-order trap names, imports repeated per file; one variant in three is the same file set as an imported package (entry point called from a one-line main); one in four puts two like-shaped functions with literal-local types at the head of two files. Every variant must print what the canonical single-file layout prints, and the canonical layout what Go prints. non-trivial = canonical layout accepted by Go; distinct by file tree")
	r.Assume("metamorphic relation plus the Go toolchain (GOARCH=386) on the canonical layout; named non-struct types stay in the spine (the property hoists functions, methods and struct types)")
	n := r.N(120, 3000)
	variants := r.N(40, 150)
	pkgs := make([]c16Pkg, n)
	var refCases []core.RefCase
	for i := range pkgs {
		pkgs[i] = c16Gen(r.Seed, i)
		dir := fmt.Sprintf("ref/o%06d/cmd%06d", i, i)
		refCases = append(refCases, core.RefCase{Files: c16Canonical(pkgs[i], dir, true), MainDir: dir})
	}
	refs, err := core.RunRef(refCases)
	if err != nil {
		r.Inconclusive("reference_executor_failed")
		return
	}
	core.Parallel(n, func(i int) {
		dir := refCases[i].MainDir
		ref := refs[i]
		if ref.Rejected {
			r.Count("rejected_by_go", 1)
			r.NoteReject(firstLine(ref.RejectMsg))
			return
		}
		canon := c16RunGoat(c16Canonical(pkgs[i], dir, false), dir)
		r.Eval(1)
		refNS, canonNS := ref, canon
		refNS.Out, canonNS.Out = c16StripStructs(ref.Out), c16StripStructs(canon.Out)
		if what := compareWithGo(refNS, canonNS); what != "" {
			r.Violate(core.Violation{Check: "c16-canonical", Index: i, What: "canonical layout: " + what, Case: c16Variant{Pkg: pkgs[i], Files: refCases[i].Files}, Expected: ref.Out, Observed: canon, Extra: firstDiff(ref.Out, canon.Out)})
			return
		}
		for k := 0; k < variants; k++ {
			v := c16Layout(pkgs[i], core.Derive(r.Seed, "c16-layout", i*1000+k), dir)
			if k%3 == 2 {
				v.Files = c16AsLibrary(v.Files, dir)
				v.Lib = true
				r.Count("variants_as_imported_package", 1)
			}
			o := c16RunGoat(v.Files, dir)
			r.Eval(1)
			what := ""
			switch {
			case o.Panic != "":
				what = "a Go panic escaped: " + o.Panic
			case o.Err != "":
				what = "a variant fails where the canonical layout succeeds: " + core.ErrFirstLine(o.Err)
			case o.Out != canon.Out:
				what = "a variant prints something different from the canonical layout"
			}
			if what != "" {
				r.Violate(core.Violation{Check: "c16", Index: i*1000 + k, What: what, Case: v, Expected: canon.Out, Observed: o, Extra: firstDiff(canon.Out, o.Out)})
				return
			}
			r.Distinct(treeKey(v.Files))
			r.Count(fmt.Sprintf("variants_with_%d_files", len(v.Files)), 1)
		}
		if i%37 == 0 {
			v := c16Layout(pkgs[i], core.Derive(r.Seed, "c16-layout", i*1000), dir)
			r.Sample(map[string]any{"declaration_order_of_one_variant": v.Order, "files": len(v.Files), "output": excerpt(canon.Out, 6)})
		}
	})
}

func replayC16(r *core.Run, v *core.Violation) {
	var c c16Variant
	if err := remarshal(v.Case, &c); err != nil {
		return
	}
	dir := ""
	for k := range c.Files {
		if d := k[:strings.LastIndex(k, "/")]; dir == "" || strings.Contains(d, "/cmd") {
			dir = d
		}
	}
	canon := c16RunGoat(c16Canonical(c.Pkg, dir, false), dir)
	o := c16RunGoat(c.Files, dir)
	fmt.Printf("--- canonical ---\n%s%s\n--- variant ---\n%s%s\n", canon.Out, canon.Err, o.Out, o.Err)
	if o.Out != canon.Out || o.Err != canon.Err {
		r.Violate(core.Violation{Check: "c16", What: "the variant differs from the canonical layout", Case: c})
	}
}
