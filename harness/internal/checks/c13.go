package checks

import (
	"fmt"
	"strconv"
	"strings"
	"unicode/utf8"

	"github.com/philhassey/goatlang"

	"verif/internal/core"
)

// C13 — strings are immutable UTF-8 byte sequences with Go's operations.
//
// Oracle: native Go string operations compiled into the harness; strconv for
// literal spellings. Observed: values (and dynamic types) returned by script
// functions that receive the strings as arguments (so invalid UTF-8 can be
// supplied by the host) and by Eval of generated literals.

func init() { register("C13", &Check{Run: runC13, Replay: replayC13}) }

const c13Src = `
func slen(s string) int { return len(s) }
func idx(s string, i int) byte { return s[i] }
func idxplus(s string, i int) byte { return s[i] + 200 }
func sl(s string, i int, j int) string { return s[i:j] }
func slfrom(s string, i int) string { return s[i:] }
func slto(s string, j int) string { return s[:j] }
func slall(s string) string { return s[:] }
func rng(s string) []int { r := []int{}; for i, c := range s { r = append(r, i, int(c)) }; return r }
func rngk(s string) []int { r := []int{}; for i := range s { r = append(r, i) }; return r }
func rngv(s string) []rune { r := []rune{}; for _, c := range s { r = append(r, c) }; return r }
func tobytes(s string) []byte { return []byte(s) }
func frombytes(b []byte) string { return string(b) }
func roundtrip(s string) string { b := []byte(s); return string(b) }
func fromrune(r rune) string { return string(r) }
func frombyte(b byte) string { return string(b) }
func blit(n int) string { b := []byte("----"); b[n] = '*'; return string(b) }
func blitloop() string { r := ""; for i := 0; i < 3; i++ { b := []byte("abc"); r += string(b); b[i] = 'X' }; return r }
func blit2() string { a := []byte("hé"); c := []byte("hé"); a[0] = 'j'; return string(a) + string(c) + string([]byte("hé")) }
func fromelem(s string, i int) string { return string(s[i]) + "|" + string(rune(s[i])) }
func eachbyte(s string) string { r := ""; for i := 0; i < len(s); i++ { r += string(s[i]) }; return r }
func fromint8(x int8) string { return string(rune(x)) }
func fromu32(x uint32) string { return string(rune(x)) }
func cat(a string, b string) []string { c := a + b; d := a; d += b; return []string{a, b, c, d} }
func cmp(a string, b string) []bool { return []bool{a < b, a <= b, a == b, a != b, a > b, a >= b} }
func mutcopy(s string) []string { b := []byte(s); if len(b) > 0 { b[0] = b[0] + 1 }; return []string{s, string(b)} }
func conv2(s string) []string { b := []byte(s); r := []string{string(b)}; if len(b) > 1 { t := b[1:]; t[0] = 'E'; r = append(r, string(b)); copy(b, []byte("J")); r = append(r, string(b)); u := b[:1]; u = append(u, 'Q'); r = append(r, string(b), string(u), string(t)) }; r = append(r, string(b), s); return r }
func conv3(s string) []string { b := []byte(s); keep := string(b); for i := range b { b[i] = b[i] + 1 }; again := string(b); b = append(b, '!'); return []string{keep, again, string(b), string(b[:len(b)-1]), s} }
func lit0(s string) []int { a := s[0] + 200; c := s[0] + s[1] + s[2]; d := s[1] - s[2]; e := s[0] * 2; f := s[2]; f += 100; return []int{int(a), int(c), int(d), int(e), int(f), int(s[1] >> 1 << 2)} }
func lit0l() []int { s := "xyz\xff"; t := s; return []int{int(s[0] + s[1]), int(s[3] + 1), int(s[2] - 'z' - 1), int(t[3] + t[3])} }
func lit0t(s string) byte { return s[0] + 200 }
func bytesidx(s string) []int { r := []int{}; for i := 0; i < len(s); i++ { r = append(r, int(s[i])) }; return r }
`

type c13Case struct {
	Op  string `json:"op"`
	S   []byte `json:"s"` // as bytes: JSON cannot carry invalid UTF-8
	T   []byte `json:"t,omitempty"`
	I   int    `json:"i,omitempty"`
	J   int    `json:"j,omitempty"`
	Lit string `json:"literal,omitempty"`
}

var c13Corpus = []string{"", "a", "ab", "hello", "héllo", "日本語", "a€b", "𝄞x", "é", "\xff", "\xc3", "a\xffb", "\xe2\x82", "\xed\xa0\x80", "\x80\x80", "tab\t\n", "\x00", "a\x00b", " sp ", "\xf0\x9f\x98", "ñandú", " ", "Ω≈ç√", strings.Repeat("é", 5)}

func c13RandString(rng *core.Rng) string {
	if rng.Chance(1, 3) {
		return core.Pick(rng, c13Corpus)
	}
	n := rng.Intn(12)
	var b []byte
	for len(b) < n {
		switch rng.Intn(8) {
		case 0:
			b = append(b, byte(rng.Intn(256)))
		case 1:
			b = utf8.AppendRune(b, rune(0x80+rng.Intn(0x700)))
		case 2:
			b = utf8.AppendRune(b, rune(0x800+rng.Intn(0xf000)))
		case 3:
			b = utf8.AppendRune(b, rune(0x10000+rng.Intn(0x10000)))
		default:
			b = append(b, byte(32+rng.Intn(95)))
		}
	}
	return string(b)
}

type c13Worker struct {
	m *core.Machine
	r *core.Run
}

func newC13Worker(r *core.Run) *c13Worker {
	w := &c13Worker{r: r, m: core.NewMachine(core.VMOpts{Optimize: true, Obs: core.NewObs(core.SmallBudget, false, nil)})}
	if o := w.m.Eval(nil, c13Src); o.Failed() {
		r.Violate(core.Violation{Check: "c13-setup", What: "the string helper functions do not compile", Observed: o})
		return nil
	}
	return w
}

func sliceToStrings(v goatlang.Value) []string {
	var out []string
	n := v.Len()
	for i := 0; i < n; i++ {
		e, _ := v.Get(goatlang.Int(i))
		out = append(out, e.String())
	}
	return out
}

func (w *c13Worker) call(fn string, args ...goatlang.Value) (goatlang.Value, string) {
	var rets []goatlang.Value
	var err error
	w.m.Obs.Reset()
	if p := core.Guard(func() { rets, err = w.m.VM.Call("main."+fn, 1, args...) }); p != "" {
		return goatlang.Nil(), "PANIC " + p
	}
	if err != nil {
		return goatlang.Nil(), "error"
	}
	return rets[0], ""
}

// check compares one operation; returns a description of the mismatch.
func (w *c13Worker) check(c c13Case) string {
	s, t := string(c.S), string(c.T)
	S := goatlang.String
	I := goatlang.Int
	fail := func(what string, want, got any) string {
		return fmt.Sprintf("%s: Go gives %q, goatlang %q", what, fmt.Sprint(want), fmt.Sprint(got))
	}
	wantErr := func(f func()) (panicked bool) {
		defer func() {
			if recover() != nil {
				panicked = true
			}
		}()
		f()
		return false
	}
	switch c.Op {
	case "len":
		v, e := w.call("slen", S(s))
		if e != "" || v.Int() != len(s) {
			return fail("len", len(s), e+v.String())
		}
	case "index":
		var want byte
		oob := wantErr(func() { want = s[c.I] })
		v, e := w.call("idx", S(s), I(c.I))
		if oob {
			if e != "error" {
				return fail("index out of range", "panic", e+v.String())
			}
			return ""
		}
		if e != "" || v.Int() != int(want) || w.m.VM.VerifTypeOf(v) != "uint8" {
			return fail("s[i] (value, type)", fmt.Sprint(want, " uint8"), e+v.String()+" "+w.m.VM.VerifTypeOf(v))
		}
		v2, e2 := w.call("idxplus", S(s), I(c.I))
		if e2 != "" || v2.Int() != int(want+200) {
			return fail("s[i] + 200 (byte arithmetic)", want+200, e2+v2.String())
		}
	case "slice":
		var want string
		oob := wantErr(func() { want = s[c.I:c.J] })
		v, e := w.call("sl", S(s), I(c.I), I(c.J))
		if oob {
			if e != "error" {
				return fail("slice out of range", "panic", e+v.String())
			}
			return ""
		}
		if e != "" || v.String() != want {
			return fail("s[i:j]", want, e+v.String())
		}
		if c.J == len(s) {
			v, e = w.call("slfrom", S(s), I(c.I))
			if e != "" || v.String() != s[c.I:] {
				return fail("s[i:]", s[c.I:], e+v.String())
			}
		}
		if c.I == 0 {
			v, e = w.call("slto", S(s), I(c.J))
			if e != "" || v.String() != s[:c.J] {
				return fail("s[:j]", s[:c.J], e+v.String())
			}
		}
	case "range":
		var want []string
		for i, r := range s {
			want = append(want, strconv.Itoa(i), strconv.Itoa(int(r)))
		}
		v, e := w.call("rng", S(s))
		if e != "" || strings.Join(sliceToStrings(v), ",") != strings.Join(want, ",") {
			return fail("for i, r := range s (byte offsets and runes)", want, e+fmt.Sprint(sliceToStrings(v)))
		}
		var wk, wv []string
		for i := range s {
			wk = append(wk, strconv.Itoa(i))
		}
		for _, r := range s {
			wv = append(wv, strconv.Itoa(int(r)))
		}
		v, e = w.call("rngk", S(s))
		if e != "" || strings.Join(sliceToStrings(v), ",") != strings.Join(wk, ",") {
			return fail("for i := range s", wk, e+fmt.Sprint(sliceToStrings(v)))
		}
		v, e = w.call("rngv", S(s))
		if e != "" || strings.Join(sliceToStrings(v), ",") != strings.Join(wv, ",") {
			return fail("for _, r := range s", wv, e+fmt.Sprint(sliceToStrings(v)))
		}
		var wb []string
		for i := 0; i < len(s); i++ {
			wb = append(wb, strconv.Itoa(int(s[i])))
		}
		v, e = w.call("bytesidx", S(s))
		if e != "" || strings.Join(sliceToStrings(v), ",") != strings.Join(wb, ",") {
			return fail("s[i] for every i", wb, e+fmt.Sprint(sliceToStrings(v)))
		}
	case "bytes":
		var want []string
		for _, b := range []byte(s) {
			want = append(want, strconv.Itoa(int(b)))
		}
		v, e := w.call("tobytes", S(s))
		if e != "" || strings.Join(sliceToStrings(v), ",") != strings.Join(want, ",") || (v.Len() > 0 && w.m.VM.VerifTypeOf(v) != "[]uint8") {
			return fail("[]byte(s)", want, e+fmt.Sprint(sliceToStrings(v))+" "+w.m.VM.VerifTypeOf(v))
		}
		bs := make([]goatlang.Value, len(s))
		for i := range bs {
			bs[i] = goatlang.Byte(s[i])
		}
		v, e = w.call("frombytes", goatlang.NewSlice(goatlang.TypeUint8, bs))
		if e != "" || v.String() != s {
			return fail("string([]byte)", s, e+v.String())
		}
		v, e = w.call("roundtrip", S(s))
		if e != "" || v.String() != s {
			return fail("string([]byte(s))", s, e+v.String())
		}
		v, e = w.call("mutcopy", S(s))
		if e == "" {
			got := sliceToStrings(v)
			b := []byte(s)
			if len(b) > 0 {
				b[0]++
			}
			if len(got) != 2 || got[0] != s || got[1] != string(b) {
				return fail("a []byte copy must not alias the string", []string{s, string(b)}, got)
			}
		} else {
			return fail("mutcopy", "ok", e)
		}
	case "rune":
		r := rune(c.I)
		v, e := w.call("fromrune", goatlang.Int32(r))
		if e != "" || v.String() != string(r) {
			return fail(fmt.Sprintf("string(rune(%d))", c.I), string(r), e+v.String())
		}
	case "reconvert":
		// string(b) is a copy of the bytes at that moment, whatever was converted before and however b changed since
		native2 := func(s string) []string {
			b := []byte(s)
			r := []string{string(b)}
			if len(b) > 1 {
				t := b[1:]
				t[0] = 'E'
				r = append(r, string(b))
				copy(b, []byte("J"))
				r = append(r, string(b))
				u := b[:1]
				u = append(u, 'Q')
				r = append(r, string(b), string(u), string(t))
			}
			return append(r, string(b), s)
		}
		native3 := func(s string) []string {
			b := []byte(s)
			keep := string(b)
			for i := range b {
				b[i] = b[i] + 1
			}
			again := string(b)
			b = append(b, '!')
			return []string{keep, again, string(b), string(b[:len(b)-1]), s}
		}
		for _, f := range []struct {
			name string
			nat  func(string) []string
		}{{"conv2", native2}, {"conv3", native3}} {
			v, e := w.call(f.name, S(s))
			want := f.nat(s)
			if e != "" || strings.Join(sliceToStrings(v), "\x00") != strings.Join(want, "\x00") {
				return fail(f.name+": conversions of one byte slice before and after writes through it, through an alias, copy and append", fmt.Sprintf("%q", want), e+fmt.Sprintf("%q", sliceToStrings(v)))
			}
		}
	case "litindex":
		// a string held in a local, indexed by integer literals: the elements are bytes (arithmetic wraps at 256)
		if len(s) >= 3 {
			a, c0, d, e0, f := s[0]+200, s[0]+s[1]+s[2], s[1]-s[2], s[0]*2, s[2]+100
			want := fmt.Sprint([]int{int(a), int(c0), int(d), int(e0), int(f), int(s[1] >> 1 << 2)})
			v, e := w.call("lit0", S(s))
			if e != "" || v.String() != want {
				return fail("byte arithmetic on s[0], s[1], s[2] of a parameter", want, e+v.String())
			}
			v, e = w.call("lit0t", S(s))
			if e != "" || v.Int() != int(a) || w.m.VM.VerifTypeOf(v) != "uint8" {
				return fail("s[0] + 200 (value, type)", fmt.Sprint(a, " uint8"), e+v.String()+" "+w.m.VM.VerifTypeOf(v))
			}
		}
		x := "xyz\xff"
		want := fmt.Sprint([]int{int(x[0] + x[1]), int(x[3] + 1), int(x[2] - 'z' - 1), int(x[3] + x[3])})
		if v, e := w.call("lit0l"); e != "" || v.String() != want {
			return fail("byte arithmetic on literal-indexed elements of a local string", want, e+v.String())
		}
	case "byteslit":
		for k := 0; k < 3; k++ {
			n := (c.I + k) % 4
			want := []byte("----")
			want[n] = '*'
			v, e := w.call("blit", I(n))
			if e != "" || v.String() != string(want) {
				return fail(fmt.Sprintf("[]byte(\"----\") with element %d set, call %d", n, k+1), string(want), e+v.String())
			}
		}
		if v, e := w.call("blitloop"); e != "" || v.String() != "abcabcabc" {
			return fail("[]byte(\"abc\") converted afresh in every iteration", "abcabcabc", e+v.String())
		}
		if v, e := w.call("blit2"); e != "" || v.String() != "jéhéhé" {
			return fail("two conversions of one literal do not share an array", "jéhéhé", e+v.String())
		}
	case "byteconv":
		// string(b) of a byte is the UTF-8 encoding of the code point b, not the byte itself
		b := byte(c.I)
		v, e := w.call("frombyte", goatlang.Byte(b))
		if e != "" || v.String() != string(rune(b)) {
			return fail(fmt.Sprintf("string(byte(%d))", b), string(rune(b)), e+v.String())
		}
		v, e = w.call("fromint8", goatlang.Int8(int8(b)))
		if e != "" || v.String() != string(rune(int8(b))) {
			return fail(fmt.Sprintf("string(rune(int8(%d)))", int8(b)), string(rune(int8(b))), e+v.String())
		}
		v, e = w.call("fromu32", goatlang.Uint32(uint32(c.I)*0x101))
		if e != "" || v.String() != string(rune(uint32(c.I)*0x101)) {
			return fail(fmt.Sprintf("string(rune(uint32(%d)))", uint32(c.I)*0x101), string(rune(uint32(c.I)*0x101)), e+v.String())
		}
		if len(s) > 0 {
			i := c.I % len(s)
			v, e = w.call("fromelem", S(s), I(i))
			want := string(rune(s[i])) + "|" + string(rune(s[i]))
			if e != "" || v.String() != want {
				return fail(fmt.Sprintf("string(s[%d]) | string(rune(s[%d]))", i, i), want, e+v.String())
			}
			want = ""
			for k := 0; k < len(s); k++ {
				want += string(rune(s[k]))
			}
			v, e = w.call("eachbyte", S(s))
			if e != "" || v.String() != want {
				return fail("concatenation of string(s[i]) over all i", want, e+v.String())
			}
		}
	case "concat":
		v, e := w.call("cat", S(s), S(t))
		got := sliceToStrings(v)
		want := []string{s, t, s + t, s + t}
		if e != "" || strings.Join(got, "\x00") != strings.Join(want, "\x00") {
			return fail("a + b (operands unchanged)", want, e+fmt.Sprint(got))
		}
	case "compare":
		v, e := w.call("cmp", S(s), S(t))
		got := sliceToStrings(v)
		want := []string{fmt.Sprint(s < t), fmt.Sprint(s <= t), fmt.Sprint(s == t), fmt.Sprint(s != t), fmt.Sprint(s > t), fmt.Sprint(s >= t)}
		if e != "" || strings.Join(got, ",") != strings.Join(want, ",") {
			return fail("comparison < <= == != > >=", want, e+fmt.Sprint(got))
		}
	case "literal":
		want, err := strconv.Unquote(c.Lit)
		if err != nil {
			return "" // the generator produced an invalid spelling: not a case
		}
		m := core.NewMachine(core.VMOpts{Optimize: true})
		o := m.Eval(nil, "s := "+c.Lit+"; s")
		if o.Failed() || len(o.Rets) != 1 || o.Rets[0] != want {
			return fail("literal "+c.Lit, want, fmt.Sprint(o.Rets, o.Err, o.Panic))
		}
		o = m.Eval(nil, "n := len("+c.Lit+"); n")
		if o.Failed() || len(o.Rets) != 1 || o.Rets[0] != strconv.Itoa(len(want)) {
			return fail("len of literal "+c.Lit, len(want), fmt.Sprint(o.Rets, o.Err))
		}
	case "literal-pair":
		// the same inner text spelled as an interpreted and as a raw literal in one VM: they denote
		// different bytes whenever the text contains a backslash
		inner := c.Lit
		q, r := "\""+inner+"\"", "`"+inner+"`"
		wq, err1 := strconv.Unquote(q)
		wr, err2 := strconv.Unquote(r)
		if err1 != nil || err2 != nil {
			return ""
		}
		for _, order := range [][2]string{{q, r}, {r, q}} {
			m := core.NewMachine(core.VMOpts{Optimize: true})
			o := m.Eval(nil, "func first() string { return "+order[0]+" }; a := first(); b := "+order[1]+"; a; b; len(a)*1000 + len(b)")
			w0, w1 := wq, wr
			if order[0] == r {
				w0, w1 = wr, wq
			}
			if o.Failed() || len(o.Rets) != 3 || o.Rets[0] != w0 || o.Rets[1] != w1 || o.Rets[2] != strconv.Itoa(len(w0)*1000+len(w1)) {
				return fail("literals "+order[0]+" and "+order[1]+" in one program", []string{w0, w1}, fmt.Sprint(o.Rets, o.Err, o.Panic))
			}
			// a later Eval that spells the other literal must not change what the earlier function returns
			o2 := m.Eval(nil, "c := "+order[1]+"; d := first(); d")
			if o2.Failed() || len(o2.Rets) != 1 || o2.Rets[0] != w0 {
				return fail("function compiled earlier returns "+order[0]+" after a later Eval spelled "+order[1], w0, fmt.Sprint(o2.Rets, o2.Err))
			}
		}
	case "charlit":
		want, _, _, err := strconv.UnquoteChar(c.Lit[1:len(c.Lit)-1], '\'')
		if err != nil {
			return ""
		}
		m := core.NewMachine(core.VMOpts{Optimize: true})
		o := m.Eval(nil, "r := "+c.Lit+"; r")
		if o.Failed() || len(o.Rets) != 1 || o.Rets[0] != strconv.Itoa(int(want)) || o.Types[0] != "int32" {
			return fail("character literal "+c.Lit, fmt.Sprint(int(want), " int32"), fmt.Sprint(o.Rets, o.Types, o.Err, o.Panic))
		}
		o = m.Eval(nil, "s := string("+c.Lit+"); s")
		if o.Failed() || len(o.Rets) != 1 || o.Rets[0] != string(want) {
			return fail("string("+c.Lit+")", string(want), fmt.Sprint(o.Rets, o.Err))
		}
	}
	return ""
}

func c13RandLiteral(rng *core.Rng) string {
	if rng.Chance(1, 4) {
		// raw string: anything but a backquote
		var sb strings.Builder
		sb.WriteByte('`')
		for n := rng.Intn(10); n > 0; n-- {
			switch rng.Intn(7) {
			case 6:
				sb.WriteString(core.Pick(rng, []string{"\r\n", "\r", "a\rb"})) // carriage returns are dropped from raw literals
			case 0:
				sb.WriteString("\\n")
			case 1:
				sb.WriteString("\n")
			case 2:
				sb.WriteString("é\\")
			case 3:
				sb.WriteString("\"'")
			default:
				sb.WriteByte(byte(32 + rng.Intn(64)))
			}
		}
		sb.WriteByte('`')
		return sb.String()
	}
	var sb strings.Builder
	sb.WriteByte('"')
	for n := rng.Intn(10); n > 0; n-- {
		switch rng.Intn(13) {
		case 12:
			// control characters written as they are (only the newline needs an escape in an interpreted literal)
			sb.WriteString(core.Pick(rng, []string{"\r", "\t", "a\rb", "\x01", "\x7f", "\r\r", "\x0b"}))
		case 0:
			sb.WriteString(core.Pick(rng, []string{`\a`, `\b`, `\f`, `\n`, `\r`, `\t`, `\v`, `\\`, `\"`}))
		case 1:
			fmt.Fprintf(&sb, `\x%02x`, rng.Intn(256))
		case 2:
			fmt.Fprintf(&sb, `\%03o`, rng.Intn(256))
		case 3:
			r := rng.Intn(0xd800)
			fmt.Fprintf(&sb, `\u%04x`, r)
		case 4:
			fmt.Fprintf(&sb, `\U%08x`, 0x10000+rng.Intn(0x100000))
		case 5:
			sb.WriteString(core.Pick(rng, []string{"é", "日", "€", "𝄞", "'"}))
		default:
			c := byte(32 + rng.Intn(95))
			if c == '"' || c == '\\' {
				c = 'q'
			}
			sb.WriteByte(c)
		}
	}
	sb.WriteByte('"')
	return sb.String()
}

func c13RandCharLit(rng *core.Rng) string {
	switch rng.Intn(11) {
	case 10:
		return "'" + core.Pick(rng, []string{"\r", "\t", "\x01", "\x7f"}) + "'"
	case 0:
		return "'" + core.Pick(rng, []string{`\a`, `\b`, `\f`, `\n`, `\r`, `\t`, `\v`, `\\`, `\'`}) + "'"
	case 1:
		return fmt.Sprintf(`'\x%02x'`, rng.Intn(256))
	case 2:
		return fmt.Sprintf(`'\%03o'`, rng.Intn(256))
	case 3:
		return fmt.Sprintf(`'\u%04x'`, rng.Intn(0xd800))
	case 4:
		return fmt.Sprintf(`'\U%08x'`, 0x10000+rng.Intn(0x100000))
	case 5:
		return "'" + core.Pick(rng, []string{"é", "日", "€", "𝄞", "\""}) + "'"
	default:
		c := byte(32 + rng.Intn(95))
		if c == '\'' || c == '\\' {
			c = 'z'
		}
		return "'" + string(c) + "'"
	}
}

func c13Gen(seed int64, idx int) []c13Case {
	rng := core.Derive(seed, "c13", idx)
	s := c13RandString(rng)
	t := c13RandString(rng)
	if rng.Chance(1, 4) && len(s) > 0 {
		t = s[:rng.Intn(len(s)+1)] + core.Pick(rng, []string{"", "a", "\xff", "\x00"})
	}
	cs := []c13Case{{Op: "len", S: []byte(s)}, {Op: "range", S: []byte(s)}, {Op: "bytes", S: []byte(s)}, {Op: "concat", S: []byte(s), T: []byte(t)}, {Op: "compare", S: []byte(s), T: []byte(t)}}
	// every index and every (i, j) for short strings, sampled for longer ones
	if len(s) <= 12 {
		for i := -1; i <= len(s); i++ {
			cs = append(cs, c13Case{Op: "index", S: []byte(s), I: i})
			for j := i - 1; j <= len(s)+1; j++ {
				cs = append(cs, c13Case{Op: "slice", S: []byte(s), I: i, J: j})
			}
		}
	} else {
		for k := 0; k < 20; k++ {
			i := rng.Intn(len(s)+2) - 1
			j := rng.Intn(len(s)+2) - 1
			cs = append(cs, c13Case{Op: "index", S: []byte(s), I: i}, c13Case{Op: "slice", S: []byte(s), I: i, J: j})
		}
	}
	cs = append(cs, c13Case{Op: "rune", I: core.Pick(rng, []int{0, 65, 0xe9, 0x20ac, 0x1d11e, 0xd800, 0x10ffff, 0x110000, -1, 127, 128, 0xfffd})})
	cs = append(cs, c13Case{Op: "rune", I: rng.Intn(0x11000)})
	cs = append(cs, c13Case{Op: "byteslit", I: rng.Intn(4)})
	cs = append(cs, c13Case{Op: "reconvert", S: []byte(s)}, c13Case{Op: "litindex", S: []byte(s)})
	cs = append(cs, c13Case{Op: "byteconv", I: rng.Intn(256), S: []byte(s)}, c13Case{Op: "byteconv", I: 128 + rng.Intn(128), S: []byte(s)})
	for k := 0; k < 3; k++ {
		cs = append(cs, c13Case{Op: "literal", Lit: c13RandLiteral(rng)}, c13Case{Op: "charlit", Lit: c13RandCharLit(rng)})
	}
	// inner texts valid in both spellings
	inner := ""
	for n := rng.Range(1, 6); n > 0; n-- {
		inner += core.Pick(rng, []string{`\n`, `\t`, `\\`, `\x41`, `\101`, `\u00e9`, "a", "é", " ", "x", `\r`, `\a`})
	}
	cs = append(cs, c13Case{Op: "literal-pair", Lit: inner})
	return cs
}

func runC13(r *core.Run) {
	r.SetRule("strings over ASCII, 2/3/4-byte runes, combining marks and invalid UTF-8 (lone continuation bytes, truncated sequences, surrogates, NUL) reach script functions as host-supplied arguments: len, s[i] (value, type uint8 and byte arithmetic) for every index incl. one past each end, s[i:j] for every pair incl. out-of-range ones (must be errors), the three range forms (byte offsets, runes, U+FFFD), []byte(s), string([]byte), []byte(literal) evaluated repeatedly with writes in between, string(rune) incl. invalid code points, string(b) for byte / s[i] / int8 / uint32 operands (the code point's encoding, not the byte), a+b and += with the operands checked afterwards, the six comparisons, repeated string(b) conversions of one byte slice with writes through it, an alias, copy and append in between, byte arithmetic on literal-indexed elements of local strings; plus generated interpreted, raw and character literal spellings (all escape forms) evaluated by Eval. non-trivial = the operation returned a value (not an expected error); distinct by (operation, operands)")
	r.Assume("native Go string operations and strconv.Unquote/UnquoteChar are the specification")
	n := r.N(10000, 200000)
	core.Parallel((n+49)/50, func(chunk int) {
		w := newC13Worker(r)
		if w == nil {
			return
		}
		for i := chunk * 50; i < (chunk+1)*50 && i < n; i++ {
			for _, c := range c13Gen(r.Seed, i) {
				r.Eval(1)
				if p := w.check(c); p != "" {
					r.Violate(core.Violation{Check: "c13", Index: i, What: p, Case: c})
					continue
				}
				r.Distinct(fmt.Sprint(c.Op, string(c.S), "|", string(c.T), c.I, c.J, c.Lit))
				r.Count("op:"+c.Op, 1)
				if i%997 == 0 && c.Op != "slice" && c.Op != "index" {
					r.Sample(map[string]any{"op": c.Op, "s": strconv.Quote(string(c.S)), "t": strconv.Quote(string(c.T)), "literal": c.Lit})
				}
			}
		}
	})
	// pinned witnesses
	for _, s := range []struct{ id, src, want string }{
		{"F12", `r := []int{}; for i := range "héllo" { r = append(r, i) }; r`, "[0 1 3 4 5]"},
		{"F13", `s := "ab"; t := __type(s[0]); t`, "uint8"},
		{"F14", `r := '\''; r`, "39"},
		{"F34", `b := []byte("a"); b = append(b, "€5"...); b`, "[97 226 130 172 53]"},
	} {
		m := core.NewMachine(core.VMOpts{Optimize: true})
		o := m.Eval(nil, s.src)
		r.Eval(1)
		if o.Failed() || len(o.Rets) != 1 || o.Rets[0] != s.want {
			r.Violate(core.Violation{Check: "c13-sentinel", What: "pinned witness of repaired finding " + s.id + " fails again", Case: c13Case{Op: "sentinel", Lit: s.src}, Expected: s.want, Observed: o})
		}
	}
}

func replayC13(r *core.Run, v *core.Violation) {
	var c c13Case
	if err := remarshal(v.Case, &c); err != nil {
		return
	}
	if c.Op == "sentinel" {
		m := core.NewMachine(core.VMOpts{Optimize: true})
		o := m.Eval(nil, c.Lit)
		fmt.Printf("%+v\n", o)
		if len(o.Rets) != 1 || o.Rets[0] != fmt.Sprint(v.Expected) {
			r.Violate(*v)
		}
		return
	}
	w := newC13Worker(r)
	if w == nil {
		return
	}
	if p := w.check(c); p != "" {
		r.Violate(core.Violation{Check: "c13", What: p, Case: c})
	}
}
