package checks

import (
	"fmt"
	"regexp"
	"strings"

	"verif/internal/core"
)

// C20 — run-time errors point at the failing line and the active call chain.
//
// Oracle: the generator knows the line of the planted fault and of every call
// site. Observed: the text of the returned error, with the optimizer on and
// off (the two must agree line by line, opcode names and columns aside).

func init() { register("C20", &Check{Run: runC20, Replay: replayC20}) }

type c20Frame struct {
	Func string `json:"func"`
	Line int    `json:"line"`
	File string `json:"file"`
}

type c20Case struct {
	Files  map[string]string `json:"files"`
	Entry  string            `json:"entry"` // call | eval
	Fault  string            `json:"fault"`
	Want   []c20Frame        `json:"expected_frames"` // innermost first: fault site, then call sites
	MsgHas string            `json:"message_contains,omitempty"`
	Depth  int               `json:"depth"`
	CRLF   bool              `json:"crlf_line_endings,omitempty"`
}

type c20Gen struct {
	r     *core.Rng
	lines map[string][]string // per file
}

func (g *c20Gen) emit(file, f string, a ...any) int {
	g.lines[file] = append(g.lines[file], fmt.Sprintf(f, a...))
	return len(g.lines[file])
}

type c20Fault struct {
	name   string
	setup  []string // statements before the faulting line (locals so that fusions fire)
	stmt   string   // the faulting statement
	msgHas string
}

var c20Faults = []c20Fault{
	{"integer divide by zero (locals: LOCALDIV)", []string{"a := n + 1", "b := 0"}, "return a / b", "divide by zero"},
	{"integer divide by zero in compound assignment", []string{"a := n + 1", "b := a - a"}, "a /= b", "divide by zero"},
	{"modulo by zero", []string{"a := n + 1", "b := 0"}, "return a % b", "divide by zero"},
	{"slice index out of range (constant index: FASTGETINT)", []string{"s := []int{1, 2, n}"}, "return s[5]", "out of range"},
	{"slice index out of range (computed)", []string{"s := []int{1, 2, n}", "i := len(s) + n*0 + 2"}, "return s[i]", "out of range"},
	{"slice store out of range (FASTSETINT)", []string{"s := []int{1, 2, n}"}, "s[7] = 1", "out of range"},
	{"string index out of range", []string{"s := \"abc\"", "i := 10"}, "return int(s[i])", "out of range"},
	{"slice bounds out of range", []string{"s := []int{1, 2, 3}", "i := 5"}, "s = s[i:]", "out of range"},
	{"nil map write", []string{"var m map[string]int"}, "m[\"a\"] = n", ""},
	{"field read on a nil struct reference (FASTGETATTR)", []string{"var p *T"}, "return p.N", ""},
	{"field write on a nil struct reference (FASTSETATTR)", []string{"var p *T"}, "p.N = n", ""},
	{"field read through a nil link", []string{"p := &T{N: n}"}, "return p.P.N", ""},
	{"method call on a nil struct reference (FASTCALLATTR)", []string{"var p *T"}, "return p.Get()", ""},
	{"call of a nil function value", []string{"var f func(int) int"}, "return f(n)", ""},
	{"explicit panic", []string{"msg := \"kaboom\""}, "panic(msg)", "kaboom"},
	{"call with too few arguments", nil, "return two()", "incorrect args"},
	{"failing native", []string{"k := 0 - 1 - n*0"}, "return len(strings.Repeat(\"x\", k))", "Repeat"},
	{"negative shift count", []string{"a := 1", "k := 0 - 3"}, "return a << k", "negative shift"},
	{"negative shift count in a compound assignment", []string{"a := 1", "k := 0 - 3 - n*0"}, "a <<= k", "negative shift"},
	{"negative shift count in a right-shift assignment", []string{"a := n + 100", "k := 0 - 1"}, "a >>= k", "negative shift"},
	{"implicitly repeated constant expression (goatlang evaluates constants at run time)", []string{"const (", "\tq0 = 100 / (2 - iota)"}, "\tq1", "divide by zero"},
}

func c20Generate(seed int64, idx int) c20Case {
	rng := core.Derive(seed, "c20", idx)
	g := &c20Gen{r: rng, lines: map[string][]string{}}
	depth := rng.Range(1, 30)
	if rng.Chance(1, 2) {
		depth = rng.Range(1, 6)
	}
	twoPkgs := rng.Chance(1, 4)
	mainFile, libFile, libImport := "app/main.go", "lib/lib.go", "lib"
	if rng.Bool() {
		// the import path of the second package differs from its name; functions and methods are named by the package
		libImport = core.Pick(rng, []string{"x/lib", "deep/er/lib", "example.com/u/lib"})
		libFile = libImport + "/lib.go"
	}
	c := c20Case{Files: map[string]string{}, Depth: depth}
	fault := core.Pick(rng, c20Faults)
	c.Fault, c.MsgHas = fault.name, fault.msgHas

	// files may begin with blank lines and comments: line numbers count from the top of the file
	for n := rng.Intn(4); n > 0; n-- {
		g.emit(mainFile, "%s", core.Pick(rng, []string{"", "", "// leading comment"}))
	}
	g.emit(mainFile, "package main")
	g.emit(mainFile, "")
	g.emit(mainFile, "import (")
	g.emit(mainFile, "\t\"strings\"")
	if twoPkgs {
		g.emit(mainFile, "\t%q", libImport)
	}
	g.emit(mainFile, ")")
	g.emit(mainFile, "")
	g.emit(mainFile, "type T struct {")
	g.emit(mainFile, "\tN int")
	g.emit(mainFile, "\tP *T")
	g.emit(mainFile, "}")
	g.emit(mainFile, "")
	g.emit(mainFile, "func (t *T) Get() int {")
	getLine := map[string]int{}
	getLine[mainFile] = g.emit(mainFile, "\treturn t.N")
	g.emit(mainFile, "}")
	g.emit(mainFile, "")
	g.emit(mainFile, "func two(a int, b int) int {")
	g.emit(mainFile, "\treturn a + b + len(strings.TrimSpace(\" \"))")
	g.emit(mainFile, "}")
	g.emit(mainFile, "")
	g.emit(mainFile, "func id(a int) int {")
	g.emit(mainFile, "\treturn a")
	g.emit(mainFile, "}")
	g.emit(mainFile, "")
	if twoPkgs {
		for n := rng.Intn(4); n > 0; n-- {
			g.emit(libFile, "")
		}
		for _, l := range []string{"package lib", "", "import \"strings\"", "", "type T struct {", "\tN int", "\tP *T", "}", "", "func (t *T) Get() int {", "\treturn t.N", "}", "",
			"func two(a int, b int) int {", "\treturn a + b + len(strings.TrimSpace(\" \"))", "}", "", "func id(a int) int {", "\treturn a", "}", ""} {
			if ln := g.emit(libFile, "%s", l); l == "\treturn t.N" {
				getLine[libFile] = ln
			}
		}
	}

	// frames: chain[i] calls chain[i+1]; the last one faults. Each entry: how it is named and called.
	type fn struct {
		name, qual, file string // qual: name as it appears in the error text
		method           bool
		inLib            bool
		rec              int  // recursion depth before calling the next one
		spread           bool // takes a variadic tail and is called with a spread slice
	}
	chain := make([]fn, depth)
	for i := range chain {
		f := &chain[i]
		f.name = fmt.Sprintf("c%d", i)
		f.file = mainFile
		switch {
		case twoPkgs && i > 0 && rng.Chance(1, 3):
			f.inLib, f.file = true, libFile
			f.name = fmt.Sprintf("C%d", i)
			f.qual = "lib." + f.name
			if rng.Chance(1, 4) {
				f.method = true
				f.qual = "lib.T." + f.name
			}
		case i > 0 && rng.Chance(1, 4):
			f.method = true
			f.qual = "main.T." + f.name
		default:
			f.qual = "main." + f.name
		}
		if i < depth-1 && rng.Chance(1, 8) {
			f.rec = rng.Range(1, 4)
		} else if i > 0 && rng.Chance(1, 5) {
			f.spread = true
		}
	}
	// library functions cannot call back into main: keep the tail of the chain in lib once entered
	for i := 1; i < depth; i++ {
		if chain[i-1].inLib && !chain[i].inLib {
			chain[i].inLib, chain[i].file, chain[i].method = true, libFile, false
			chain[i].name = fmt.Sprintf("C%d", i)
			chain[i].qual = "lib." + chain[i].name
		}
	}
	callExpr := func(from, to fn, arg string) string {
		switch {
		case to.method:
			return fmt.Sprintf("rcv.%s(%s)", to.name, arg)
		case to.inLib && !from.inLib:
			return fmt.Sprintf("lib.%s(%s)", to.name, arg)
		default:
			return fmt.Sprintf("%s(%s)", to.name, arg)
		}
	}
	var frames []c20Frame // outermost first
	for i, f := range chain {
		file := f.file
		sig := fmt.Sprintf("func %s(n int) int {", f.name)
		if f.method {
			sig = fmt.Sprintf("func (t *T) %s(n int) int {", f.name)
		}
		if f.spread {
			sig = strings.Replace(sig, "(n int)", "(n int, rest ...int)", 1)
		}
		if f.rec > 0 {
			sig = fmt.Sprintf("func %s(n int, k int) int {", f.name)
			if f.method {
				sig = fmt.Sprintf("func (t *T) %s(n int, k int) int {", f.name)
			}
		}
		g.emit(file, "%s", sig)
		for k := rng.Intn(3); k > 0; k-- {
			g.emit(file, "\tn = n*2 + %d", rng.Intn(5))
		}
		if rng.Chance(1, 4) {
			// a function literal before the line of interest: the enclosing function is still the one reported
			g.emit(file, "\th%d := func(a int) int {", i)
			g.emit(file, "\t\treturn a + 1")
			g.emit(file, "\t}")
			if rng.Bool() {
				g.emit(file, "\tn = h%d(n)", i)
			} else {
				g.emit(file, "\tn += len([]func(int) int{h%d})", i)
			}
		}
		if i == depth-1 {
			for _, s := range fault.setup {
				g.emit(file, "\t%s", s)
			}
			// the fault may sit inside a loop / branch
			var line int
			placement := rng.Intn(4)
			if strings.HasPrefix(fault.name, "implicitly repeated constant") {
				placement = 3 // the block stays in one piece
			}
			switch placement {
			case 0:
				g.emit(file, "\tfor q := 0; q < 2; q++ {")
				line = g.emit(file, "\t\t%s", fault.stmt)
				g.emit(file, "\t}")
			case 1:
				g.emit(file, "\tif n*0 == 0 {")
				line = g.emit(file, "\t\t%s", fault.stmt)
				g.emit(file, "\t}")
			default:
				line = g.emit(file, "\t%s", fault.stmt)
			}
			if strings.HasPrefix(fault.name, "implicitly repeated constant") {
				// the repeated expression is the one written on q0's line; it fails for iota == 2
				g.emit(file, "\t\tq2")
				g.emit(file, "\t)")
				g.emit(file, "\t_, _, _ = q0, q1, q2")
				line -= 1
			}
			g.emit(file, "\treturn n")
			g.emit(file, "}")
			g.emit(file, "")
			frames = append(frames, c20Frame{Func: f.qual, Line: line, File: file})
			if strings.HasPrefix(fault.name, "method call on a nil struct reference") {
				// the method is entered with the nil receiver (as in Go) and fails at its field read
				q := "main.T.Get"
				if f.inLib {
					q = "lib.T.Get"
				}
				frames = append(frames, c20Frame{Func: q, Line: getLine[file], File: file})
			}
			continue
		}
		next := chain[i+1]
		if next.method {
			// the receiver is built on its own line: goatlang has no automatic semicolon insertion, so a
			// statement must not begin with '(' (recorded finding K02)
			if next.inLib && !f.inLib {
				g.emit(file, "\trcv := &lib.T{N: n}")
			} else {
				g.emit(file, "\trcv := &T{N: n}")
			}
		}
		arg := "n"
		if next.spread {
			// the next call spreads a slice; an ordinary call on another line comes right before it
			g.emit(file, "\tsp := []int{n, 1}")
			g.emit(file, "\tn = id(n)")
			arg = "n, sp..."
		}
		callNext := callExpr(f, next, arg)
		if next.rec > 0 {
			callNext = strings.TrimSuffix(callNext, ")") + fmt.Sprintf(", %d)", next.rec)
		}
		if f.rec > 0 {
			g.emit(file, "\tif k > 0 {")
			self := fmt.Sprintf("%s(n, k-1)", f.name)
			if f.method {
				self = "t." + self
			}
			recLine := g.emit(file, "\t\treturn %s", self)
			g.emit(file, "\t}")
			for k := 0; k < f.rec; k++ {
				frames = append(frames, c20Frame{Func: f.qual, Line: recLine, File: file})
			}
		}
		var line int
		switch rng.Intn(10) {
		case 0:
			line = g.emit(file, "\t%s", callNext)
		case 1:
			line = g.emit(file, "\ty := %s", callNext)
			g.emit(file, "\tn += y")
		case 2:
			line = g.emit(file, "\treturn %s", callNext)
		case 3:
			if rng.Chance(1, 3) {
				// the call sits beyond column 256 (and beyond 512) of its line
				line = g.emit(file, "\tn = n + %s%s*2", strings.Repeat("0 + ", rng.Range(70, 200)), callNext)
			} else {
				line = g.emit(file, "\tn = n + %s*2", callNext)
			}
		case 4:
			line = g.emit(file, "\tn = id(%s)", callNext)
		case 5:
			line = g.emit(file, "\tif %s > 0 {", callNext)
			g.emit(file, "\t\tn++")
			g.emit(file, "\t}")
		case 6:
			g.emit(file, "\tfor i := 0; i < 3; i++ {")
			line = g.emit(file, "\t\tn += %s", callNext)
			g.emit(file, "\t}")
		case 7:
			g.emit(file, "\tswitch {")
			g.emit(file, "\tcase n*0 == 1:")
			g.emit(file, "\t\tn--")
			g.emit(file, "\tdefault:")
			line = g.emit(file, "\t\tn = %s", callNext)
			g.emit(file, "\t}")
		case 8:
			// arguments on later lines than the callee: the call is reported on the callee's line
			open := strings.Index(callNext, "(")
			line = g.emit(file, "\tn = %s", callNext[:open+1])
			g.emit(file, "\t\t%s", callNext[open+1:])
		default:
			g.emit(file, "\tvar t0 *T = &T{N: n}")
			line = g.emit(file, "\tt0.N = %s", callNext)
			g.emit(file, "\tn = t0.N")
		}
		g.emit(file, "\treturn n")
		g.emit(file, "}")
		g.emit(file, "")
		frames = append(frames, c20Frame{Func: f.qual, Line: line, File: file})
	}
	// entry
	c.Entry = core.Pick(rng, []string{"call", "call", "eval", "pkgvar", "eval-after-method"})
	first := "c0(3)"
	if chain[0].rec > 0 {
		first = fmt.Sprintf("c0(3, %d)", chain[0].rec)
	}
	if c.Entry == "pkgvar" {
		// the chain starts in the initialiser of a package variable that follows a method declaration: the
		// outermost entry is package-level code and carries no function name
		g.emit(mainFile, "func (t *T) Last() int {")
		g.emit(mainFile, "\treturn t.N")
		g.emit(mainFile, "}")
		g.emit(mainFile, "")
		varLine := g.emit(mainFile, "var start = %s", first)
		g.emit(mainFile, "")
		g.emit(mainFile, "func main() {")
		g.emit(mainFile, "}")
		frames = append([]c20Frame{{Func: "", Line: varLine, File: mainFile}}, frames...)
	} else {
		g.emit(mainFile, "func main() {")
		mainLine := g.emit(mainFile, "\t%s", first)
		g.emit(mainFile, "}")
		frames = append([]c20Frame{{Func: "main.main", Line: mainLine, File: mainFile}}, frames...)
	}
	// one time in six the files use \r\n line endings: a line is a line
	eol := "\n"
	if rng.Chance(1, 6) {
		eol = "\r\n"
		c.CRLF = true
	}
	for f, ls := range g.lines {
		c.Files[f] = strings.Join(ls, eol) + eol
	}
	// expected, innermost first
	for i := len(frames) - 1; i >= 0; i-- {
		c.Want = append(c.Want, frames[i])
	}
	return c
}

var c20First = regexp.MustCompile(`^(?:(\S+)\(\.\.\.\) )?(\S+?):(\d+):\d+: [A-Z]*: (.*)$`)
var c20Trace = regexp.MustCompile(`^\t(?:(\S+)\(\.\.\.\) )?(\S+?):(\d+):\d+$`)

func c20Run(c c20Case, optimize bool) (string, core.Outcome) {
	m := core.NewMachine(core.VMOpts{Optimize: optimize, Obs: core.NewObs(core.SmallBudget, false, nil)})
	var o core.Outcome
	sys := core.MapFS(c.Files)
	var err error
	if p := core.Guard(func() { err = m.VM.Load(sys, "app") }); p != "" {
		o.Panic = p
		return "", o
	}
	if err != nil && c.Entry == "pkgvar" {
		// the planted fault fires while the package's variables are initialised
		o.Err = strings.TrimPrefix(strings.TrimPrefix(err.Error(), "error in load: "), "error in run: ")
		return o.Err, o
	}
	if err != nil {
		o.Err = "LOAD: " + err.Error()
		return "", o
	}
	if c.Entry == "call" {
		o = m.Call("main.main", 0)
		// the same failure once more on the same VM: nothing of the first failure's chain is left over
		if o2 := m.Call("main.main", 0); o.Err != "" && o2.Err != o.Err {
			o.Err = "SECOND CALL DIFFERS\nfirst:\n" + o.Err + "\nsecond:\n" + o2.Err
		}
	} else if c.Entry == "eval-after-method" {
		// the evaluated text declares a type and a method (no plain function) ahead of the call: the call is
		// still top-level code
		o = m.Eval(sys, "type E struct {\n\tN int\n}\n\nfunc (e *E) Get() int {\n\treturn e.N\n}\n\nmain()")
		o.Err = strings.TrimPrefix(o.Err, "error in run: ")
	} else {
		o = m.Eval(sys, "main()")
		o.Err = strings.TrimPrefix(o.Err, "error in run: ")
	}
	return o.Err, o
}

// c20Check compares an error text with the expected frames.
func c20Check(c c20Case, errText string) string {
	if errText == "" {
		return "the planted fault did not produce an error"
	}
	if strings.HasPrefix(errText, "LOAD: ") {
		return "the program does not load: " + errText
	}
	lines := strings.Split(errText, "\n")
	m := c20First.FindStringSubmatch(lines[0])
	if m == nil {
		return fmt.Sprintf("the first line %q does not have the form 'func(...) file:line:col: OP: message'", lines[0])
	}
	w := c.Want[0]
	if m[1] != w.Func || m[2] != w.File || m[3] != fmt.Sprint(w.Line) {
		return fmt.Sprintf("the error names %s %s:%s, the fault is in %s at %s:%d", m[1], m[2], m[3], w.Func, w.File, w.Line)
	}
	if c.MsgHas != "" && !strings.Contains(m[4], c.MsgHas) {
		return fmt.Sprintf("the message %q does not mention %q", m[4], c.MsgHas)
	}
	want := c.Want[1:]
	got := lines[1:]
	// when entered through Eval, the top-level call site follows main.main's frame
	if c.Entry == "eval" || c.Entry == "eval-after-method" {
		if len(got) == 0 {
			return "the call chain is missing"
		}
		evalLine := "1"
		if c.Entry == "eval-after-method" {
			evalLine = "9"
		}
		last := c20Trace.FindStringSubmatch(got[len(got)-1])
		if last == nil || last[1] != "" || last[3] != evalLine {
			return fmt.Sprintf("the outermost entry %q should be the top-level call site t.go:%s", got[len(got)-1], evalLine)
		}
		got = got[:len(got)-1]
	}
	if len(got) != len(want) {
		return fmt.Sprintf("the call chain has %d entries, %d calls are active", len(got), len(want))
	}
	for i, l := range got {
		t := c20Trace.FindStringSubmatch(l)
		if t == nil {
			return fmt.Sprintf("call-chain line %d %q does not have the form '\\tfunc(...) file:line:col'", i+1, l)
		}
		if t[1] != want[i].Func || t[2] != want[i].File || t[3] != fmt.Sprint(want[i].Line) {
			return fmt.Sprintf("call-chain entry %d is %s %s:%s, the active call is in %s at %s:%d", i+1, t[1], t[2], t[3], want[i].Func, want[i].File, want[i].Line)
		}
	}
	return ""
}

func c20Decide(c c20Case) (string, map[string]string) {
	on, oOn := c20Run(c, true)
	off, oOff := c20Run(c, false)
	obs := map[string]string{"optimizer_on": on, "optimizer_off": off}
	if oOn.Panic != "" || oOff.Panic != "" {
		return "a Go panic escaped: " + oOn.Panic + oOff.Panic, obs
	}
	if what := c20Check(c, off); what != "" {
		return "optimizer off: " + what, obs
	}
	if what := c20Check(c, on); what != "" {
		return "optimizer on: " + what, obs
	}
	if normErr(on) != normErr(off) {
		return "the error text differs between optimizer on and off (beyond opcode names and columns)", obs
	}
	return "", obs
}

func runC20(r *core.Run) {
	r.SetRule("generated call chains of depth 1-30 (functions, methods, a second package, direct recursion of 1-4 extra frames, callees with a variadic tail called with a spread slice right after an ordinary call) with the next call placed as a statement, in a := / return / arithmetic expression / argument of another call / if condition / for body / switch default / field store, and one of 21 run-time faults planted at a known line (inside a loop or branch one time in two) in statement shapes that trigger the peephole fusions; entered through Call, through a top-level Eval (also one that declares a type and a method ahead of the call) and from the initialiser of a package variable that follows a method declaration (outermost entry without a function name); one case in six with \\r\\n line endings; optimizer on and off. non-trivial = the fault produced an error with at least one call-chain entry; distinct by source")
	r.Assume("the generator knows every line: one statement per line, a call's arguments may start on the line after the callee (the call is expected on the callee's line); columns are not judged (the property speaks of lines)")
	n := r.N(3000, 120000)
	core.Parallel((n+49)/50, func(chunk int) {
		for i := chunk * 50; i < (chunk+1)*50 && i < n; i++ {
			c := c20Generate(r.Seed, i)
			r.Eval(1)
			what, obs := c20Decide(c)
			if what != "" {
				r.Violate(core.Violation{Check: "c20", Index: i, What: what, Case: c, Observed: obs})
				continue
			}
			if len(c.Want) >= 2 {
				r.Distinct(treeKey(c.Files))
			}
			r.Count("fault:"+c.Fault, 1)
			r.Count("call_chain_entries_checked", 2*(len(c.Want)-1))
			if i%1001 == 0 {
				r.Sample(map[string]any{"fault": c.Fault, "depth": c.Depth, "entry": c.Entry, "error_text": obs["optimizer_on"]})
			}
		}
	})
}

func replayC20(r *core.Run, v *core.Violation) {
	var c c20Case
	if err := remarshal(v.Case, &c); err != nil {
		return
	}
	what, obs := c20Decide(c)
	fmt.Printf("on:\n%s\noff:\n%s\n", obs["optimizer_on"], obs["optimizer_off"])
	if what != "" {
		r.Violate(core.Violation{Check: "c20", What: what, Case: c})
	}
}
