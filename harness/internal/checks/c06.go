package checks

import (
	"fmt"
	"strings"

	"verif/internal/core"
)

// C06 — break, continue and return reach the target Go specifies.
//
// Oracle: the Go toolchain (GOARCH=386) on the same shape functions. Observed:
// the trace each shape prints under four condition tables.

func init() { register("C06", &Check{Run: runC06, Replay: replayC06}) }

type shNode struct {
	kind   string // T break continue return if ifelse ifelif for3 forcond forever range rangekv switch
	blocks [][]*shNode
	// switch only
	tagged bool
	defPos int // -1 none, else index among the clauses where default sits
	multi  bool
}

type shCtx struct{ inLoop, inSwitch bool }

var c06Memo = map[string][][]*shNode{}

// shBlocks enumerates every statement list of total size n.
func shBlocks(n int, ctx shCtx) [][]*shNode {
	key := fmt.Sprint(n, ctx)
	if v, ok := c06Memo[key]; ok {
		return v
	}
	var res [][]*shNode
	if n == 0 {
		res = [][]*shNode{nil}
	} else {
		for k := 1; k <= n; k++ {
			for _, s := range shStmts(k, ctx) {
				terminal := s.kind == "break" || s.kind == "continue" || s.kind == "return"
				if terminal {
					if k == n {
						res = append(res, []*shNode{s})
					}
					continue
				}
				for _, rest := range shBlocks(n-k, ctx) {
					res = append(res, append([]*shNode{s}, rest...))
				}
			}
		}
	}
	c06Memo[key] = res
	return res
}

func shStmts(k int, ctx shCtx) []*shNode {
	var res []*shNode
	if k == 1 {
		res = append(res, &shNode{kind: "T"})
		if ctx.inLoop || ctx.inSwitch {
			res = append(res, &shNode{kind: "break"})
		}
		if ctx.inLoop {
			res = append(res, &shNode{kind: "continue"})
		}
		res = append(res, &shNode{kind: "return"})
		return res
	}
	body := k - 1
	for _, b := range shBlocks(body, ctx) {
		res = append(res, &shNode{kind: "if", blocks: [][]*shNode{b}})
	}
	for a := 1; a < body; a++ {
		for _, x := range shBlocks(a, ctx) {
			for _, y := range shBlocks(body-a, ctx) {
				res = append(res, &shNode{kind: "ifelse", blocks: [][]*shNode{x, y}})
			}
		}
	}
	for a := 1; a < body-1; a++ {
		for b := 1; a+b < body; b++ {
			for _, x := range shBlocks(a, ctx) {
				for _, y := range shBlocks(b, ctx) {
					for _, z := range shBlocks(body-a-b, ctx) {
						res = append(res, &shNode{kind: "ifelif", blocks: [][]*shNode{x, y, z}})
					}
				}
			}
		}
	}
	lctx := shCtx{inLoop: true}
	for _, kind := range []string{"for3", "forcond", "forever", "range", "rangekv"} {
		for _, b := range shBlocks(body, lctx) {
			res = append(res, &shNode{kind: kind, blocks: [][]*shNode{b}})
		}
	}
	sctx := shCtx{inLoop: ctx.inLoop, inSwitch: true}
	for _, tagged := range []bool{true, false} {
		// one case, no default
		for _, b := range shBlocks(body, sctx) {
			res = append(res, &shNode{kind: "switch", tagged: tagged, defPos: -1, blocks: [][]*shNode{b}})
			res = append(res, &shNode{kind: "switch", tagged: tagged, defPos: -1, multi: true, blocks: [][]*shNode{b}})
		}
		// one case + default (first / last); bodies may be empty
		for a := 0; a <= body; a++ {
			for _, x := range shBlocks(a, sctx) {
				for _, d := range shBlocks(body-a, sctx) {
					res = append(res, &shNode{kind: "switch", tagged: tagged, defPos: 0, blocks: [][]*shNode{d, x}})
					res = append(res, &shNode{kind: "switch", tagged: tagged, defPos: 1, blocks: [][]*shNode{x, d}})
				}
			}
		}
		// two cases + default in the middle
		for a := 0; a <= body; a++ {
			for b := 0; a+b <= body; b++ {
				if body-a-b == 0 && (a == 0 || b == 0) {
					continue
				}
				for _, x := range shBlocks(a, sctx) {
					for _, y := range shBlocks(b, sctx) {
						for _, d := range shBlocks(body-a-b, sctx) {
							res = append(res, &shNode{kind: "switch", tagged: tagged, defPos: 1, blocks: [][]*shNode{x, d, y}})
						}
					}
				}
			}
		}
	}
	return res
}

type shRender struct {
	sb    strings.Builder
	tid   int
	depth int
	nvar  int
	// style, when set, varies the spelling of conditions, case lists and loop bodies without changing what
	// the shape does: compound conditions whose other operand is a constant-valued comparison over locals
	// (fused by the optimizer), case lists mixing literals and expressions, a loop variable redeclared in the body
	style *core.Rng
	// xsShadowed > 0 inside a range loop whose value variable is called xs like the slice it ranges over
	xsShadowed int
}

func shHasRange(b []*shNode) bool {
	for _, n := range b {
		if n.kind == "range" || n.kind == "rangekv" {
			return true
		}
		for _, sub := range n.blocks {
			if shHasRange(sub) {
				return true
			}
		}
	}
	return false
}

// cond spells a condition with the truth value of one nx() call.
func (r *shRender) cond() string {
	if r.style == nil {
		return "nx()"
	}
	if r.xsShadowed > 0 {
		return core.Pick(r.style, []string{"nx()", "one > 0 && nx()", "nx() && xs > one", "nx() || xs < zero"})
	}
	return core.Pick(r.style, []string{"nx()", "nx()", "one > 0 && nx()", "nx() && n+1 > one", "zero > 0 || nx()", "nx() || n-1 > n", "nx() && xs[0] > one", "!(!nx() || n*2 < one)", "n+1 > one && nx() && one-1 < n",
		// a negated group whose last operation is == or != and whose first operand may short-circuit
		"!(!nx() || one != 1)", "!(!nx() && one == 1)", "!(!nx() || zero == 1)", "!(!nx() && n != 0)"})
}

func (r *shRender) line(ind int, f string, a ...any) {
	r.sb.WriteString(strings.Repeat("\t", ind))
	fmt.Fprintf(&r.sb, f, a...)
	r.sb.WriteByte('\n')
}

func (r *shRender) block(b []*shNode, ind int) {
	for _, s := range b {
		r.stmt(s, ind)
	}
}

func (r *shRender) stmt(s *shNode, ind int) {
	switch s.kind {
	case "T":
		r.tid++
		r.line(ind, "tr(%d)", r.tid)
	case "break", "continue", "return":
		r.line(ind, s.kind)
	case "if":
		r.line(ind, "if %s {", r.cond())
		r.block(s.blocks[0], ind+1)
		r.line(ind, "}")
	case "ifelse":
		if r.style != nil && r.style.Chance(1, 3) {
			// the variable of the init statement is visible in the else branch
			r.nvar++
			c := fmt.Sprintf("c%d", r.nvar)
			r.line(ind, "if %s, n%s := nx(), %d; %s {", c, c, r.nvar%7+1, c)
			r.block(s.blocks[0], ind+1)
			r.line(ind, "} else {")
			r.line(ind+1, "tr(9000 + n%s)", c)
			r.block(s.blocks[1], ind+1)
			r.line(ind, "}")
			break
		}
		r.line(ind, "if %s {", r.cond())
		r.block(s.blocks[0], ind+1)
		r.line(ind, "} else {")
		r.block(s.blocks[1], ind+1)
		r.line(ind, "}")
	case "ifelif":
		if r.style != nil && r.style.Chance(1, 3) {
			// ... and in the else-if condition and the final else
			r.nvar++
			c := fmt.Sprintf("c%d", r.nvar)
			r.line(ind, "if %s, n%s := nx(), %d; %s {", c, c, r.nvar%7+1, c)
			r.block(s.blocks[0], ind+1)
			r.line(ind, "} else if d%s, m%s := nx(), n%s+10; d%s || %s {", c, c, c, c, c)
			r.line(ind+1, "tr(9100 + m%s)", c)
			r.block(s.blocks[1], ind+1)
			r.line(ind, "} else {")
			r.line(ind+1, "tr(9200 + n%s + m%s)", c, c)
			r.block(s.blocks[2], ind+1)
			r.line(ind, "}")
			break
		}
		r.line(ind, "if %s {", r.cond())
		r.block(s.blocks[0], ind+1)
		r.line(ind, "} else if %s {", r.cond())
		r.block(s.blocks[1], ind+1)
		r.line(ind, "} else {")
		r.block(s.blocks[2], ind+1)
		r.line(ind, "}")
	case "for3":
		r.nvar++
		v := fmt.Sprintf("i%d", r.nvar)
		if r.style != nil && r.style.Bool() {
			v = "i" // nested loops may all call their variable i: each post statement advances its own loop's variable
		}
		r.line(ind, "for %s := 0; %s < 2; %s++ {", v, v, v)
		if r.style != nil && r.style.Chance(1, 3) {
			// the body's own variable of the same name; the post statement still advances the loop's
			r.line(ind+1, "%s := %s * 10", v, v)
			r.line(ind+1, "_ = %s", v)
		}
		r.block(s.blocks[0], ind+1)
		r.line(ind, "}")
	case "forcond":
		r.line(ind, "for %s {", r.cond())
		r.block(s.blocks[0], ind+1)
		r.line(ind, "}")
	case "forever":
		r.line(ind, "for {")
		r.line(ind+1, "if !nx() {")
		r.line(ind+2, "break")
		r.line(ind+1, "}")
		r.block(s.blocks[0], ind+1)
		r.line(ind, "}")
	case "range", "rangekv":
		hdr := func(n *shNode) string {
			if n.kind == "range" {
				return "for range xs {"
			}
			r.nvar++
			return fmt.Sprintf("for k%d, v%d := range xs { _, _ = k%d, v%d;", r.nvar, r.nvar, r.nvar, r.nvar)
		}
		body := s.blocks[0]
		if r.style != nil && s.kind == "rangekv" && !shHasRange(body) && r.style.Chance(1, 3) {
			// the value variable has the name of the slice ranged over: the operand is the outer xs, the body sees the element
			r.nvar++
			r.line(ind, "for k%d, xs := range xs { _, _ = k%d, xs;", r.nvar, r.nvar)
			r.xsShadowed++
			r.block(body, ind+1)
			r.xsShadowed--
			r.line(ind, "}")
			break
		}
		if r.style != nil && len(body) > 0 && (body[0].kind == "range" || body[0].kind == "rangekv") && r.style.Bool() {
			// two range loops that start on one source line
			r.line(ind, "%s %s", hdr(s), hdr(body[0]))
			r.block(body[0].blocks[0], ind+2)
			r.line(ind+1, "}")
			r.block(body[1:], ind+1)
			r.line(ind, "}")
			break
		}
		r.line(ind, "%s", hdr(s))
		r.block(body, ind+1)
		r.line(ind, "}")
	case "switch":
		gtagged := false
		if s.tagged && r.style != nil && r.style.Chance(1, 4) {
			// the tag is a package variable that a case expression changes: the tag was evaluated once, before
			gtagged = true
			r.line(ind, "gtag = ti()")
			r.line(ind, "switch gtag {")
		} else if s.tagged {
			r.line(ind, "switch ti() {")
		} else {
			r.line(ind, "switch {")
		}
		caseNo := 0
		for i, b := range s.blocks {
			isDef := s.defPos == i
			if isDef {
				r.line(ind, "default:")
				if r.style != nil && r.style.Chance(1, 2) {
					// names declared in the default clause are its own: the other clauses' tests and bodies see the outer ones
					r.line(ind+1, "n, one, zero := n+95, one, zero")
					r.line(ind+1, "_, _, _ = n, one, zero")
				}
			} else {
				switch {
				case gtagged:
					r.line(ind, "case %s:", []string{"tg(7201, 2)", "tg(7202, 1), 7", "tg(7203, 0), tg(7204, 3)"}[caseNo%3])
				case s.tagged && s.multi && r.style != nil:
					r.line(ind, "case %s:", [][]string{{"1, 2", "1, one+1", "one, 2", "zero+1, 2, n", "7, one, n-3", "tv(7001, 1), tv(7002, 2)", "tv(7003, 2), 1, tv(7004, 9)"}, {"0", "zero", "one-1, n", "tv(7005, 8), tv(7006, 0)", "tv(7007, 0), tv(7008, 0)"}, {"3", "one+2", "n, 3", "tv(7009, 3), tv(7010, 4)", "tv(7011, 4), tv(7012, 3), n"}}[caseNo%3][r.style.Intn(5)])
				case s.tagged && s.multi:
					r.line(ind, "case %s:", []string{"1, 2", "0", "3"}[caseNo%3])
				case s.tagged && r.style != nil && r.style.Chance(1, 3):
					r.line(ind, "case %s:", []string{"zero", "one", "one+1", "n-2"}[caseNo%4])
				case s.tagged:
					r.line(ind, "case %d:", caseNo)
				case s.multi && r.style != nil:
					r.line(ind, "case %s:", core.Pick(r.style, []string{"nx(), nx()", "n+1 < one, nx(), nx()", "nx(), zero > one, nx()", "nx(), nx(), n*2 < n", "false, nx(), nx() && one > zero", "tb(7101), tb(7102)", "tb(7103), nx(), tb(7104)", "nx(), tb(7105)"}))
				case s.multi:
					r.line(ind, "case nx(), nx():")
				default:
					r.line(ind, "case %s:", r.cond())
				}
				caseNo++
			}
			r.block(b, ind+1)
		}
		r.line(ind, "}")
	}
}

const c06Prelude = `package main

import "fmt"

var conds []bool
var ci, fuel int
var xs = []int{10, 20}

func nx() bool {
	fuel--
	if fuel < 0 {
		return false
	}
	v := conds[ci%len(conds)]
	ci++
	return v
}

func ti() int {
	if nx() {
		if nx() {
			return 2
		}
		return 1
	}
	return 0
}

func tr(i int) {
	fmt.Println(i)
}

func tb(i int) bool {
	tr(i)
	return nx()
}

func tv(i int, v int) int {
	tr(i)
	return v
}

var gtag int

func tg(i int, v int) int {
	tr(i)
	gtag = 1 - gtag
	return v
}

func run(id string, t int, tab []bool, f func()) {
	fmt.Println("==", id, t)
	conds = tab
	ci = 0
	fuel = 40
	f()
	fmt.Println("-- end")
}

`

func c06Case(idx int, body []*shNode, rng *core.Rng, styled bool) packedCase {
	var r shRender
	if styled {
		r.style = rng
		r.line(1, "one, zero, n := 1, 0, 5")
		r.line(1, "_, _, _ = one, zero, n")
	}
	r.block(body, 1)
	id := fmt.Sprintf("s%d", idx)
	decl := fmt.Sprintf("func %s() {\n%s}\n", id, r.sb.String())
	var call strings.Builder
	for t := 0; t < 4; t++ {
		var bs []string
		for i := 0; i < 8; i++ {
			b := rng.Bool()
			if t == 0 {
				b = true
			}
			if t == 1 {
				b = i%2 == 0
			}
			bs = append(bs, fmt.Sprint(b))
		}
		fmt.Fprintf(&call, "\trun(%q, %d, []bool{%s}, %s)\n", id, t, strings.Join(bs, ", "), id)
	}
	return packedCase{ID: id, Decl: decl, Call: call.String()}
}

// c06Random builds a random larger shape.
func c06Random(rng *core.Rng, size int, ctx shCtx, depth int) []*shNode {
	var res []*shNode
	for size > 0 {
		if depth >= 5 || size == 1 || rng.Chance(1, 3) {
			opts := []string{"T", "T", "T"}
			res = append(res, &shNode{kind: core.Pick(rng, opts)})
			size--
			continue
		}
		k := rng.Range(2, size)
		body := k - 1
		size -= k
		kinds := []string{"if", "ifelse", "ifelif", "for3", "forcond", "forever", "range", "rangekv", "switch", "switch"}
		kind := core.Pick(rng, kinds)
		n := &shNode{kind: kind}
		split := func(parts int) []int {
			sz := make([]int, parts)
			for i := 0; i < body; i++ {
				sz[rng.Intn(parts)]++
			}
			return sz
		}
		sub := func(sz int, c shCtx) []*shNode {
			b := c06Random(rng, sz, c, depth+1)
			// a terminal statement at the end now and then
			var t []string
			if c.inLoop {
				t = append(t, "break", "continue")
			} else if c.inSwitch {
				t = append(t, "break")
			}
			t = append(t, "return")
			if rng.Chance(1, 3) {
				b = append(b, &shNode{kind: core.Pick(rng, t)})
			}
			return b
		}
		switch kind {
		case "if":
			n.blocks = [][]*shNode{sub(body, ctx)}
		case "ifelse":
			s := split(2)
			n.blocks = [][]*shNode{sub(s[0], ctx), sub(s[1], ctx)}
		case "ifelif":
			s := split(3)
			n.blocks = [][]*shNode{sub(s[0], ctx), sub(s[1], ctx), sub(s[2], ctx)}
		case "switch":
			parts := rng.Range(1, 3)
			s := split(parts)
			sc := shCtx{inLoop: ctx.inLoop, inSwitch: true}
			for _, z := range s {
				n.blocks = append(n.blocks, sub(z, sc))
			}
			n.tagged = rng.Bool()
			n.multi = rng.Chance(1, 3)
			n.defPos = rng.Intn(parts+1) - 1
			if parts > 2 {
				n.defPos = rng.Intn(parts)
			}
		default:
			n.blocks = [][]*shNode{sub(body, shCtx{inLoop: true})}
		}
		res = append(res, n)
	}
	return res
}

func runC06(r *core.Run) {
	maxSize := r.N(3, 4)
	r.SetRule(fmt.Sprintf("shape functions built from T (trace point), break, continue, return, if / if-else / if-else-if-else, the three for forms, range (with and without variables), tagged and tagless switch with 1-2 cases, multi-value cases and default first/middle/last/absent; each shape also in a varied spelling (compound && / || conditions whose other operand is a comparison over locals, case lists mixing literals and expressions of different length, a loop variable redeclared in the body, a range value variable named like the slice ranged over, names declared again inside a default clause, case lists of calls that leave a trace so that the order and number of evaluations shows, a package variable as switch tag that the case expressions change, negated && / || groups ending in == or !=); every shape of size <= %d is enumerated, larger ones (size <= 25, depth <= 6) sampled; each runs under 4 condition tables. non-trivial = accepted by Go and printed at least one trace line under some table; distinct by shape text", maxSize))
	r.Assume("Go toolchain (GOARCH=386) as the reference; conditions come from a bool table through a function with a fuel counter, so every loop terminates on both sides")
	var cases []packedCase
	var shapes [][]*shNode
	for n := 1; n <= maxSize; n++ {
		for _, b := range shBlocks(n, shCtx{}) {
			shapes = append(shapes, b)
		}
	}
	exhaustiveN := len(shapes)
	// a sample of the next size class
	next := shBlocks(maxSize+1, shCtx{})
	nNext := r.N(8000, 60000)
	for i := 0; i < nNext && len(next) > 0; i++ {
		shapes = append(shapes, next[core.Derive(r.Seed, "c06-next", i).Intn(len(next))])
	}
	r.Count("shapes_sampled_from_next_size_class", nNext)
	nRand := r.N(4000, 30000)
	for i := 0; i < nRand; i++ {
		rng := core.Derive(r.Seed, "c06-rand", i)
		shapes = append(shapes, c06Random(rng, rng.Range(6, 25), shCtx{}, 0))
	}
	// every enumerated shape in the plain spelling and once more in a varied spelling; sampled shapes alternate
	plainN := len(shapes)
	for i := 0; i < exhaustiveN; i++ {
		shapes = append(shapes, shapes[i])
	}
	for i, b := range shapes {
		styled := i >= plainN || (i >= exhaustiveN && i%2 == 1)
		cases = append(cases, c06Case(i, b, core.Derive(r.Seed, "c06-tab", i), styled))
		if styled {
			r.Count("shapes_in_varied_spelling", 1)
		}
	}
	r.Count("shapes_enumerated_exhaustively", exhaustiveN)
	r.Count("shapes_sampled", nRand)
	r.SetExhaustive(true)
	r.SetObserved("exhaustive_scope", fmt.Sprintf("all shapes of size <= %d over the statement grammar in 'rule' (terminal statements only at the end of a block); larger shapes are sampled", maxSize))
	res := runPacked(r, "sh", c06Prelude, cases, 250, core.Budget{MaxSteps: 60000, MaxDepth: 200, MaxLen: 1 << 12, MaxOut: 1 << 18})
	for i, pr := range res {
		r.Eval(1)
		if !pr.GoOK {
			r.Inconclusive("no_reference_output")
			continue
		}
		what := ""
		switch {
		case pr.Goat.Panic != "":
			what = "a Go panic escaped: " + pr.Goat.Panic
		case pr.GoPanic:
			if pr.Goat.Err == "" {
				what = "Go panics, goatlang succeeds"
			}
		case pr.Goat.Err != "":
			what = "goatlang fails where Go succeeds: " + core.ErrFirstLine(pr.Goat.Err)
		case pr.Goat.Out != pr.Go:
			what = "the trace differs from Go's"
		}
		if what != "" {
			r.Violate(core.Violation{Check: "c06", Index: i, What: what, Case: cases[i], Expected: pr.Go, Observed: pr.Goat, Extra: firstDiff(pr.Go, pr.Goat.Out)})
			continue
		}
		if strings.Count(pr.Go, "\n") > 8 {
			r.Distinct(cases[i].Decl)
		}
		if i%1777 == 0 {
			r.Sample(map[string]any{"shape": cases[i].Decl, "trace": excerpt(pr.Go, 12)})
		}
	}
}

func replayC06(r *core.Run, v *core.Violation) {
	var c packedCase
	if err := remarshal(v.Case, &c); err != nil {
		return
	}
	res := runPacked(r, "shr", c06Prelude, []packedCase{c}, 1, core.Budget{MaxSteps: 60000, MaxDepth: 200, MaxLen: 1 << 12, MaxOut: 1 << 18})
	fmt.Printf("--- go ---\n%s--- goatlang ---\n%s err=%s\n", res[0].Go, res[0].Goat.Out, res[0].Goat.Err)
	if res[0].GoOK && (res[0].Goat.Out != res[0].Go || res[0].Goat.Err != "") {
		r.Violate(core.Violation{Check: "c06", What: "the trace differs from Go's", Case: c, Extra: firstDiff(res[0].Go, res[0].Goat.Out)})
	}
}
