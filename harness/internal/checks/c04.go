package checks

import (
	"fmt"
	"math"
	"strings"
	"sync"

	"github.com/philhassey/goatlang"

	"verif/internal/core"
)

// C04 — fixed-width numeric semantics.
//
// Oracle: the Go compiler's own arithmetic, compiled into this harness
// (generic helpers instantiated per type). Observed: value and dynamic type
// returned by script functions called through VM.Call.

func init() { register("C04", &Check{Run: runC04, Replay: replayC04}) }

type c04Int interface {
	~int8 | ~uint8 | ~int32 | ~uint32
}

// numeric types under test
type c04Type struct {
	name   string // script spelling
	tag    goatlang.Type
	goName string // what __type reports
	bits   int
	signed bool
	float  bool
}

var c04Types = []c04Type{
	{"int8", goatlang.TypeInt8, "int8", 8, true, false},
	{"uint8", goatlang.TypeUint8, "uint8", 8, false, false},
	{"int32", goatlang.TypeInt32, "int32", 32, true, false},
	{"uint32", goatlang.TypeUint32, "uint32", 32, false, false},
	{"float64", goatlang.TypeFloat64, "float64", 64, true, true},
}

func c04TypeByName(n string) c04Type {
	switch n {
	case "byte":
		n = "uint8"
	case "int", "rune":
		n = "int32"
	case "uint":
		n = "uint32"
	}
	for _, t := range c04Types {
		if t.name == n {
			return t
		}
	}
	panic("type " + n)
}

// mk builds a goatlang value of type t from a float64 carrying the exact value.
func (t c04Type) mk(x float64) goatlang.Value {
	switch t.name {
	case "int8":
		return goatlang.Int8(int8(x))
	case "uint8":
		return goatlang.Uint8(uint8(x))
	case "int32":
		return goatlang.Int32(int32(x))
	case "uint32":
		return goatlang.Uint32(uint32(x))
	}
	return goatlang.Float64(x)
}

type c04Op struct {
	name, sym string
	cmp       bool
	intOnly   bool
	shift     bool
}

var c04Ops = []c04Op{
	{"add", "+", false, false, false}, {"sub", "-", false, false, false}, {"mul", "*", false, false, false},
	{"div", "/", false, false, false}, {"mod", "%", false, true, false},
	{"and", "&", false, true, false}, {"or", "|", false, true, false}, {"xor", "^", false, true, false}, {"andnot", "&^", false, true, false},
	{"shl", "<<", false, true, true}, {"shr", ">>", false, true, true},
	{"eq", "==", true, false, false}, {"ne", "!=", true, false, false}, {"lt", "<", true, false, false},
	{"le", "<=", true, false, false}, {"gt", ">", true, false, false}, {"ge", ">=", true, false, false},
}

// c04Want is the native result.
type c04Want struct {
	num  float64
	b    bool
	isB  bool
	fail bool // Go panics (division by zero, negative shift count)
}

func c04BinInt[T c04Int](op string, a, b T) (w c04Want) {
	defer func() {
		if recover() != nil {
			w = c04Want{fail: true}
		}
	}()
	switch op {
	case "add":
		w.num = float64(a + b)
	case "sub":
		w.num = float64(a - b)
	case "mul":
		w.num = float64(a * b)
	case "div":
		w.num = float64(a / b)
	case "mod":
		w.num = float64(a % b)
	case "and":
		w.num = float64(a & b)
	case "or":
		w.num = float64(a | b)
	case "xor":
		w.num = float64(a ^ b)
	case "andnot":
		w.num = float64(a &^ b)
	case "shl":
		w.num = float64(a << b)
	case "shr":
		w.num = float64(a >> b)
	case "eq":
		w.isB, w.b = true, a == b
	case "ne":
		w.isB, w.b = true, a != b
	case "lt":
		w.isB, w.b = true, a < b
	case "le":
		w.isB, w.b = true, a <= b
	case "gt":
		w.isB, w.b = true, a > b
	case "ge":
		w.isB, w.b = true, a >= b
	default:
		panic("op " + op)
	}
	return w
}

func c04Shift[T c04Int, C c04Int](op string, a T, c C) (w c04Want) {
	defer func() {
		if recover() != nil {
			w = c04Want{fail: true}
		}
	}()
	if op == "shl" {
		w.num = float64(a << c)
	} else {
		w.num = float64(a >> c)
	}
	return w
}

func c04BinFloat(op string, a, b float64) (w c04Want) {
	switch op {
	case "add":
		w.num = a + b
	case "sub":
		w.num = a - b
	case "mul":
		w.num = a * b
	case "div":
		w.num = a / b
	case "eq":
		w.isB, w.b = true, a == b
	case "ne":
		w.isB, w.b = true, a != b
	case "lt":
		w.isB, w.b = true, a < b
	case "le":
		w.isB, w.b = true, a <= b
	case "gt":
		w.isB, w.b = true, a > b
	case "ge":
		w.isB, w.b = true, a >= b
	default:
		panic("float op " + op)
	}
	return w
}

// c04Bin dispatches on the type name; a and b carry exact values.
func c04Bin(t c04Type, op string, a, b float64) c04Want {
	switch t.name {
	case "int8":
		return c04BinInt(op, int8(a), int8(b))
	case "uint8":
		return c04BinInt(op, uint8(a), uint8(b))
	case "int32":
		return c04BinInt(op, int32(a), int32(b))
	case "uint32":
		return c04BinInt(op, uint32(a), uint32(b))
	}
	return c04BinFloat(op, a, b)
}

func c04ShiftMixed(t, ct c04Type, op string, a, c float64) c04Want {
	switch t.name + "/" + ct.name {
	case "int8/int8":
		return c04Shift(op, int8(a), int8(c))
	case "int8/uint8":
		return c04Shift(op, int8(a), uint8(c))
	case "int8/int32":
		return c04Shift(op, int8(a), int32(c))
	case "int8/uint32":
		return c04Shift(op, int8(a), uint32(c))
	case "uint8/int8":
		return c04Shift(op, uint8(a), int8(c))
	case "uint8/uint8":
		return c04Shift(op, uint8(a), uint8(c))
	case "uint8/int32":
		return c04Shift(op, uint8(a), int32(c))
	case "uint8/uint32":
		return c04Shift(op, uint8(a), uint32(c))
	case "int32/int8":
		return c04Shift(op, int32(a), int8(c))
	case "int32/uint8":
		return c04Shift(op, int32(a), uint8(c))
	case "int32/int32":
		return c04Shift(op, int32(a), int32(c))
	case "int32/uint32":
		return c04Shift(op, int32(a), uint32(c))
	case "uint32/int8":
		return c04Shift(op, uint32(a), int8(c))
	case "uint32/uint8":
		return c04Shift(op, uint32(a), uint8(c))
	case "uint32/int32":
		return c04Shift(op, uint32(a), int32(c))
	case "uint32/uint32":
		return c04Shift(op, uint32(a), uint32(c))
	}
	panic("shift types")
}

func c04Unary(t c04Type, op string, a float64) c04Want {
	switch t.name {
	case "int8":
		if op == "neg" {
			return c04Want{num: float64(-int8(a))}
		}
		return c04Want{num: float64(^int8(a))}
	case "uint8":
		if op == "neg" {
			return c04Want{num: float64(-uint8(a))}
		}
		return c04Want{num: float64(^uint8(a))}
	case "int32":
		if op == "neg" {
			return c04Want{num: float64(-int32(a))}
		}
		return c04Want{num: float64(^int32(a))}
	case "uint32":
		if op == "neg" {
			return c04Want{num: float64(-uint32(a))}
		}
		return c04Want{num: float64(^uint32(a))}
	}
	return c04Want{num: -a}
}

// c04Conv is Go's conversion T(a) for a of type s; ok=false when Go leaves the
// result implementation-defined (float out of range, NaN).
func c04Conv(s, t c04Type, a float64) (float64, bool) {
	if s.float && !t.float {
		if a != a || math.IsInf(a, 0) {
			return 0, false
		}
		tr := math.Trunc(a)
		lo, hi := c04Range(t)
		if tr < lo || tr > hi {
			return 0, false
		}
		if tr == 0 {
			tr = 0 // an integer has no negative zero
		}
		return tr, true
	}
	if t.float {
		return a, true
	}
	// integer to integer: wrap
	i := int64(a)
	switch t.name {
	case "int8":
		return float64(int8(i)), true
	case "uint8":
		return float64(uint8(i)), true
	case "int32":
		return float64(int32(i)), true
	case "uint32":
		return float64(uint32(i)), true
	}
	panic("conv")
}

func c04Range(t c04Type) (float64, float64) {
	switch t.name {
	case "int8":
		return -128, 127
	case "uint8":
		return 0, 255
	case "int32":
		return -2147483648, 2147483647
	case "uint32":
		return 0, 4294967295
	}
	return -math.MaxFloat64, math.MaxFloat64
}

func c04Boundary(t c04Type) []float64 {
	if t.float {
		return []float64{0, math.Copysign(0, -1), 1, -1, 0.5, -0.5, 2, 3, 1e-310, -1e-310, math.SmallestNonzeroFloat64, math.MaxFloat64, -math.MaxFloat64,
			math.Inf(1), math.Inf(-1), math.NaN(), 9007199254740991, 9007199254740992, 9007199254740993, 1e20, 1e21, 1e-5, 123456789.125, 0.1, 0.2, 0.3, 2147483647, 2147483648, -2147483649, 4294967295, 4294967296, 255, 256, 127, 128, -128, -129, 1.9999999, -1.9999999}
	}
	lo, hi := c04Range(t)
	set := map[float64]bool{}
	add := func(x float64) {
		if x >= lo && x <= hi {
			set[x] = true
		}
	}
	for _, x := range []float64{0, 1, 2, 3, 5, 7, 8, 15, 16, 31, 32, 33, 63, 64, 100, 127, 128, 129, 200, 254, 255, 256, 257, 1000, 32767, 32768, 65535, 65536, 1 << 30, (1 << 30) - 1, (1 << 31) - 1, 1 << 31, (1 << 31) + 1, (1 << 32) - 1, (1 << 32) - 2, 40, 39} {
		add(x)
		add(-x)
		add(-x - 1)
		add(lo + x)
		add(hi - x)
	}
	var res []float64
	for x := range set {
		res = append(res, x)
	}
	// deterministic order
	for i := range res {
		for j := i + 1; j < len(res); j++ {
			if res[j] < res[i] {
				res[i], res[j] = res[j], res[i]
			}
		}
	}
	return res
}

// constants that fit the type, used as literal operands
func c04Consts(t c04Type) []float64 {
	if t.float {
		// the negative zero stands for the spelling -0.0, which is the constant 0 in Go (constants have
		// no signed zero): the templates write it out, the oracle loops use c04ConstVal
		return []float64{0, 1, 2, 3, 10, 100, 0.5, 1.5, 255, 1e10, 0.1, math.Copysign(0, -1), -1, -2.5}
	}
	lo, hi := c04Range(t)
	var res []float64
	for _, x := range []float64{0, 1, 2, 3, 7, 8, 31, 100, 127, 128, 200, 255, 256, 65535, 2147483647, 4294967295, -1, -2, -100, -128, -2147483648} {
		if x >= lo && x <= hi {
			res = append(res, x)
		}
	}
	return res
}

// c04IntLits: integer literals used as operands of float64 arithmetic.
var c04IntLits = []struct {
	s string
	v float64
}{{"0", 0}, {"1", 1}, {"2", 2}, {"(-1)", -1}, {"10", 10}}

// c04ConstVal is the value Go gives the constant that c04Lit spells.
func c04ConstVal(k float64) float64 { return k + 0 }

func c04Lit(t c04Type, k float64) string {
	if t.float {
		s := fmt.Sprint(k)
		if !strings.ContainsAny(s, ".e") {
			s += ".0"
		}
		return s
	}
	return fmt.Sprintf("%d", int64(k))
}

func c04RandVal(rng *core.Rng, t c04Type) float64 {
	if t.float {
		switch rng.Intn(4) {
		case 0:
			return math.Float64frombits(rng.Uint64())
		case 1:
			return float64(int32(rng.Uint64()))
		case 2:
			return float64(int64(rng.Uint64())>>11) / 1024
		default:
			return float64(rng.Intn(2000)-1000) / 8
		}
	}
	lo, hi := c04Range(t)
	span := hi - lo + 1
	switch rng.Intn(3) {
	case 0:
		return lo + float64(rng.Uint64()%uint64(span))
	case 1:
		v := float64(rng.Intn(64) - 32)
		if v < lo {
			v = lo
		}
		return v
	default:
		b := c04Boundary(t)
		return b[rng.Intn(len(b))]
	}
}

// storage classes
var c04Classes = []string{"l", "g", "f", "e", "m"}

func c04Source(t c04Type) string {
	T := t.name
	var sb strings.Builder
	w := func(f string, a ...any) { fmt.Fprintf(&sb, f+"\n", a...) }
	w("import \"golang.org/x/exp/maps\"")
	w("import \"golang.org/x/exp/slices\"")
	w("type S struct { A %s; B %s }", T, T)
	w("var ga %s", T)
	w("var gb %s", T)
	w("var gk %s", T)
	w("func mkS() *S { return &S{} }")
	w("type S2 struct { L []%s; M map[string]%s }", T, T)
	// the helpers return any, so that no conversion at a return hides a value that was stored untyped
	w("func va(xs ...%s) any { return xs[0] }", T)
	w("func va2(n int, xs ...%s) any { return xs[n] }", T)
	w("func (s *S) Put(a %s) any { return a }", T)
	w("func (s *S) PutV(xs ...%s) any { return xs[len(xs)-1] }", T)
	w("func two(a %s, b %s) (any, any) { return b, a }", T, T)
	w("func id(a %s) any { return a }", T)
	for _, op := range c04Ops {
		if t.float && (op.intOnly) {
			continue
		}
		R := T
		if op.cmp {
			R = "bool"
		}
		w("func l_%s(a %s, b %s) %s { return a %s b }", op.name, T, T, R, op.sym)
		w("func g_%s() %s { return ga %s gb }", op.name, R, op.sym)
		w("func f_%s(s *S) %s { return s.A %s s.B }", op.name, R, op.sym)
		w("func e_%s(s []%s) %s { return s[0] %s s[1] }", op.name, T, R, op.sym)
		w("func m_%s(m map[string]%s) %s { return m[\"a\"] %s m[\"b\"] }", op.name, T, R, op.sym)
		if !op.cmp && op.name != "andnot" { // &^= is not in goatlang's subset (clean parse error)
			w("func la_%s(a %s, b %s) %s { a %s= b; return a }", op.name, T, T, T, op.sym)
			w("func ga_%s() %s { ga %s= gb; return ga }", op.name, T, op.sym)
			w("func fa_%s(s *S) %s { s.A %s= s.B; return s.A }", op.name, T, op.sym)
			w("func ea_%s(s []%s) %s { s[0] %s= s[1]; return s[0] }", op.name, T, T, op.sym)
			w("func ma_%s(m map[string]%s) %s { m[\"a\"] %s= m[\"b\"]; return m[\"a\"] }", op.name, T, T, op.sym)
		}
		// constant operands
		for ki, k := range c04Consts(t) {
			lit := c04Lit(t, k)
			if (op.name == "div" || op.name == "mod") && k == 0 {
				// constant division by zero is a compile-time error in Go
			} else if op.shift && k < 0 {
				// negative constant shift count is a compile-time error in Go
			} else {
				w("func kr_%s_%d(a %s) %s { return a %s %s }", op.name, ki, T, R, op.sym, lit)
				if !op.cmp && op.name != "andnot" {
					w("func kra_%s_%d(a %s) %s { a %s= %s; return a }", op.name, ki, T, T, op.sym, lit)
				}
			}
			w("func kl_%s_%d(a %s) %s { return %s %s a }", op.name, ki, T, R, lit, op.sym)
		}
		// mixed-type shift counts
		if op.shift {
			for _, ct := range c04Types {
				if ct.float || ct.name == t.name {
					continue
				}
				w("func sh_%s_%s(a %s, c %s) %s { return a %s c }", op.name, ct.name, T, ct.name, T, op.sym)
				w("func sha_%s_%s(a %s, c %s) %s { a %s= c; return a }", op.name, ct.name, T, ct.name, T, op.sym)
			}
		}
	}
	// a run-time shift of an untyped constant next to a typed operand: the constant takes the operand's type
	if !t.float {
		for _, op := range c04Ops {
			if op.shift {
				continue
			}
			R := T
			if op.cmp {
				R = "bool"
			}
			for _, k := range []int{1, 5} {
				w("func us_%s_%d(a %s, c int) %s { return a %s (%d << c) }", op.name, k, T, R, op.sym, k)
				w("func usl_%s_%d(a %s, c int) %s { return (%d << c) %s a }", op.name, k, T, R, k, op.sym)
			}
		}
	}
	// integer literals next to a float64 operand (the literal takes the operand's type)
	if t.float {
		for i, il := range c04IntLits {
			w("func fi_add_%d(a float64) float64 { return a + %s }", i, il.s)
			w("func fi_sub_%d(a float64) float64 { return a - %s }", i, il.s)
			w("func fi_rsub_%d(a float64) float64 { return %s - a }", i, il.s)
			w("func fi_mul_%d(a float64) float64 { return a * %s }", i, il.s)
			w("func fi_suba_%d(a float64) float64 { a -= %s; return a }", i, il.s)
			w("func fi_adda_%d(a float64) float64 { a += %s; return a }", i, il.s)
			if il.v != 0 {
				w("func fi_div_%d(a float64) float64 { return a / %s }", i, il.s)
			}
		}
	}
	// named (untyped) constants as operands, and typed constants
	for ki, k := range c04Consts(t) {
		w("const nc_%d = %s", ki, c04Lit(t, k))
		w("const tc_%d %s = %s", ki, T, c04Lit(t, k))
		w("func nk_add_%d(a %s) %s { return a + nc_%d }", ki, T, T, ki)
		w("func nk_mul_%d(a %s) %s { return nc_%d * a }", ki, T, T, ki)
		w("func nk_suba_%d(a %s) %s { a -= nc_%d; return a }", ki, T, T, ki)
		w("func nk_lt_%d(a %s) bool { return a < nc_%d }", ki, T, ki)
		w("func nk_decl_%d() %s { var x %s = nc_%d; return x }", ki, T, T, ki)
		w("func nk_typed_%d() %s { x := tc_%d; return x }", ki, T, ki)
		w("func nk_local_%d(a %s) %s { const lc = %s; return a + lc }", ki, T, T, c04Lit(t, k))
	}
	for _, d := range []struct{ n, s string }{{"inc", "++"}, {"dec", "--"}} {
		w("func l_%s(a %s) %s { a%s; return a }", d.n, T, T, d.s)
		w("func g_%s() %s { ga%s; return ga }", d.n, T, d.s)
		w("func f_%s(s *S) %s { s.A%s; return s.A }", d.n, T, d.s)
		w("func e_%s(s []%s) %s { s[0]%s; return s[0] }", d.n, T, T, d.s)
		w("func m_%s(m map[string]%s) %s { m[\"a\"]%s; return m[\"a\"] }", d.n, T, T, d.s)
	}
	// chains of constant operands (an optimizer may fold them only where the arithmetic is associative)
	w("func kc_add2(a %s) %s { return a + 1 + 1 }", T, T)
	w("func kc_addsub(a %s) %s { return a + 1 - 1 }", T, T)
	w("func kc_sub2(a %s) %s { return a - 1 - 1 }", T, T)
	w("func kc_asg(a %s) %s { a = a + 1 + 2; a = a - 2 - 1; return a + 1 + 1 }", T, T)
	// variables declared from untyped constants take the default type, whatever an earlier frame left in their slot
	w("func u_int() any { n := 7; return n / 2 }")
	w("func u_wrap() any { i := 250; i += 10; return i }")
	w("func u_float() any { f := 7.0; return f / 2 }")
	w("func u_rune() any { r := 'a'; return r + 1 }")
	w("func u_var() any { var n = 9; return n / 2 }")
	// ... also right after a sibling call whose frame held values of other types in the same cells
	w("func stale(v %s, f float64) float64 { x := %s(5); y := 2.5; z := v + x; q := \"s\"; _, _ = z, q; return f * y }", T, T)
	for _, u := range []string{"int", "wrap", "float", "rune", "var"} {
		w("func sib_%s() any { stale(3, 1.5); a := u_%s(); stale(4, 2.5); b := u_%s(); if a != b { return nil }; return a }", u, u, u)
	}
	w("func l_neg(a %s) %s { return -a }", T, T)
	w("func f_neg(s *S) %s { return -s.A }", T)
	if !t.float {
		w("func l_com(a %s) %s { return ^a }", T, T)
		w("func f_com(s *S) %s { return ^s.A }", T)
	}
	// conversions from T
	for _, dt := range c04Types {
		w("func cv_%s(a %s) %s { return %s(a) }", dt.name, T, dt.name, dt.name)
		w("func cvl_%s(a %s) %s { x := %s(a); return x }", dt.name, T, dt.name, dt.name)
	}
	// typed declarations with constant initialisers
	for ki, k := range c04Consts(t) {
		lit := c04Lit(t, k)
		w("func d_var_%d() any { var x %s = %s; return x }", ki, T, lit)
		w("func d_conv_%d() any { x := %s(%s); return x }", ki, T, lit)
		w("func d_param_%d() any { return id(%s) }", ki, lit)
		w("func d_ret_%d() any { f := func() %s { return %s }; return f() }", ki, T, lit)
		w("func d_field_%d() any { s := &S{A: %s}; return s.A }", ki, lit)
		w("func d_fieldset_%d() any { s := &S{}; s.A = %s; return s.A }", ki, lit)
		w("func d_elem_%d() any { s := []%s{%s}; return s[0] }", ki, T, lit)
		w("func d_elemset_%d() any { s := make([]%s, 1); s[0] = %s; return s[0] }", ki, T, lit)
		w("func d_map_%d() any { m := map[string]%s{\"k\": %s}; return m[\"k\"] }", ki, T, lit)
		w("func d_mapset_%d() any { m := map[string]%s{}; m[\"k\"] = %s; return m[\"k\"] }", ki, T, lit)
		w("func d_append_%d() any { var s []%s; s = append(s, %s); return s[0] }", ki, T, lit)
		w("func d_assign_%d() any { var x %s; x = %s; return x }", ki, T, lit)
		w("func d_global_%d() any { gk = %s; return gk }", ki, lit)
		w("func d_multi_%d() any { var x, y %s = %s, %s; return x + y - y }", ki, T, lit, lit)
		w("func d_resliceset_%d() any { s := make([]%s, 3); v := s[1:3]; v[0] = %s; return v[0] }", ki, T, lit)
		w("func d_resliceapp_%d() any { s := make([]%s, 3); v := s[:0]; v = append(v, %s); return v[0] }", ki, T, lit)
		w("func d_reslice2_%d() any { s := []%s{1, 1, 1, 1}; v := s[1:][:2]; v[1] = %s; return s[2] }", ki, T, lit)
		w("func d_variadic_%d() any { return va(%s) }", ki, lit)
		w("func d_variadic2_%d() any { return va2(1, 1, %s, 1) }", ki, lit)
		w("func d_mparam_%d() any { s := &S{}; return s.Put(%s) }", ki, lit)
		w("func d_mvariadic_%d() any { s := &S{}; return s.PutV(1, %s) }", ki, lit)
		w("func d_ret2_%d() any { f := func() (%s, int) { return %s, 1 }; x, _ := f(); return x }", ki, T, lit)
		w("func d_ret2b_%d() any { f := func() (int, %s) { return 1, %s }; _, x := f(); return x }", ki, T, lit)
		w("func d_two_%d() any { x, _ := two(1, %s); return x }", ki, lit)
		w("func d_funclit_%d() any { f := func(a %s) any { return a }; return f(%s) }", ki, T, lit)
		w("func d_nested_%d() any { s := [][]%s{{%s}}; return s[0][0] }", ki, T, lit)
		w("func d_mapslice_%d() any { m := map[string][]%s{\"k\": {%s}}; return m[\"k\"][0] }", ki, T, lit)
		w("func d_fieldslice_%d() any { s := &S2{L: []%s{%s}}; return s.L[0] }", ki, T, lit)
		w("func d_fieldmap_%d() any { s := &S2{M: map[string]%s{}}; s.M[\"k\"] = %s; return s.M[\"k\"] }", ki, T, lit)
		w("func d_appendmany_%d() any { s := []%s{1}; s = append(s, 1, %s); return s[2] }", ki, T, lit)
		w("func d_swap_%d() any { var x, y %s; x, y = %s, 1; x, y = y, x; return y }", ki, T, lit)
		w("func d_ifinit_%d() any { if x := id(%s); true { return x }; return 0 }", ki, lit)
		w("func d_switch_%d() any { var x %s; switch { default: x = %s }; return x }", ki, T, lit)
		w("func d_range_%d() any { var r %s; for _, x := range []%s{%s} { r = x }; return r }", ki, T, T, lit)
		// containers that a library function built: their element and key types are the argument's
		w("func d_mapkeys_%d() any { m := map[%s]int{%s: 1}; ks := maps.Keys(m); ks = append(ks, %s); return ks[1] }", ki, T, lit, lit)
		w("func d_mapkeysset_%d() any { m := map[%s]string{1: \"a\"}; ks := maps.Keys(m); ks[0] = %s; return ks[0] }", ki, T, lit)
		w("func d_mapclone_%d() any { m := maps.Clone(map[string]%s{\"a\": 1}); m[\"k\"] = %s; return m[\"k\"] }", ki, T, lit)
		w("func d_mapclone2_%d() any { m := maps.Clone(map[%s]%s{1: 1}); m[1] = %s; return m[1] }", ki, T, T, lit)
		w("func d_slicesdelete_%d() any { s := slices.Delete([]%s{1, 1, 1}, 0, 1); s[0] = 1; s = append(s, %s); return s[2] }", ki, T, lit)
		w("func d_sorted_%d() any { s := []%s{1, 1}; slices.Sort(s); s[0] = %s; return s[0] }", ki, T, lit)
		w("func d_nilinit_%d() any { var s []%s = nil; s = append(s, %s); return s[0] }", ki, T, lit)
		w("func d_nilinit2_%d() any { var a, b []%s = nil, nil; b = append(b, 1); a = append(a, %s); return a[0] }", ki, T, lit)
		// an absent key reads as the zero value of the element type, whatever the key type is
		for _, kt := range c04Types {
			if kt.name == t.name {
				continue
			}
			w("func d_miss_%s_%d() any { m := map[%s]%s{}; m[3] += %s; return m[3] }", kt.name, ki, kt.name, T, lit)
			w("func d_missok_%s_%d() any { m := map[%s]%s{1: 1}; v, ok := m[5]; if ok { return 0 }; v += %s; return v }", kt.name, ki, kt.name, T, lit)
			w("func d_missinc_%s_%d() any { m := map[%s]%s{}; m[2]++; m[2]--; return m[2] + %s }", kt.name, ki, kt.name, T, lit)
		}
	}
	return sb.String()
}

type c04Key struct {
	t, kind string
	a, b    uint64
}

type c04Case struct {
	Type string    `json:"type"`
	Func string    `json:"func"`
	Args []float64 `json:"args"`
	Src  string    `json:"source_of_func,omitempty"`
}

type c04Worker struct {
	t    c04Type
	m    *core.Machine
	r    *core.Run
	s    goatlang.Value
	src  string
	bad  int
	nerr int
	// fresh is true while the operand vector being exercised has not been
	// exercised before in this run; ndistinct counts calls made under it
	// for which Go defines a value.
	fresh     bool
	ndistinct int
}

func newC04Worker(r *core.Run, t c04Type) *c04Worker {
	w := &c04Worker{t: t, r: r, m: core.NewMachine(core.VMOpts{Optimize: true}), src: c04Source(t)}
	o := w.m.Eval(nil, w.src)
	if o.Failed() {
		r.Violate(core.Violation{Check: "c04-compile", What: "the operator templates for " + t.name + " do not compile/run", Case: c04Case{Type: t.name}, Observed: o})
		return nil
	}
	rets, err := w.m.VM.Call("main.mkS", 1)
	if err != nil || len(rets) != 1 {
		r.Violate(core.Violation{Check: "c04-compile", What: "cannot build struct instance", Case: c04Case{Type: t.name}, Observed: fmt.Sprint(err)})
		return nil
	}
	w.s = rets[0]
	return w
}

func (w *c04Worker) funcSrc(name string) string {
	for _, l := range strings.Split(w.src, "\n") {
		if strings.HasPrefix(l, "func "+name+"(") {
			return l
		}
	}
	return ""
}

// call invokes main.<fn> and compares with want (result type rt).
func (w *c04Worker) call(fn string, rt c04Type, want c04Want, exact []float64, args ...goatlang.Value) {
	var rets []goatlang.Value
	var err error
	p := core.Guard(func() { rets, err = w.m.VM.Call("main."+fn, 1, args...) })
	w.r.Eval(1)
	fail := func(what string, obs any) {
		w.bad++
		if w.bad <= 3 {
			w.r.Violate(core.Violation{Check: "c04", What: what, Case: c04Case{Type: w.t.name, Func: fn, Args: exact, Src: w.funcSrc(fn)},
				Expected: map[string]any{"value": fmtWant(want), "type": c04WantType(rt, want)}, Observed: obs})
		}
	}
	if p != "" {
		fail("a Go panic escaped VM.Call", p)
		return
	}
	if want.fail {
		if err == nil {
			fail("Go panics (division by zero / negative shift count) but goatlang returned a value", fmt.Sprint(rets))
		}
		w.nerr++
		return
	}
	if w.fresh {
		w.ndistinct++
	}
	if err != nil {
		fail("goatlang fails where Go computes a value", err.Error())
		return
	}
	if len(rets) != 1 {
		fail("wrong number of results", len(rets))
		return
	}
	got := rets[0]
	if want.isB {
		if got.Type() != goatlang.TypeBool || got.Bool() != want.b {
			fail("comparison result differs from Go", map[string]any{"value": got.String(), "type": w.m.VM.VerifTypeOf(got)})
		}
		return
	}
	g := got.Float64()
	same := g == want.num && math.Signbit(g) == math.Signbit(want.num) || (g != g && want.num != want.num)
	if !same || got.Type() != rt.tag {
		fail("result differs from Go (value or dynamic type)", map[string]any{"value": fmtFloat(g), "type": w.m.VM.VerifTypeOf(got)})
	}
}

func fmtFloat(f float64) string {
	if f == 0 && math.Signbit(f) {
		return "-0"
	}
	return fmt.Sprint(f)
}

func fmtWant(w c04Want) string {
	switch {
	case w.fail:
		return "panic"
	case w.isB:
		return fmt.Sprint(w.b)
	}
	return fmtFloat(w.num)
}

func c04WantType(rt c04Type, w c04Want) string {
	if w.isB {
		return "bool"
	}
	return rt.goName
}

// binAll exercises one (op, a, b) in the given storage classes.
func (w *c04Worker) binAll(op c04Op, a, b float64, classes []string) {
	t := w.t
	want := c04Bin(t, op.name, a, b)
	va, vb := t.mk(a), t.mk(b)
	ex := []float64{a, b}
	for _, c := range classes {
		for _, assign := range []bool{false, true} {
			if assign && (op.cmp || op.name == "andnot") {
				continue
			}
			name := c
			if assign {
				name += "a"
			}
			name += "_" + op.name
			switch c {
			case "l":
				w.call(name, t, want, ex, va, vb)
			case "g":
				w.m.VM.Set("main.ga", va)
				w.m.VM.Set("main.gb", vb)
				w.call(name, t, want, ex)
			case "f":
				w.s.SetAttr("A", va)
				w.s.SetAttr("B", vb)
				w.call(name, t, want, ex, w.s)
			case "e":
				w.call(name, t, want, ex, goatlang.NewSlice(t.tag, []goatlang.Value{va, vb}))
			case "m":
				w.call(name, t, want, ex, goatlang.NewMap(goatlang.TypeString, t.tag, []goatlang.Value{goatlang.String("a"), va, goatlang.String("b"), vb}))
			}
		}
	}
}

func (w *c04Worker) unaryAll(a float64) {
	t := w.t
	va := t.mk(a)
	ex := []float64{a}
	one := 1.0
	for _, d := range []struct {
		n  string
		op string
	}{{"inc", "add"}, {"dec", "sub"}} {
		want := c04Bin(t, d.op, a, one)
		w.call("l_"+d.n, t, want, ex, va)
		w.m.VM.Set("main.ga", va)
		w.call("g_"+d.n, t, want, ex)
		w.s.SetAttr("A", va)
		w.call("f_"+d.n, t, want, ex, w.s)
		w.call("e_"+d.n, t, want, ex, goatlang.NewSlice(t.tag, []goatlang.Value{va}))
		w.call("m_"+d.n, t, want, ex, goatlang.NewMap(goatlang.TypeString, t.tag, []goatlang.Value{goatlang.String("a"), va}))
	}
	{
		step := func(op string, x c04Want, k float64) c04Want {
			if x.fail {
				return x
			}
			return c04Bin(t, op, x.num, k)
		}
		st := c04Want{num: a}
		w.call("kc_add2", t, step("add", step("add", st, 1), 1), ex, va)
		w.call("kc_addsub", t, step("sub", step("add", st, 1), 1), ex, va)
		w.call("kc_sub2", t, step("sub", step("sub", st, 1), 1), ex, va)
		x := step("add", step("add", st, 1), 2)
		x = step("sub", step("sub", x, 2), 1)
		w.call("kc_asg", t, step("add", step("add", x, 1), 1), ex, va)
	}
	w.call("l_neg", t, c04Unary(t, "neg", a), ex, va)
	w.s.SetAttr("A", va)
	w.call("f_neg", t, c04Unary(t, "neg", a), ex, w.s)
	if !t.float {
		w.call("l_com", t, c04Unary(t, "com", a), ex, va)
		w.call("f_com", t, c04Unary(t, "com", a), ex, w.s)
	}
	for _, dt := range c04Types {
		if x, ok := c04Conv(t, dt, a); ok {
			w.call("cv_"+dt.name, dt, c04Want{num: x}, ex, va)
			w.call("cvl_"+dt.name, dt, c04Want{num: x}, ex, va)
		}
	}
	if t.float {
		for i, il := range c04IntLits {
			w.call(fmt.Sprintf("fi_add_%d", i), t, c04Bin(t, "add", a, il.v), []float64{a, il.v}, va)
			w.call(fmt.Sprintf("fi_sub_%d", i), t, c04Bin(t, "sub", a, il.v), []float64{a, il.v}, va)
			w.call(fmt.Sprintf("fi_rsub_%d", i), t, c04Bin(t, "sub", il.v, a), []float64{il.v, a}, va)
			w.call(fmt.Sprintf("fi_mul_%d", i), t, c04Bin(t, "mul", a, il.v), []float64{a, il.v}, va)
			w.call(fmt.Sprintf("fi_suba_%d", i), t, c04Bin(t, "sub", a, il.v), []float64{a, il.v}, va)
			w.call(fmt.Sprintf("fi_adda_%d", i), t, c04Bin(t, "add", a, il.v), []float64{a, il.v}, va)
			if il.v != 0 {
				w.call(fmt.Sprintf("fi_div_%d", i), t, c04Bin(t, "div", a, il.v), []float64{a, il.v}, va)
			}
		}
	}
	for ki, k := range c04Consts(t) {
		k = c04ConstVal(k)
		w.call(fmt.Sprintf("nk_add_%d", ki), t, c04Bin(t, "add", a, k), []float64{a, k}, va)
		w.call(fmt.Sprintf("nk_mul_%d", ki), t, c04Bin(t, "mul", k, a), []float64{k, a}, va)
		w.call(fmt.Sprintf("nk_suba_%d", ki), t, c04Bin(t, "sub", a, k), []float64{a, k}, va)
		w.call(fmt.Sprintf("nk_lt_%d", ki), t, c04Bin(t, "lt", a, k), []float64{a, k}, va)
		w.call(fmt.Sprintf("nk_local_%d", ki), t, c04Bin(t, "add", a, k), []float64{a, k}, va)
	}
	// constant operands
	for _, op := range c04Ops {
		if t.float && op.intOnly {
			continue
		}
		for ki, k := range c04Consts(t) {
			k = c04ConstVal(k)
			if !((op.name == "div" || op.name == "mod") && k == 0) && !(op.shift && k < 0) {
				want := c04Bin(t, op.name, a, k)
				w.call(fmt.Sprintf("kr_%s_%d", op.name, ki), t, want, []float64{a, k}, va)
				if !op.cmp && op.name != "andnot" {
					w.call(fmt.Sprintf("kra_%s_%d", op.name, ki), t, want, []float64{a, k}, va)
				}
			}
			w.call(fmt.Sprintf("kl_%s_%d", op.name, ki), t, c04Bin(t, op.name, k, a), []float64{k, a}, va)
		}
	}
}

// untypedShift: a OP k<<c and k<<c OP a with a typed a; Go gives k the type of a before shifting.
func (w *c04Worker) untypedShift(a, c float64) {
	i32 := c04TypeByName("int32")
	for _, k := range []float64{1, 5} {
		sh := c04ShiftMixed(w.t, i32, "shl", k, c)
		for _, op := range c04Ops {
			if op.shift {
				continue
			}
			if op.name == "andnot" && k*math.Pow(2, c) >= 1<<53 {
				continue // recorded finding K06 (the complement of an untyped value beyond 2^53), pinned in c04KnownFindings
			}
			rt := w.t
			wr, wl := sh, sh
			if !sh.fail {
				wr, wl = c04Bin(w.t, op.name, a, sh.num), c04Bin(w.t, op.name, sh.num, a)
			}
			w.call(fmt.Sprintf("us_%s_%d", op.name, int(k)), rt, wr, []float64{a, c}, w.t.mk(a), i32.mk(c))
			w.call(fmt.Sprintf("usl_%s_%d", op.name, int(k)), rt, wl, []float64{a, c}, w.t.mk(a), i32.mk(c))
		}
	}
}

func (w *c04Worker) shiftMixed(a float64, ct c04Type, c float64) {
	if ct.name == "int32" {
		w.untypedShift(a, c)
	}
	for _, op := range []string{"shl", "shr"} {
		want := c04ShiftMixed(w.t, ct, op, a, c)
		w.call("sh_"+op+"_"+ct.name, w.t, want, []float64{a, c}, w.t.mk(a), ct.mk(c))
		w.call("sha_"+op+"_"+ct.name, w.t, want, []float64{a, c}, w.t.mk(a), ct.mk(c))
	}
}

func (w *c04Worker) decls() {
	t := w.t
	for ki, k := range c04Consts(t) {
		k = c04ConstVal(k)
		for _, n := range []string{"var", "conv", "param", "ret", "field", "fieldset", "elem", "elemset", "map", "mapset", "append", "assign", "global", "multi",
			"resliceset", "resliceapp", "reslice2", "variadic", "variadic2", "mparam", "mvariadic", "ret2", "ret2b", "two", "funclit", "nested", "mapslice", "fieldslice", "fieldmap", "appendmany", "swap", "ifinit", "switch", "range", "mapkeys", "mapkeysset", "mapclone", "mapclone2", "slicesdelete", "sorted", "nilinit", "nilinit2",
			"miss_int8", "miss_uint8", "miss_int32", "miss_uint32", "miss_float64", "missok_int8", "missok_uint8", "missok_int32", "missok_uint32", "missok_float64",
			"missinc_int8", "missinc_uint8", "missinc_int32", "missinc_uint32", "missinc_float64"} {
			if strings.HasPrefix(n, "miss") && strings.HasSuffix(n, "_"+t.name) {
				continue // the key type differs from the element type in these
			}
			w.call(fmt.Sprintf("d_%s_%d", n, ki), t, c04Want{num: k}, []float64{k})
		}
		// (after calls that left values of type T in the frame's slots)
		i32, f64 := c04TypeByName("int32"), c04TypeByName("float64")
		w.call("u_int", i32, c04Want{num: 3}, nil)
		w.call("u_wrap", i32, c04Want{num: 260}, nil)
		w.call("u_float", f64, c04Want{num: 3.5}, nil)
		w.call("u_rune", i32, c04Want{num: 98}, nil)
		w.call("u_var", i32, c04Want{num: 4}, nil)
		w.call("sib_int", i32, c04Want{num: 3}, nil)
		w.call("sib_wrap", i32, c04Want{num: 260}, nil)
		w.call("sib_float", f64, c04Want{num: 3.5}, nil)
		w.call("sib_rune", i32, c04Want{num: 98}, nil)
		w.call("sib_var", i32, c04Want{num: 4}, nil)
		w.call(fmt.Sprintf("nk_decl_%d", ki), t, c04Want{num: k}, []float64{k})
		w.call(fmt.Sprintf("nk_typed_%d", ki), t, c04Want{num: k}, []float64{k})
	}
}

func runC04(r *core.Run) {
	r.SetRule("script functions a OP b / a OP= b / a++ / -a / ^a / T(a) / a OP k<<c with an untyped constant k / typed declarations and every other place where a constant takes a declared type (parameters incl. variadic and method parameters, single and multiple results, function literals, fields, elements of nested composites, append, tuple assignment), per numeric type, with operands held in locals, globals, struct fields, slice elements and map elements, called through VM.Call and compared (value bit-for-bit incl. -0 and NaN, and dynamic type) with the same operation compiled natively into the harness. 8-bit types: every operand pair. non-trivial = the call returned and Go defines a value (not a panic); distinct by (type, function, operands)")
	r.Assume("the Go compiler that built the harness implements Go's arithmetic; float->integer conversions out of range and NaN are left out (implementation-defined in Go)")
	thorough := r.Thorough()
	type task struct {
		t     c04Type
		kind  string
		a0    int // for 8-bit exhaustive: the row
		class []string
	}
	var tasks []task
	for _, t := range c04Types {
		if t.bits == 8 {
			classes := []string{"l", "g"}
			if thorough {
				classes = c04Classes
			}
			for row := 0; row < 256; row++ {
				tasks = append(tasks, task{t: t, kind: "exh8", a0: row, class: classes})
			}
			tasks = append(tasks, task{t: t, kind: "unary8"})
		} else {
			for chunk := 0; chunk < 16; chunk++ {
				tasks = append(tasks, task{t: t, kind: "pairs", a0: chunk})
			}
		}
		tasks = append(tasks, task{t: t, kind: "decl"})
	}
	nPairs := r.N(1500, 120000) // random pairs per op per wide type (split over 16 chunks)
	distinct := make([]int, len(tasks))
	ndist := make([]int, len(tasks))
	matrix := make([]map[string]int, len(tasks))
	var seenMu sync.Mutex
	seen := map[c04Key]struct{}{}
	core.Parallel(len(tasks), func(ti int) {
		tk := tasks[ti]
		w := newC04Worker(r, tk.t)
		if w == nil {
			return
		}
		t := tk.t
		cnt := map[string]int{}
		matrix[ti] = cnt
		w.fresh = true
		isNew := func(kind string, a, b float64) bool {
			k := c04Key{t.name, kind, math.Float64bits(a), math.Float64bits(b)}
			seenMu.Lock()
			_, dup := seen[k]
			seen[k] = struct{}{}
			seenMu.Unlock()
			return !dup
		}
		switch tk.kind {
		case "exh8":
			lo, _ := c04Range(t)
			a := lo + float64(tk.a0)
			for i := 0; i < 256; i++ {
				b := lo + float64(i)
				for _, op := range c04Ops {
					w.binAll(op, a, b, tk.class)
					cnt[t.name+" "+op.sym+" var,var"] += len(tk.class)
				}
				if !thorough && i%16 == int(tk.a0)%16 {
					// the remaining storage classes on a diagonal sample
					for _, op := range c04Ops {
						w.binAll(op, a, b, []string{"f", "e", "m"})
					}
				}
				for _, ct := range c04Types {
					if !ct.float && ct.name != t.name && (thorough || i%8 == 0) {
						clo, chi := c04Range(ct)
						c := b
						if c < clo {
							c = clo
						}
						if c > chi {
							c = chi
						}
						w.shiftMixed(a, ct, c)
						cnt[t.name+" shift by "+ct.name]++
					}
				}
			}
		case "unary8":
			lo, _ := c04Range(t)
			for i := 0; i < 256; i++ {
				w.unaryAll(lo + float64(i))
				cnt[t.name+" unary/incdec/conversions/const-operands"]++
			}
		case "pairs":
			rng := core.Derive(r.Seed, "c04-"+t.name, tk.a0)
			bnd := c04Boundary(t)
			// boundary x boundary, striped over the chunks
			n := 0
			for ai, a := range bnd {
				for bi, b := range bnd {
					if (ai*len(bnd)+bi)%16 != tk.a0 {
						continue
					}
					w.fresh = isNew("pair", a, b)
					for _, op := range c04Ops {
						if t.float && op.intOnly {
							continue
						}
						w.binAll(op, a, b, c04Classes)
						cnt[t.name+" "+op.sym+" var,var"] += len(c04Classes)
					}
					n++
				}
				if ai%16 == tk.a0 {
					w.fresh = isNew("unary", a, 0)
					w.unaryAll(a)
					cnt[t.name+" unary/incdec/conversions/const-operands"]++
				}
			}
			for i := 0; i < nPairs/16; i++ {
				a, b := c04RandVal(rng, t), c04RandVal(rng, t)
				w.fresh = isNew("pair", a, b)
				for _, op := range c04Ops {
					if t.float && op.intOnly {
						continue
					}
					cl := []string{c04Classes[rng.Intn(len(c04Classes))]}
					if thorough {
						cl = c04Classes
					}
					w.binAll(op, a, b, cl)
					cnt[t.name+" "+op.sym+" var,var"] += len(cl)
				}
				if i%8 == 0 {
					w.fresh = isNew("unary", a, 0)
					w.unaryAll(a)
					cnt[t.name+" unary/incdec/conversions/const-operands"]++
				}
				w.fresh = false // mixed shifts below use a clamped count: not tracked
				if !t.float {
					for _, ct := range c04Types {
						if !ct.float && ct.name != t.name {
							c := float64(rng.Intn(70) - 4)
							clo, chi := c04Range(ct)
							if c < clo {
								c = clo
							}
							if c > chi {
								c = chi
							}
							w.shiftMixed(a, ct, c)
							cnt[t.name+" shift by "+ct.name]++
						}
					}
				}
			}
		case "decl":
			w.decls()
			cnt[t.name+" typed declarations with constant initialiser"] += len(c04Consts(t)) * 40
		}
		distinct[ti] = w.nerr
		ndist[ti] = w.ndistinct
	})
	// distinct non-trivial: every (type, func, operands) triple is generated once by construction for the
	// exhaustive parts; count evaluations minus expected-panic cases conservatively via a hash of the task list
	total := map[string]int{}
	errs := 0
	for i, m := range matrix {
		for k, v := range m {
			total[k] += v
		}
		errs += distinct[i]
	}
	r.SetObserved("operation_matrix", total)
	r.Count("cases_where_go_panics", errs)
	nd := 0
	for _, n := range ndist {
		nd += n
	}
	r.DistinctN(nd)
	r.SetObserved("distinct_note", "distinct_nontrivial counts calls (function x operand vector) for which Go defines a value and whose operand vector had not been exercised before in this run: the 8-bit grids and the declaration tables enumerate each vector once by construction; boundary and random vectors of the wide types are de-duplicated through a set")
	r.SetExhaustive(true)
	r.SetObserved("exhaustive_scope", "int8 and uint8: all 256x256 operand pairs for all 17 binary operators (locals and globals in quick; all five storage classes in thorough), all 256 values for unary, ++/--, conversions and constant operands; int32/uint32/float64: boundary x boundary plus random pairs (sampled)")
	r.Sample(map[string]any{"type": "uint8", "func": "func la_add(a uint8, b uint8) uint8 { a += b; return a }", "args": []int{200, 100}, "want": 44})
	r.Sample(map[string]any{"type": "int8", "func": "func sh_shr_uint32(a int8, c uint32) int8 { return a >> c }", "args": []int{-128, 1}, "want": -64})
	r.Sample(map[string]any{"type": "uint32", "func": "func d_var_3() uint32 { var x uint32 = 4294967295; return x }", "want": "4294967295 (uint32)"})

	// pinned witnesses of repaired / recorded findings
	c04Sentinels(r)
	c04NegZero(r)
	c04KnownFindings(r)
}

// c04NegZero: Go constants have no signed zero, so every spelling of "minus zero" is the constant 0
// and 1 divided by a variable holding it is +Inf.
func c04NegZero(r *core.Run) {
	for _, sp := range []string{"-0.0", "-0.", "-0e0", "-(0.0)", "-0.0e-5", "- 0.0", "-.0", "+0.0", "-0x0p0"} {
		for ci, ctx := range []string{
			"z := %s; x := 1 / z; x",
			"var z float64 = %s; x := 1 / z; x",
			"func f() float64 { return %s }; x := 1 / f(); x",
			"func g(z float64) float64 { return 1 / z }; x := g(%s); x",
			"s := []float64{%s}; x := 1 / s[0]; x",
			"const c = %s; z := 1.0; z = c; x := 1 / z; x",
			"func h(a float64) float64 { return a + %s }; x := 1 / h(0.0); x",
		} {
			src := fmt.Sprintf(ctx, sp)
			m := core.NewMachine(core.VMOpts{Optimize: ci%2 == 0})
			o := m.Eval(nil, src)
			r.Eval(1)
			if o.Err != "" && strings.Contains(o.Err, "error in parse") {
				r.Count("negative_zero_spellings_not_parsed", 1)
				continue
			}
			r.Count("negative_zero_spellings", 1)
			if o.Failed() || len(o.Rets) != 1 || o.Rets[0] != "+Inf" {
				r.Violate(core.Violation{Check: "c04-sentinel", What: "a float constant spelled with a minus sign in front of zero is not the constant 0", Case: src, Expected: "+Inf (float64)", Observed: o})
			}
		}
	}
}

func c04Sentinels(r *core.Run) {
	type sent struct {
		id, src, want, wantType string
	}
	for _, s := range []sent{
		{"F02", "var b byte = 255; b++; b", "0", "uint8"},
		{"F02", "var u uint32 = 0; u--; u", "4294967295", "uint32"},
		{"F02", "func f(y int8) int8 { y += 100; return y }; r := f(100); r", "-56", "int8"},
		{"F03", "var x uint32 = 1; x", "1", "uint32"},
		{"F03", "var i int8 = -128; i", "-128", "int8"},
		{"F22", "var u uint32 = 4000000000; var n int = 1; c := u >> n; c", "2000000000", "uint32"},
		{"F22", "var b byte = 200; var n int = 1; c := b << n; c", "144", "uint8"},
		{"F24", "func f(a int32) int32 { return 2147483647 << a }; r := f(8); r", "-256", "int32"},
		{"F25", "var i int8 = -128; r := i &^ 0; r", "-128", "int8"},
		{"F26", "const k = 200; var b byte = k; b += 100; b", "44", "uint8"},
		{"F26", "const ( a = iota; b; c ); var x byte = 255; x += c; x", "1", "uint8"},
		{"F56", "x := 5; r := x - 010; r", "-3", "int32"},
		{"F56", "var q int = -010; q", "-8", "int32"},
		{"F56", "var h int8 = -0x10; h", "-16", "int8"},
		{"F56", "func f(a int) int { return a * -07 + -0x0 }; r := f(5); r", "-35", "int32"},
	} {
		m := core.NewMachine(core.VMOpts{Optimize: true})
		o := m.Eval(nil, s.src)
		r.Eval(1)
		if o.Failed() || len(o.Rets) != 1 || o.Rets[0] != s.want || o.Types[0] != s.wantType {
			r.Violate(core.Violation{Check: "c04-sentinel", What: "pinned witness of repaired finding " + s.id + " fails again", Case: s.src, Expected: s.want + " (" + s.wantType + ")", Observed: o})
		}
	}
}

// c04KnownFindings: pinned witnesses of recorded (open) findings.
func c04KnownFindings(r *core.Run) {
	{
		m := core.NewMachine(core.VMOpts{Optimize: true})
		o := m.Eval(nil, "var a int8 = -127; c := 56; x := a &^ (1 << c); x")
		r.Eval(1)
		if !(len(o.Rets) == 1 && o.Rets[0] == "-127") {
			if r.Findings().Open("K06") {
				r.KnownFinding("K06")
			} else {
				r.Violate(core.Violation{Check: "c04-sentinel", What: "a &^ (1 << c) with c >= 53 does not leave a unchanged", Case: "var a int8 = -127; c := 56; x := a &^ (1 << c); x", Expected: "-127 (int8)", Observed: o})
			}
		}
	}
	{
		m := core.NewMachine(core.VMOpts{Optimize: true})
		src := "a := 0.0 * -1; x := 1 / a; x"
		o := m.Eval(nil, src)
		r.Eval(1)
		if !(len(o.Rets) == 1 && o.Rets[0] == "+Inf") {
			if r.Findings().Open("K08") {
				r.KnownFinding("K08")
			} else {
				r.Violate(core.Violation{Check: "c04-sentinel", What: "a constant expression whose exact value is zero yields a negative zero", Case: src, Expected: "+Inf (float64)", Observed: o})
			}
		}
	}
	{
		m := core.NewMachine(core.VMOpts{Optimize: true})
		src := "var v any = byte(1); v = 300; v"
		o := m.Eval(nil, src)
		r.Eval(1)
		if !(len(o.Rets) == 1 && o.Rets[0] == "300") {
			if r.Findings().Open("K09") {
				r.KnownFinding("K09")
			} else {
				r.Violate(core.Violation{Check: "c04-sentinel", What: "a constant assigned to a variable declared any takes the type of the value held before", Case: src, Expected: "300 (int32)", Observed: o})
			}
		}
	}
	m := core.NewMachine(core.VMOpts{Optimize: true})
	o := m.Eval(nil, "c := 31; x := 1 << c >> 2; x")
	r.Eval(1)
	if !(len(o.Rets) == 1 && o.Rets[0] == "-536870912") {
		if r.Findings().Open("K04") {
			r.KnownFinding("K04")
		} else {
			r.Violate(core.Violation{Check: "c04-sentinel", What: "a run-time shift of an untyped constant is not computed in the type Go gives it", Case: "c := 31; x := 1 << c >> 2; x", Expected: "-536870912 (int32)", Observed: o})
		}
	}
}

func replayC04(r *core.Run, v *core.Violation) {
	var cs c04Case
	if err := remarshal(v.Case, &cs); err != nil || cs.Func == "" {
		if s, ok := v.Case.(string); ok {
			m := core.NewMachine(core.VMOpts{Optimize: true})
			o := m.Eval(nil, s)
			fmt.Printf("replay of sentinel %q: %+v\n", s, o)
			if fmt.Sprint(v.Expected) != fmt.Sprintf("%s (%s)", first(o.Rets), first(o.Types)) {
				r.Violate(*v)
			}
		}
		return
	}
	t := c04TypeByName(cs.Type)
	w := newC04Worker(r, t)
	if w == nil {
		return
	}
	fmt.Printf("replaying %s %s %v: re-running the whole group for this operand vector\n", cs.Type, cs.Func, cs.Args)
	if len(cs.Args) == 2 {
		for _, op := range c04Ops {
			if t.float && op.intOnly {
				continue
			}
			w.binAll(op, cs.Args[0], cs.Args[1], c04Classes)
		}
		for _, ct := range c04Types {
			if !ct.float && ct.name != t.name && !t.float {
				lo, hi := c04Range(ct)
				if cs.Args[1] >= lo && cs.Args[1] <= hi {
					w.shiftMixed(cs.Args[0], ct, cs.Args[1])
				}
			}
		}
		w.unaryAll(cs.Args[0])
		w.unaryAll(cs.Args[1])
	} else if len(cs.Args) == 1 {
		w.unaryAll(cs.Args[0])
		w.decls()
	}
}

func first(s []string) string {
	if len(s) == 0 {
		return ""
	}
	return s[0]
}
