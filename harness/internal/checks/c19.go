package checks

import (
	"errors"
	"fmt"
	"math"
	"strings"

	"github.com/philhassey/goatlang"

	"verif/internal/core"
)

// C19 — the embedding API passes values faithfully in both directions.
//
// Oracle: the harness knows what it passed and built. Observed: the arguments
// native callbacks receive (recorded inside the callback), the values the
// script receives back, what Call / Func return for every requested result
// count, and how errors raised in callbacks and nested calls surface.

func init() { register("C19", &Check{Run: runC19, Replay: replayC19}) }

type c19Case struct {
	Kind   string   `json:"kind"`
	Form   int      `json:"native_form,omitempty"`
	Argc   int      `json:"argc,omitempty"`
	Rets   int      `json:"rets,omitempty"`
	Extra  int      `json:"variadic_surplus,omitempty"`
	Script string   `json:"script,omitempty"`
	Args   []string `json:"args,omitempty"`
	Seed   int64    `json:"seed"`
	Idx    int      `json:"index"`
}

// script spellings of argument values and their expected rendering/type
type c19Arg struct {
	lit, str, typ string
}

var c19Args = []c19Arg{
	{"7", "7", "int32"}, {"-3", "-3", "int32"}, {`"s"`, "s", "string"}, {`"héllo x"`, "héllo x", "string"}, {"2.5", "2.5", "float64"}, {"true", "true", "bool"},
	{"b8", "200", "uint8"}, {"i8", "-100", "int8"}, {"u32", "4000000000", "uint32"}, {"xs", "[1 2]", "[]int32"}, {"nilv", "nil", "any"}, {"loc", "41", "int32"}, {"nz", "-0", "float64"}, {"inf", "+Inf", "float64"},
}

const c19Decls = "type NatH struct { F func() }; var b8 byte = 200; var i8 int8 = -100; var u32 uint32 = 4000000000; xs := []int{1, 2}; var nilv any; zz := 0.0; nz := -zz; inf := 1.0 / zz; "

type c19Rec struct {
	args []string
	typs []string
	n    int
	all  []string // what every call received (values and types), in call order
}

func c19Value(i int) (goatlang.Value, string) {
	switch i % 5 {
	case 0:
		return goatlang.Int(1000 + i), fmt.Sprint(1000 + i)
	case 1:
		return goatlang.String(fmt.Sprintf("r%d", i)), fmt.Sprintf("r%d", i)
	case 2:
		if i == 2 {
			return goatlang.Float64(math.Copysign(0, -1)), "-0" // the sign of a zero survives the trip
		}
		return goatlang.Float64(float64(i) + 0.5), fmt.Sprint(float64(i) + 0.5)
	case 3:
		return goatlang.Bool(i%2 == 1), fmt.Sprint(i%2 == 1)
	default:
		return goatlang.Byte(byte(200 + i)), fmt.Sprint(byte(200 + i))
	}
}

// c19Native builds a native of the given form; it records what it receives.
func c19Native(vm *goatlang.VM, form, argc, rets int, rec *c19Rec) goatlang.Value {
	record := func(v *goatlang.VM, args []goatlang.Value) {
		rec.n++
		rec.args, rec.typs = nil, nil
		for _, a := range args {
			rec.args = append(rec.args, a.String())
			t := v.VerifTypeOf(a)
			if t == "number" {
				t = "int32" // an untyped integer constant reaches a native untyped: natives declare no parameter types it could adopt
			}
			rec.typs = append(rec.typs, t)
		}
		rec.all = append(rec.all, strings.Join(rec.args, "\x00")+"\x01"+strings.Join(rec.typs, "\x00"))
	}
	results := func() []goatlang.Value {
		var out []goatlang.Value
		for i := 0; i < rets; i++ {
			v, _ := c19Value(i)
			out = append(out, v)
		}
		return out
	}
	switch form {
	case 1:
		return goatlang.NewFunc(0, 0, func(v *goatlang.VM) { record(v, nil) })
	case 2:
		return goatlang.NewFunc(0, 1, func(v *goatlang.VM) goatlang.Value { record(v, nil); return results()[0] })
	case 3:
		return goatlang.NewFunc(argc, 0, func(v *goatlang.VM, args []goatlang.Value) { record(v, args) })
	case 4:
		return goatlang.NewFunc(argc, 1, func(v *goatlang.VM, args []goatlang.Value) goatlang.Value { record(v, args); return results()[0] })
	case 5:
		return goatlang.NewFunc(argc, rets, func(v *goatlang.VM, args []goatlang.Value) []goatlang.Value { record(v, args); return results() })
	default:
		// argc counts the variadic slot
		return goatlang.NewFunc(argc+1, rets, func(v *goatlang.VM, args []goatlang.Value, vargs ...goatlang.Value) []goatlang.Value {
			record(v, append(append([]goatlang.Value{}, args...), vargs...))
			return results()
		})
	}
}

// c19NativeCase: a native of a random form is called by a script in several
// syntactic positions.
func c19NativeCase(seed int64, idx int) (string, c19Case) {
	rng := core.Derive(seed, "c19-native", idx)
	form := rng.Range(1, 6)
	argc, rets, extra := 0, 0, 0
	switch form {
	case 2:
		rets = 1
	case 3:
		argc = rng.Intn(7)
	case 4:
		argc, rets = rng.Intn(7), 1
	case 5:
		argc, rets = rng.Intn(7), rng.Intn(5)
	case 6:
		argc, rets, extra = rng.Intn(5), rng.Intn(5), rng.Intn(4)
	}
	cs := c19Case{Kind: "native", Form: form, Argc: argc, Rets: rets, Extra: extra, Seed: seed, Idx: idx}
	m := core.NewMachine(core.VMOpts{Optimize: rng.Bool(), Obs: core.NewObs(core.SmallBudget, false, nil)})
	rec := &c19Rec{}
	m.VM.Set("main.nat", c19Native(m.VM, form, argc, rets, rec))
	other := &c19Rec{}
	m.VM.Set("main.wrap", c19Native(m.VM, 4, 1, 1, other))
	var lits, wantS, wantT []string
	for i := 0; i < argc+extra; i++ {
		a := core.Pick(rng, c19Args)
		lits = append(lits, a.lit)
		wantS = append(wantS, a.str)
		wantT = append(wantT, a.typ)
	}
	cs.Args = lits
	call := "nat(" + strings.Join(lits, ", ") + ")"
	var resNames, wantRes []string
	for i := 0; i < rets; i++ {
		resNames = append(resNames, fmt.Sprintf("r%d", i))
		_, s := c19Value(i)
		wantRes = append(wantRes, s)
	}
	// the script calls the native as a statement, with results, inside an expression, as an argument of
	// another native, and in a loop with live locals and temporaries
	var sb strings.Builder
	sb.WriteString(c19Decls)
	sb.WriteString("func run() []any { loc := 41; acc := []any{}; ")
	sb.WriteString(call + "; ")
	if rets > 0 {
		sb.WriteString(strings.Join(resNames, ", ") + " := " + call + "; acc = append(acc, " + strings.Join(resNames, ", ") + "); ")
	}
	if rets == 1 && (form == 2 || form == 4 || form == 5 || form == 6) {
		sb.WriteString("z := 1 + nat2int(" + call + ")*2; acc = append(acc, z); ")
		sb.WriteString("w := wrap(" + call + "); acc = append(acc, w); ")
	}
	sb.WriteString("for i := 0; i < 3; i++ { t := i * 10; " + call + "; acc = append(acc, t + loc + i) }; ")
	if rets >= 2 {
		// a typed multi-variable declaration initialised from one call
		sb.WriteString("var " + strings.Join(resNames, ", ") + " any = " + call + "; acc = append(acc, " + strings.Join(resNames, ", ") + "); ")
	}
	if form == 6 {
		// the native held in a struct field, reached through a local receiver, with a spread slice
		hcall := "hh.F(" + strings.Join(append(append([]string{}, lits[:argc]...), "hsp..."), ", ") + ")"
		sb.WriteString("hsp := []any{" + strings.Join(lits[argc:], ", ") + "}; hh := &NatH{F: nat}; ")
		if rets > 0 {
			sb.WriteString(strings.Join(resNames, ", ") + " = " + hcall + "; acc = append(acc, " + strings.Join(resNames, ", ") + "); ")
		} else {
			sb.WriteString(hcall + "; ")
		}
	}
	fwdCall := call
	if form == 6 {
		fwdCall = "nat(" + strings.Join(append(append([]string{}, lits[:argc]...), "sp..."), ", ") + ")"
	}
	if rets > 0 {
		sb.WriteString(strings.Join(resNames, ", ") + " = fwd(loc); acc = append(acc, " + strings.Join(resNames, ", ") + "); ")
	} else {
		sb.WriteString("fwd(loc); ")
	}
	sb.WriteString("acc = append(acc, loc); return acc }; ")
	sb.WriteString("func fwd(loc int) ")
	if rets > 0 {
		sb.WriteString("(" + strings.TrimSuffix(strings.Repeat("any, ", rets), ", ") + ") ")
	}
	sb.WriteString("{ ")
	if form == 6 {
		sb.WriteString("sp := []any{" + strings.Join(lits[argc:], ", ") + "}; ")
	}
	if rets > 0 {
		sb.WriteString("return " + fwdCall + " }; ")
	} else {
		sb.WriteString(fwdCall + " }; ")
	}
	sb.WriteString("func nat2int(v any) int { return 5 }; ")
	sb.WriteString("out := run(); out")
	cs.Script = sb.String()
	o := m.Eval(nil, cs.Script)
	if o.Panic != "" {
		return "a Go panic escaped: " + o.Panic, cs
	}
	if o.Err != "" {
		return "the script calling the native fails: " + core.ErrFirstLine(o.Err), cs
	}
	// what the native saw on its last call
	if strings.Join(rec.args, "\x00") != strings.Join(wantS, "\x00") || strings.Join(rec.typs, "\x00") != strings.Join(wantT, "\x00") {
		return fmt.Sprintf("the native received %v %v, the script passed %v %v", rec.args, rec.typs, wantS, wantT), cs
	}
	// every call passed the same arguments
	for ci, got := range rec.all {
		if want := strings.Join(wantS, "\x00") + "\x01" + strings.Join(wantT, "\x00"); got != want {
			return fmt.Sprintf("call %d of %d: the native received %q, the script passed %q", ci+1, len(rec.all), got, want), cs
		}
	}
	wantCalls := 1 + 3 + 1
	if rets >= 2 {
		wantCalls++
	}
	if form == 6 {
		wantCalls++
	}
	if rets > 0 {
		wantCalls++
	}
	if rets == 1 && (form == 2 || form == 4 || form == 5 || form == 6) {
		wantCalls += 2
	}
	if rec.n != wantCalls {
		return fmt.Sprintf("the native ran %d times, the script calls it %d times", rec.n, wantCalls), cs
	}
	// what the script got back
	var want []string
	want = append(want, wantRes...)
	if rets == 1 && (form == 2 || form == 4 || form == 5 || form == 6) {
		w0, _ := c19Value(0)
		want = append(want, "11", w0.String())
	}
	want = append(want, "41", "52", "63")
	if rets >= 2 {
		want = append(want, wantRes...)
	}
	if form == 6 && rets > 0 {
		want = append(want, wantRes...)
	}
	want = append(want, wantRes...)
	want = append(want, "41")
	if len(o.Rets) != 1 || o.Rets[0] != "["+strings.Join(want, " ")+"]" {
		return fmt.Sprintf("the script observed %v, expected [%s]", o.Rets, strings.Join(want, " ")), cs
	}
	return "", cs
}

// c19RoundTrip checks constructors against accessors.
func c19RoundTrip(seed int64, idx int) (string, c19Case) {
	rng := core.Derive(seed, "c19-rt", idx)
	cs := c19Case{Kind: "round-trip", Seed: seed, Idx: idx}
	x := int64(rng.Uint64())
	if rng.Bool() {
		x = core.Pick(rng, []int64{0, 1, -1, math.MaxInt32, math.MinInt32, math.MaxInt32 + 1, math.MaxUint32, 255, 256, -129, 127, -128})
	}
	f := math.Float64frombits(rng.Uint64())
	if rng.Bool() {
		f = core.Pick(rng, []float64{math.Copysign(0, -1), 0, math.Inf(1), math.Inf(-1), math.NaN(), math.Float64frombits(0x7ff8000000000123), math.SmallestNonzeroFloat64, -math.SmallestNonzeroFloat64, math.MaxFloat64, 0.1, -0.5, 1 << 53, 1<<53 + 1})
	}
	bad := func(what string, got, want any) (string, c19Case) {
		cs.Args = []string{fmt.Sprint(x), fmt.Sprint(f)}
		return fmt.Sprintf("%s: got %v, want %v", what, got, want), cs
	}
	if got := goatlang.Int(int(x)).Int(); got != int(int32(x)) {
		return bad("Int(x).Int() (int is 32 bit in scripts)", got, int(int32(x)))
	}
	if got := goatlang.Int32(int32(x)).Int32(); got != int32(x) {
		return bad("Int32 round trip", got, int32(x))
	}
	if got := goatlang.Uint32(uint32(x)).Uint32(); got != uint32(x) {
		return bad("Uint32 round trip", got, uint32(x))
	}
	if got := goatlang.Uint(uint(uint32(x))).Uint(); got != uint(uint32(x)) {
		return bad("Uint round trip", got, uint(uint32(x)))
	}
	if got := goatlang.Int8(int8(x)).Int8(); got != int8(x) {
		return bad("Int8 round trip", got, int8(x))
	}
	if got := goatlang.Byte(byte(x)).Byte(); got != byte(x) {
		return bad("Byte round trip", got, byte(x))
	}
	if got := goatlang.Uint8(uint8(x)).Uint8(); got != uint8(x) {
		return bad("Uint8 round trip", got, uint8(x))
	}
	if got := goatlang.Float64(f).Float64(); math.Float64bits(got) != math.Float64bits(f) {
		return bad("Float64 round trip (bit pattern)", math.Float64bits(got), math.Float64bits(f))
	}
	if got := goatlang.Bool(x%2 == 0).Bool(); got != (x%2 == 0) {
		return bad("Bool round trip", got, x%2 == 0)
	}
	s := c13RandString(rng)
	if got := goatlang.String(s).String(); got != s {
		return bad("String round trip", got, s)
	}
	if !goatlang.Nil().IsNil() {
		return bad("Nil().IsNil()", false, true)
	}
	// types reported for constructed values
	for _, tc := range []struct {
		v goatlang.Value
		t goatlang.Type
	}{{goatlang.Int(1), goatlang.TypeInt32}, {goatlang.Uint32(1), goatlang.TypeUint32}, {goatlang.Int8(1), goatlang.TypeInt8}, {goatlang.Byte(1), goatlang.TypeUint8}, {goatlang.Float64(1), goatlang.TypeFloat64}, {goatlang.Bool(true), goatlang.TypeBool}, {goatlang.String(""), goatlang.TypeString}, {goatlang.Nil(), goatlang.TypeNil}} {
		if tc.v.Type() != tc.t {
			return bad("Type() of a constructed value", tc.v.Type(), tc.t)
		}
	}
	// containers
	n := rng.Intn(6)
	vals := make([]goatlang.Value, n)
	for i := range vals {
		vals[i] = goatlang.Int(int(x) + i)
	}
	sl := goatlang.NewSlice(goatlang.TypeInt32, vals)
	if sl.Len() != n {
		return bad("NewSlice(...).Len()", sl.Len(), n)
	}
	for i := 0; i < n; i++ {
		if e, ok := sl.Get(goatlang.Int(i)); !ok || e.Int() != int(int32(int(x)+i)) {
			return bad("NewSlice(...).Get(i)", e.Int(), int(int32(int(x)+i)))
		}
	}
	mp := goatlang.NewMap(goatlang.TypeString, goatlang.TypeFloat64, []goatlang.Value{goatlang.String(s), goatlang.Float64(f)})
	if e, ok := mp.Get(goatlang.String(s)); !ok || math.Float64bits(e.Float64()) != math.Float64bits(f) {
		return bad("NewMap(...).Get(key)", e.Float64(), f)
	}
	obj := &c19Obj{tag: int(x)}
	if got := goatlang.Wrap(obj).Unwrap(); got != goatlang.Object(obj) {
		return bad("Wrap(o).Unwrap()", got, obj)
	}
	if goatlang.Int(1).Unwrap() != nil {
		return bad("Unwrap() of a non-object", "non-nil", nil)
	}
	return "", cs
}

type c19Obj struct {
	goatlang.Object
	tag int
}

const c19CallSrc = `func r0() { }; func r1(a int) int { return a + 1 }; func r3(a int, s string) (int, string, float64) { return a * 2, s + "!", 1.5 }
func rv(a int, xs ...int) (int, int) { t := 0; for _, x := range xs { t += x }; return a, t }
type T struct { A int }; func (t *T) Get(k int) (int, int) { return t.A, k }; obj := &T{A: 9}; mv := obj.Get
func fwd3(a int, s string) (int, string, float64) { h := func(x int) int { return x + 1 }; _ = h(1); return r3(a, s) }
func fwdv(a int, xs ...int) (int, int) { note := func() { }; note(); return rv(a, xs...) }
func fwd1(a int) int { pair := func() (int, int) { return 1, 2 }; p, q := pair(); _, _ = p, q; return r1(a) }
func cnt(xs ...any) int { return len(xs) }
func cntk(k string, xs ...any) int { return len(k)*100 + len(xs) }`

// c19StructCase: instances built with NewStruct, with and without initialisers, next to script-made ones: every
// instance has its own fields; a field reads the value given for it, otherwise the zero value.
func c19StructCase(seed int64, idx int) (string, c19Case) {
	rng := core.Derive(seed, "c19-struct", idx)
	cs := c19Case{Kind: "struct", Seed: seed, Idx: idx}
	m := core.NewMachine(core.VMOpts{Optimize: rng.Bool(), Obs: core.NewObs(core.SmallBudget, false, nil)})
	if o := m.Eval(nil, "import \"fmt\"\ntype P struct { X int; Name string; F float64; L []int }\nfunc mkP() *P { return &P{} }\nfunc mkN(n string) *P { return &P{Name: n} }\nfunc show(p *P) string { return fmt.Sprint(p.X, p.Name, p.F, len(p.L)) }"); o.Failed() {
		return "set-up failed: " + o.Err + o.Panic, cs
	}
	base := m.VM.Get("main.P")
	I, S, F := goatlang.Int, goatlang.String, goatlang.Float64
	type inst struct {
		v    goatlang.Value
		x    int
		name string
		f    float64
		how  string
	}
	var all []*inst
	mk := func() *inst {
		in := &inst{}
		switch rng.Intn(5) {
		case 0:
			in.v, in.how = goatlang.NewStruct(base, nil), "NewStruct(P, nil)"
		case 1:
			in.v, in.how = goatlang.NewStruct(base, []goatlang.Value{}), "NewStruct(P, {})"
		case 2:
			in.name = fmt.Sprintf("n%d", rng.Intn(99))
			in.v, in.how = goatlang.NewStruct(base, []goatlang.Value{S("Name"), S(in.name)}), "NewStruct(P, {Name})"
		case 3:
			in.x, in.f = rng.Intn(999)+1, float64(rng.Intn(99))+0.5
			in.v, in.how = goatlang.NewStruct(base, []goatlang.Value{S("X"), I(in.x), S("F"), F(in.f)}), "NewStruct(P, {X, F})"
		default:
			rets, err := m.VM.Call("main.mkP", 1)
			if err != nil || len(rets) != 1 {
				return nil
			}
			in.v, in.how = rets[0], "&P{} in the script"
		}
		return in
	}
	verify := func(when string) string {
		for i, in := range all {
			got := fmt.Sprint(in.v.GetAttr("X").Int(), in.v.GetAttr("Name").String(), in.v.GetAttr("F").Float64())
			want := fmt.Sprint(in.x, in.name, in.f)
			if got != want {
				return fmt.Sprintf("%s: instance %d (%s) reads X, Name, F = %s; it was given %s", when, i, in.how, got, want)
			}
			o := m.Call("main.show", 1, in.v)
			if o.Failed() || len(o.Rets) != 1 || o.Rets[0] != fmt.Sprint(in.x, in.name, in.f, 0) {
				return fmt.Sprintf("%s: the script reads instance %d (%s) as %v %s; it was given %s", when, i, in.how, o.Rets, o.Err, want)
			}
		}
		return ""
	}
	for step := rng.Range(3, 8); step > 0; step-- {
		if len(all) == 0 || rng.Bool() {
			in := mk()
			if in == nil {
				return "mkP failed", cs
			}
			all = append(all, in)
			cs.Args = append(cs.Args, in.how)
		} else {
			in := all[rng.Intn(len(all))]
			switch rng.Intn(3) {
			case 0:
				in.x = rng.Intn(999) + 1
				in.v.SetAttr("X", I(in.x))
				cs.Args = append(cs.Args, "SetAttr X")
			case 1:
				in.name = fmt.Sprintf("s%d", rng.Intn(99))
				in.v.SetAttr("Name", S(in.name))
				cs.Args = append(cs.Args, "SetAttr Name")
			default:
				in.f = float64(rng.Intn(99)) + 0.25
				in.v.SetAttr("F", F(in.f))
				cs.Args = append(cs.Args, "SetAttr F")
			}
		}
		if what := verify(fmt.Sprint("after ", cs.Args)); what != "" {
			return what, cs
		}
	}
	return "", cs
}

// c19HostHistory: result slices of earlier Call / Func calls stay what they were while later calls run (the
// histories of C09, judged here as part of the host API's contract).
func c19HostHistory(seed int64, idx int) (string, c19Case) {
	what, trace := c09HostHistory(seed, idx)
	return what, c19Case{Kind: "host-history", Seed: seed, Idx: idx, Args: trace}
}

// c19ShadowNative: natives the host registers under package-level names, among them names that are also
// predeclared (print, println): a script's bare use of the name reaches the registered native with its arguments.
func c19ShadowNative(seed int64, idx int) (string, c19Case) {
	rng := core.Derive(seed, "c19-shadow", idx)
	cs := c19Case{Kind: "shadow-native", Seed: seed, Idx: idx}
	m := core.NewMachine(core.VMOpts{Optimize: rng.Bool(), Obs: core.NewObs(core.SmallBudget, false, nil)})
	var got []string
	reg := func(name string, k int) {
		m.VM.Set("main."+name, goatlang.NewFunc(2, 1, func(v *goatlang.VM, args []goatlang.Value) goatlang.Value {
			got = append(got, fmt.Sprintf("%s(%s,%s)", name, args[0].String(), args[1].String()))
			return goatlang.Int(args[0].Int()*k + args[1].Int())
		}))
	}
	names := []string{"trace", "print", "println", "emit"}
	for i, n := range names {
		reg(n, i+2)
	}
	a, b := rng.Intn(90)+1, rng.Intn(9)
	use := core.Pick(rng, names)
	cs.Script = fmt.Sprintf("func label(n int) int { x := %s(n, %d); return x + 1 }\nr := label(%d) + trace(1, 1)\nr", use, b, a)
	o := m.Eval(nil, cs.Script)
	k := 2
	for i, n := range names {
		if n == use {
			k = i + 2
		}
	}
	want := fmt.Sprint(a*k + b + 1 + 3)
	wantCalls := fmt.Sprintf("[%s(%d,%d) trace(1,1)]", use, a, b)
	if o.Failed() || len(o.Rets) != 1 || o.Rets[0] != want || fmt.Sprint(got) != wantCalls || o.Out != "" {
		return fmt.Sprintf("a native registered as main.%s: the script got %v %s (stdout %q), natives saw %v; expected %s and %s", use, o.Rets, core.ErrFirstLine(o.Err)+o.Panic, o.Out, got, want, wantCalls), cs
	}
	return "", cs
}

// c19EchoCase: natives whose result slice is (part of) the argument slice they were handed.
func c19EchoCase(seed int64, idx int) (string, c19Case) {
	rng := core.Derive(seed, "c19-echo", idx)
	cs := c19Case{Kind: "echo", Seed: seed, Idx: idx}
	m := core.NewMachine(core.VMOpts{Optimize: rng.Bool(), Obs: core.NewObs(core.SmallBudget, false, nil)})
	V := goatlang.Value{}
	_ = V
	m.VM.Set("builtin.echo2", goatlang.NewFunc(2, 2, func(v *goatlang.VM, args []goatlang.Value) []goatlang.Value { return args }))
	m.VM.Set("builtin.echo3", goatlang.NewFunc(3, 3, func(v *goatlang.VM, args []goatlang.Value) []goatlang.Value { return args }))
	m.VM.Set("builtin.tail", goatlang.NewFunc(3, 2, func(v *goatlang.VM, args []goatlang.Value) []goatlang.Value { return args[1:] }))
	m.VM.Set("builtin.head", goatlang.NewFunc(3, 1, func(v *goatlang.VM, args []goatlang.Value) goatlang.Value { return args[0] }))
	m.VM.Set("builtin.swap", goatlang.NewFunc(2, 2, func(v *goatlang.VM, args []goatlang.Value) []goatlang.Value {
		args[0], args[1] = args[1], args[0]
		return args
	}))
	m.VM.Set("builtin.vfix", goatlang.NewFunc(3, 2, func(v *goatlang.VM, args []goatlang.Value, vargs ...goatlang.Value) []goatlang.Value { return args }))
	m.VM.Set("builtin.vrest", goatlang.NewFunc(2, 2, func(v *goatlang.VM, args []goatlang.Value, vargs ...goatlang.Value) []goatlang.Value {
		return vargs[:2]
	}))
	// natives without parameters as the very first thing a fresh VM runs (the operand stack is still empty)
	{
		m0 := core.NewMachine(core.VMOpts{Optimize: rng.Bool(), Obs: core.NewObs(core.SmallBudget, false, nil)})
		calls := 0
		m0.VM.Set("builtin.zero1", goatlang.NewFunc(0, 1, func(v *goatlang.VM) goatlang.Value { calls++; return goatlang.Int(40 + calls) }))
		m0.VM.Set("builtin.zero0", goatlang.NewFunc(0, 0, func(v *goatlang.VM) { calls += 10 }))
		m0.VM.Set("builtin.zeroN", goatlang.NewFunc(0, 1, func(v *goatlang.VM, args []goatlang.Value) goatlang.Value { calls += 100; return goatlang.Int(len(args)) }))
		first := core.Pick(rng, []string{"r := zero1()\nr", "zero0()\nr := zero1()\nr", "r := zeroN() + zero1()\nr", "zero1()\nr := zero1()\nr"})
		o := m0.Eval(nil, first)
		want := map[string]string{"r := zero1()\nr": "41", "zero0()\nr := zero1()\nr": "51", "r := zeroN() + zero1()\nr": "141", "zero1()\nr := zero1()\nr": "42"}[first]
		if o.Failed() || len(o.Rets) != 1 || o.Rets[0] != want {
			cs.Script = first
			return fmt.Sprintf("natives without parameters as the first thing a fresh VM runs: got %v %s, expected %s", o.Rets, core.ErrFirstLine(o.Err)+o.Panic, want), cs
		}
	}
	a, b, c := rng.Intn(900)+1, rng.Intn(900)+1, rng.Intn(900)+1
	src := fmt.Sprintf("func run(k int) []any {\n\tl1 := k + 1\n\ta, b := echo2(%d, \"x\")\n\tc, d := tail(%d, %d, %d)\n\te, f := swap(%d, %d)\n\tg, h := vfix(%d, %d, %d, %d)\n\ti, j := vrest(%d, %d, %d)\n\tp, q, r := echo3(%d, 2.5, true)\n\tl2 := l1 + head(%d, %d, %d)\n\treturn []any{a, b, c, d, e, f, g, h, i, j, p, q, r, l1, l2}\n}\nout := run(%d)\nout",
		a, a, b, c, a, b, a, b, c, a, a, b, c, b, a, b, c, c)
	cs.Script = src
	o := m.Eval(nil, src)
	want := fmt.Sprintf("[%d x %d %d %d %d %d %d %d %d %d 2.5 true %d %d]", a, b, c, b, a, a, b, b, c, b, c+1, c+1+a)
	if o.Failed() || len(o.Rets) != 1 || o.Rets[0] != want {
		return fmt.Sprintf("results that share memory with the arguments: the script got %v %s, the natives returned %s", o.Rets, core.ErrFirstLine(o.Err)+o.Panic, want), cs
	}
	// the same natives called by the host
	for _, hc := range []struct {
		name string
		args []goatlang.Value
		want string
	}{
		{"builtin.echo2", []goatlang.Value{goatlang.Int(a), goatlang.String("y")}, fmt.Sprintf("%d y", a)},
		{"builtin.tail", []goatlang.Value{goatlang.Int(a), goatlang.Int(b), goatlang.Int(c)}, fmt.Sprintf("%d %d", b, c)},
		{"builtin.swap", []goatlang.Value{goatlang.Int(a), goatlang.Int(b)}, fmt.Sprintf("%d %d", b, a)},
		{"builtin.vfix", []goatlang.Value{goatlang.Int(a), goatlang.Int(b), goatlang.Int(c)}, fmt.Sprintf("%d %d", a, b)},
	} {
		ho := m.Call(hc.name, 2, hc.args...)
		if ho.Failed() || strings.Join(ho.Rets, " ") != hc.want {
			return fmt.Sprintf("host Call of %s: got %v %s, the native returned %s", hc.name, ho.Rets, core.ErrFirstLine(ho.Err)+ho.Panic, hc.want), cs
		}
	}
	return "", cs
}

// c19CallCase: Call and Func with every requested result count.
func c19CallCase(seed int64, idx int) (string, c19Case) {
	rng := core.Derive(seed, "c19-call", idx)
	cs := c19Case{Kind: "call", Seed: seed, Idx: idx}
	m := core.NewMachine(core.VMOpts{Optimize: rng.Bool(), Obs: core.NewObs(core.SmallBudget, false, nil)})
	if o := m.Eval(nil, c19CallSrc); o.Failed() {
		return "set-up failed: " + o.Err, cs
	}
	a := rng.Intn(1000)
	type fn struct {
		name string
		args []goatlang.Value
		want []string
	}
	fns := []fn{
		{"main.r0", nil, nil},
		{"main.r1", []goatlang.Value{goatlang.Int(a)}, []string{fmt.Sprint(a + 1)}},
		{"main.r3", []goatlang.Value{goatlang.Int(a), goatlang.String("s")}, []string{fmt.Sprint(a * 2), "s!", "1.5"}},
		{"main.rv", []goatlang.Value{goatlang.Int(a), goatlang.Int(2), goatlang.Int(3)}, []string{fmt.Sprint(a), "5"}},
		{"main.rv", []goatlang.Value{goatlang.Int(a)}, []string{fmt.Sprint(a), "0"}},
		{"main.mv", []goatlang.Value{goatlang.Int(a)}, []string{"9", fmt.Sprint(a)}},
		{"main.fwd3", []goatlang.Value{goatlang.Int(a), goatlang.String("s")}, []string{fmt.Sprint(a * 2), "s!", "1.5"}},
		{"main.fwdv", []goatlang.Value{goatlang.Int(a), goatlang.Int(2), goatlang.Int(3)}, []string{fmt.Sprint(a), "5"}},
		{"main.fwd1", []goatlang.Value{goatlang.Int(a)}, []string{fmt.Sprint(a + 1)}},
		// a slice handed over as the only surplus parameter is one argument (the host has no spread form)
		{"main.cnt", []goatlang.Value{goatlang.NewSlice(goatlang.TypeNil, []goatlang.Value{goatlang.Int(1), goatlang.Int(2), goatlang.Int(3)})}, []string{"1"}},
		{"main.cnt", []goatlang.Value{goatlang.Nil()}, []string{"1"}},
		{"main.cnt", []goatlang.Value{goatlang.NewSlice(goatlang.TypeNil, nil), goatlang.NewSlice(goatlang.TypeInt32, []goatlang.Value{goatlang.Int(1)})}, []string{"2"}},
		{"main.cntk", []goatlang.Value{goatlang.String("ab"), goatlang.NewSlice(goatlang.TypeNil, []goatlang.Value{goatlang.Int(a), goatlang.String("s")})}, []string{"201"}},
		{"main.cntk", []goatlang.Value{goatlang.String("ab")}, []string{"200"}},
	}
	f := fns[rng.Intn(len(fns))]
	for x := 0; x <= len(f.want); x++ {
		cs.Script = fmt.Sprintf("%s with %d results requested", f.name, x)
		for _, viaFunc := range []bool{false, true} {
			var rets []goatlang.Value
			var err error
			p := core.Guard(func() {
				if viaFunc {
					rets, err = m.VM.Func(m.VM.Get(f.name), x, f.args...)
				} else {
					rets, err = m.VM.Call(f.name, x, f.args...)
				}
			})
			if p != "" {
				return "a Go panic escaped Call/Func: " + p, cs
			}
			if err != nil {
				return "Call/Func fails: " + core.ErrFirstLine(err.Error()), cs
			}
			if len(rets) != x {
				return fmt.Sprintf("%d results requested, %d returned", x, len(rets)), cs
			}
			for i := 0; i < x; i++ {
				if rets[i].String() != f.want[i] {
					return fmt.Sprintf("result %d is %s, the function yields %s", i, rets[i].String(), f.want[i]), cs
				}
			}
		}
	}
	return "", cs
}

// c19ErrorCase: errors raised in callbacks and nested calls surface as the
// error of the outer call; nothing escapes as a Go panic; the VM stays usable.
func c19ErrorCase(seed int64, idx int) (string, c19Case) {
	rng := core.Derive(seed, "c19-err", idx)
	cs := c19Case{Kind: "error", Seed: seed, Idx: idx}
	m := core.NewMachine(core.VMOpts{Optimize: rng.Bool(), Obs: core.NewObs(core.SmallBudget, false, nil)})
	marker := fmt.Sprintf("boom-%d", idx)
	m.VM.Set("main.failStr", goatlang.NewFunc(0, 1, func(v *goatlang.VM) goatlang.Value { panic(marker) }))
	m.VM.Set("main.failErr", goatlang.NewFunc(1, 1, func(v *goatlang.VM, args []goatlang.Value) goatlang.Value { panic(errors.New(marker)) }))
	// a native that re-enters the VM and propagates the failure of the nested call
	m.VM.Set("main.reenter", goatlang.NewFunc(2, 1, func(v *goatlang.VM, args []goatlang.Value) goatlang.Value {
		rets, err := v.Func(args[0], 1, args[1])
		if err != nil {
			panic(err)
		}
		return rets[0]
	}))
	okNative := 0
	m.VM.Set("main.okNat", goatlang.NewFunc(1, 1, func(v *goatlang.VM, args []goatlang.Value) goatlang.Value {
		okNative++
		return goatlang.Int(args[0].Int() + 1)
	}))
	setup := `func inner(n int) int { if n > 2 { return failErr(n) }; return n }
func level2(n int) int { return reenter(inner, n) + 1 }
func level1(n int) int { return reenter(level2, n) + 1 }
func divz(n int) int { z := 0; return n / z }
func viaDiv(n int) int { return reenter(divz, n) }
func fine(n int) int { return okNat(reenter(inner, n)) }`
	if o := m.Eval(nil, setup); o.Failed() {
		return "set-up failed: " + o.Err, cs
	}
	type tc struct {
		src      string
		contains string
	}
	cases := []tc{
		{"x := failStr()", marker},
		{"x := failErr(1)", marker},
		{"x := 1 + level1(5)*2", marker},
		{"x := level1(7)", marker},
		{"x := viaDiv(3)", "divide by zero"},
		{"s := 0; for i := 0; i < 5; i++ { s += level1(i) }", marker},
		{"import \"golang.org/x/exp/slices\"; func bad(a int, b int) bool { return inner(a+b) > 0 }; q := []int{3, 1, 2, 9}; slices.SortFunc(q, bad)", marker},
		{"import \"golang.org/x/exp/slices\"; func badz(a int, b int) bool { z := 0; return a/z > b }; q2 := []int{3, 1, 2}; slices.SortStableFunc(q2, badz)", "divide by zero"},
	}
	c := cases[rng.Intn(len(cases))]
	cs.Script = c.src
	o := m.Eval(nil, c.src)
	if o.Panic != "" {
		return "a Go panic escaped the outer call: " + o.Panic, cs
	}
	if o.Err == "" {
		return "the error raised in the callback was swallowed", cs
	}
	if !strings.Contains(o.Err, c.contains) {
		return fmt.Sprintf("the outer error %q does not carry the callback's error %q", core.ErrFirstLine(o.Err), c.contains), cs
	}
	// also through Call
	co := m.Call("main.level1", 1, goatlang.Int(9))
	if co.Panic != "" || co.Err == "" || !strings.Contains(co.Err, marker) {
		return fmt.Sprintf("Call of a failing chain: panic=%q err=%q", co.Panic, core.ErrFirstLine(co.Err)), cs
	}
	// the VM stays usable and the successful path works
	after := m.Call("main.fine", 1, goatlang.Int(2))
	if after.Failed() || len(after.Rets) != 1 || after.Rets[0] != "3" || okNative == 0 {
		return fmt.Sprintf("after the error a well-behaved nested call misbehaves: %+v", after), cs
	}
	after2 := m.Call("main.level1", 1, goatlang.Int(1))
	if after2.Failed() || after2.Rets[0] != "3" {
		return fmt.Sprintf("after the error level1(1) = %v %s", after2.Rets, after2.Err), cs
	}
	return "", cs
}

// c19ReentrantCase: one native is re-entered through script code it calls
// back; every activation must still see its own arguments after the nested
// activation returned.
func c19ReentrantCase(seed int64, idx int) (string, c19Case) {
	rng := core.Derive(seed, "c19-reent", idx)
	form := rng.Range(4, 6)
	depth := rng.Range(1, 5)
	cs := c19Case{Kind: "reentrant-native", Form: form, Argc: depth, Seed: seed, Idx: idx}
	m := core.NewMachine(core.VMOpts{Optimize: rng.Bool(), Obs: core.NewObs(core.SmallBudget, false, nil)})
	var bad string
	viaFunc := rng.Bool()
	body := func(v *goatlang.VM, args []goatlang.Value) (int, string) {
		var before []string
		for _, a := range args {
			before = append(before, a.String())
		}
		n := args[0].Int()
		nested := 7
		if n > 0 {
			var rets []goatlang.Value
			var err error
			if viaFunc {
				rets, err = v.Func(v.Get("main.step"), 1, goatlang.Int(n-1))
			} else {
				rets, err = v.Call("main.step", 1, goatlang.Int(n-1))
			}
			if err != nil {
				panic(err)
			}
			nested = rets[0].Int()
		}
		var after []string
		for _, a := range args {
			after = append(after, a.String())
		}
		if strings.Join(before, "\x00") != strings.Join(after, "\x00") && bad == "" {
			bad = fmt.Sprintf("activation n=%d received %v; after the nested activation of the same native returned its arguments read %v", n, before, after)
		}
		return args[0].Int() + 10*nested, args[1].String()
	}
	switch form {
	case 4:
		m.VM.Set("main.nat", goatlang.NewFunc(3, 1, func(v *goatlang.VM, args []goatlang.Value) goatlang.Value {
			r, _ := body(v, args)
			return goatlang.Int(r)
		}))
	case 5:
		m.VM.Set("main.nat", goatlang.NewFunc(3, 2, func(v *goatlang.VM, args []goatlang.Value) []goatlang.Value {
			r, t := body(v, args)
			return []goatlang.Value{goatlang.Int(r), goatlang.String(t)}
		}))
	default:
		m.VM.Set("main.nat", goatlang.NewFunc(2, 2, func(v *goatlang.VM, args []goatlang.Value, vargs ...goatlang.Value) []goatlang.Value {
			r, t := body(v, append(append([]goatlang.Value{}, args...), vargs...))
			_ = t
			// the fixed window itself must also be intact after the nested call
			return []goatlang.Value{goatlang.Int(r - args[0].Int() + args[0].Int()), goatlang.String(vargs[0].String())}
		}))
	}
	var src string
	switch form {
	case 4:
		src = `func step(n int) int { loc := n * 2; r := nat(n, "t" + fmt.Sprint(n), loc); return r + loc - n*2 }`
	default:
		src = `func step(n int) int { loc := n * 2; r, t := nat(n, "t" + fmt.Sprint(n), loc); if t != "t" + fmt.Sprint(n) { return -1000 }; return r + loc - n*2 }`
	}
	src = "import \"fmt\"; " + src + fmt.Sprintf("; out := step(%d); out", depth)
	cs.Script = src
	o := m.Eval(nil, src)
	if o.Failed() {
		return "re-entering a native through the script fails: " + core.ErrFirstLine(o.Err) + o.Panic, cs
	}
	if bad != "" {
		return bad, cs
	}
	want := 7
	for n := 0; n <= depth; n++ {
		want = n + 10*want
	}
	if len(o.Rets) != 1 || o.Rets[0] != fmt.Sprint(want) {
		return fmt.Sprintf("step(%d) = %v through %d nested activations of one native, expected %d", depth, o.Rets, depth+1, want), cs
	}
	return "", cs
}

// c19RebindCase: what a name stands for may change between two host calls (a function defined again with
// another parameter list, a host value set again, a script variable of function type reassigned); Call and
// Func reach what the name stands for now. Methods fetched with GetAttr are bound to their instance.
func c19RebindCase(seed int64, idx int) (string, c19Case) {
	rng := core.Derive(seed, "c19-rebind", idx)
	cs := c19Case{Kind: "rebind", Seed: seed, Idx: idx}
	m := core.NewMachine(core.VMOpts{Optimize: rng.Bool(), Obs: core.NewObs(core.SmallBudget, false, nil)})
	I := goatlang.Int
	call := func(label, name string, want string, args ...goatlang.Value) string {
		o := m.Call(name, 1, args...)
		if o.Failed() || len(o.Rets) != 1 || o.Rets[0] != want {
			return fmt.Sprintf("%s: Call(%q) = %v %s%s, want %s", label, name, o.Rets, core.ErrFirstLine(o.Err), o.Panic, want)
		}
		return ""
	}
	ev := func(src string) string {
		cs.Script += src + "\n"
		if o := m.Eval(nil, src); o.Failed() {
			return "evaluating " + src + " fails: " + core.ErrFirstLine(o.Err) + o.Panic
		}
		return ""
	}
	a, b := rng.Intn(20)+1, rng.Intn(20)+1
	steps := []func() string{
		func() string { // a function defined again with another variadic-ness
			forms := []struct {
				src  string
				args []int
				want int
			}{
				{"func h(a int) int { return a + 1 }", []int{a}, a + 1},
				{"func h(a int, xs ...int) int { return a*10 + len(xs) }", []int{a}, a * 10},
				{"func h(a int, xs ...int) int { return a*10 + len(xs) }", []int{a, 1, 2}, a*10 + 2},
				{"func h(xs ...int) int { return 1000 + len(xs) }", []int{a, b}, 1002},
				{"func h(xs ...int) int { return 1000 + len(xs) }", nil, 1000},
				{"func h(a int, b int) int { return a*100 + b }", []int{a, b}, a*100 + b},
			}
			for n := rng.Range(2, 5); n > 0; n-- {
				f := core.Pick(rng, forms)
				if e := ev(f.src); e != "" {
					return e
				}
				var vals []goatlang.Value
				for _, x := range f.args {
					vals = append(vals, I(x))
				}
				if e := call("after defining "+f.src, "main.h", fmt.Sprint(f.want), vals...); e != "" {
					return e
				}
				if o := m.Func(m.VM.Get("main.h"), 1, vals...); o.Failed() || len(o.Rets) != 1 || o.Rets[0] != fmt.Sprint(f.want) {
					return fmt.Sprintf("after defining %s: Func(Get(main.h)) = %v %s, want %d", f.src, o.Rets, core.ErrFirstLine(o.Err), f.want)
				}
			}
			return ""
		},
		func() string { // a host value set again under the same name
			m.VM.Set("main.nat", goatlang.NewFunc(1, 1, func(v *goatlang.VM, args []goatlang.Value) goatlang.Value { return I(args[0].Int() + 9) }))
			if e := call("first native", "main.nat", fmt.Sprint(a+9), I(a)); e != "" {
				return e
			}
			m.VM.Set("main.nat", goatlang.NewFunc(2, 1, func(v *goatlang.VM, args []goatlang.Value) goatlang.Value { return I(args[0].Int()*args[1].Int() + 1) }))
			if e := call("after Set of another native under the same name", "main.nat", fmt.Sprint(a*b+1), I(a), I(b)); e != "" {
				return e
			}
			if e := ev(fmt.Sprintf("nr := nat(%d, %d)", a, b)); e != "" {
				return e
			}
			return call("script view of the new native", "main.getnr", fmt.Sprint(a*b+1))
		},
		func() string { // natives that leave more values than they declare: the call site gets the first ones
			m.VM.Set("main.Parse", goatlang.NewFunc(1, 1, func(v *goatlang.VM, args []goatlang.Value) []goatlang.Value {
				return []goatlang.Value{I(args[0].Int() + 40), goatlang.String("ok"), I(99)}
			}))
			m.VM.Set("main.Triple", goatlang.NewFunc(0, 2, func(v *goatlang.VM, args []goatlang.Value) []goatlang.Value {
				return []goatlang.Value{I(1), I(2), I(3)}
			}))
			if e := ev(fmt.Sprintf("px := Parse(%d); t1, t2 := Triple(); func w3() int { q := Parse(%d); u1, u2 := Triple(); Parse(0); return q*100 + u1*10 + u2 }; func getp() int { return px*1000 + t1*10 + t2 }", a, b)); e != "" {
				return e
			}
			if e := call("natives yielding more than declared (top level)", "main.getp", fmt.Sprint((a+40)*1000+12)); e != "" {
				return e
			}
			return call("natives yielding more than declared (inside a function)", "main.w3", fmt.Sprint((b+40)*100+12))
		},
		func() string { // one function value under two names; one of the names is set again
			double := goatlang.NewFunc(1, 1, func(v *goatlang.VM, args []goatlang.Value) goatlang.Value { return I(args[0].Int() * 2) })
			triple := goatlang.NewFunc(1, 1, func(v *goatlang.VM, args []goatlang.Value) goatlang.Value { return I(args[0].Int() * 3) })
			m.VM.Set("main.Double", double)
			m.VM.Set("main.Scale", double)
			kept := m.VM.Get("main.Scale")
			m.VM.Set("main.Scale", triple)
			if e := ev(fmt.Sprintf("dd := Double(%d); ss := Scale(%d); func getdd() int { return dd*1000 + ss }", a, a)); e != "" {
				return e
			}
			if e := call("two names for one native, one of them set again", "main.getdd", fmt.Sprint(a*2*1000+a*3)); e != "" {
				return e
			}
			if o := m.Func(kept, 1, I(b)); o.Failed() || len(o.Rets) != 1 || o.Rets[0] != fmt.Sprint(b*2) {
				return fmt.Sprintf("a function value fetched before its name was set again: Func = %v %s, want %d", o.Rets, core.ErrFirstLine(o.Err), b*2)
			}
			return call("the other name", "main.Double", fmt.Sprint(b*2), I(b))
		},
		func() string { // natives registered by a loader under stock names replace the stock ones
			var seen []string
			vm2 := goatlang.New(goatlang.WithLoaders(func(v *goatlang.VM) {
				v.Set("math.Max", goatlang.NewFunc(2, 1, func(v *goatlang.VM, args []goatlang.Value) goatlang.Value {
					seen = append(seen, "max")
					return goatlang.Float64(args[0].Float64() + args[1].Float64())
				}))
				v.Set("strings.ToLower", goatlang.NewFunc(1, 1, func(v *goatlang.VM, args []goatlang.Value) goatlang.Value {
					seen = append(seen, "lower")
					return goatlang.String("<" + args[0].String() + ">")
				}))
				v.Set("main.own", goatlang.NewFunc(0, 1, func(v *goatlang.VM) goatlang.Value { return I(7) }))
			}))
			var rets []goatlang.Value
			var err error
			if p := core.Guard(func() {
				rets, err = vm2.Eval(core.MapFS(map[string]string{}), "t.go", "import \"math\"; import \"strings\"; x := math.Max(2, 5); y := strings.ToLower(\"AbC\"); z := own(); x; y; z")
			}); p != "" || err != nil {
				return fmt.Sprintf("a VM built with loaders fails: %v %s", err, p)
			}
			if len(rets) != 3 || rets[0].String() != "7" || rets[1].String() != "<AbC>" || rets[2].String() != "7" || len(seen) != 2 {
				return fmt.Sprintf("natives registered by a loader under stock names: the script got %v and the loader's natives ran %v; expected [7 <AbC> 7] and [max lower]", rets, seen)
			}
			return ""
		},
		func() string { // a script variable of function type reassigned
			if e := ev("handler := func(x int) int { return x + 1 }"); e != "" {
				return e
			}
			if e := call("function variable", "main.handler", fmt.Sprint(a+1), I(a)); e != "" {
				return e
			}
			if e := ev("handler = func(x int) int { return x * 10 }"); e != "" {
				return e
			}
			if e := call("function variable after reassignment", "main.handler", fmt.Sprint(a*10), I(a)); e != "" {
				return e
			}
			if e := ev("func setH() { handler = func(x int) int { return x - 1 } }"); e != "" {
				return e
			}
			m.Call("main.setH", 0)
			return call("function variable after reassignment inside a function", "main.handler", fmt.Sprint(a-1), I(a))
		},
		func() string { // methods fetched from an instance by name
			if e := ev(fmt.Sprintf("type T struct { A int }; func (t *T) Get(k int) int { return t.A*100 + k }; func (t *T) Inc() int { t.A++; return t.A }; obj := &T{A: %d}; other := &T{A: 77}", a)); e != "" {
				return e
			}
			obj := m.VM.Get("main.obj")
			var get, inc goatlang.Value
			if p := core.Guard(func() { get, inc = obj.GetAttr("Get"), obj.GetAttr("Inc") }); p != "" {
				return "GetAttr of a method panicked: " + p
			}
			if o := m.Func(get, 1, I(b)); o.Failed() || len(o.Rets) != 1 || o.Rets[0] != fmt.Sprint(a*100+b) {
				return fmt.Sprintf("Func(obj.GetAttr(\"Get\"), %d) = %v %s, want %d", b, o.Rets, core.ErrFirstLine(o.Err), a*100+b)
			}
			if o := m.Func(inc, 1); o.Failed() || len(o.Rets) != 1 || o.Rets[0] != fmt.Sprint(a+1) {
				return fmt.Sprintf("Func(obj.GetAttr(\"Inc\")) = %v %s, want %d", o.Rets, core.ErrFirstLine(o.Err), a+1)
			}
			if got := obj.GetAttr("A").Int(); got != a+1 {
				return fmt.Sprintf("obj.A after Inc fetched by name = %d, want %d", got, a+1)
			}
			if got := m.VM.Get("main.other").GetAttr("A").Int(); got != 77 {
				return fmt.Sprintf("other.A = %d, want 77", got)
			}
			return ""
		},
	}
	if e := ev("nr := 0; func getnr() int { return nr }"); e != "" {
		return e, cs
	}
	core.Shuffle(rng, steps)
	for _, st := range steps[:rng.Range(2, len(steps))] {
		if e := st(); e != "" {
			return e, cs
		}
	}
	return "", cs
}

// c19SortCase: re-entrant comparator callbacks (slices.SortFunc).
func c19SortCase(seed int64, idx int) (string, c19Case) {
	rng := core.Derive(seed, "c19-sort", idx)
	cs := c19Case{Kind: "reentrant-sort", Seed: seed, Idx: idx}
	n := rng.Intn(12)
	var xs []string
	vals := make([]int, n)
	for i := range vals {
		vals[i] = rng.Intn(50) - 25
		xs = append(xs, fmt.Sprint(vals[i]))
	}
	src := fmt.Sprintf(`import "golang.org/x/exp/slices"
calls := 0
func less(a int, b int) bool { calls++; loc := a * 2; return loc < b * 2 }
func run() []int { s := []int{%s}; keep := len(s); slices.SortFunc(s, less); s = append(s, keep); return s }
out := run(); out`, strings.Join(xs, ", "))
	cs.Script = src
	m := core.NewMachine(core.VMOpts{Optimize: rng.Bool(), Obs: core.NewObs(core.SmallBudget, false, nil)})
	o := m.Eval(nil, src)
	if o.Failed() {
		return "sorting through a script comparator fails: " + o.Err + o.Panic, cs
	}
	sorted := append([]int{}, vals...)
	for i := range sorted {
		for j := i + 1; j < len(sorted); j++ {
			if sorted[j] < sorted[i] {
				sorted[i], sorted[j] = sorted[j], sorted[i]
			}
		}
	}
	var want []string
	for _, v := range sorted {
		want = append(want, fmt.Sprint(v))
	}
	want = append(want, fmt.Sprint(n))
	if len(o.Rets) != 1 || o.Rets[0] != "["+strings.Join(want, " ")+"]" {
		return fmt.Sprintf("sorted result %v, expected [%s]", o.Rets, strings.Join(want, " ")), cs
	}
	return "", cs
}

func runC19(r *core.Run) {
	r.SetRule("(1) constructor -> accessor round trips over random and boundary values for Int/Int32/Uint/Uint32/Int8/Byte/Uint8/Float64 (bit patterns)/Bool/String (incl. invalid UTF-8)/Nil/NewSlice/NewMap/Wrap; (2) natives of each of the six NewFunc forms x arity 0-6 x results 0-4 x variadic surplus 0-3 called by scripts as a statement, with multi-assign, inside 1 + f(..)*2, as an argument of another native and in a loop with live locals, recording value, type, order and count of what they receive; (3) Call and Func on functions, variadic functions and a bound method value with every requested result count 0..declared; (4) errors raised in natives (string and error panics), in script code called back from natives, three levels deep, inside loops; VM usable afterwards; (5) re-entrant sort comparators; (8) NewStruct with and without initialisers next to script-made instances of the same type (own fields, stated values, zero values); (10) histories of host calls whose result slices are all read again after every later call; (11) natives registered under package-level names that are also predeclared (print, println), used by bare name; (9) natives whose results are or overlap the argument slice they were given (returned as is, a tail of it, swapped in place, the fixed part of a variadic one); (7) names whose meaning changes between host calls (function defined again with another variadic-ness, Set again, function variable reassigned) reached through Call and Func, and methods fetched from instances with GetAttr; (6) one native re-entered 1-5 levels deep through script code it calls back (Call and Func), each activation re-reading its arguments after the nested one returned; natives are also called as the sole operand of return in a forwarding function, the variadic form with its surplus spread from a slice. non-trivial = every case; distinct by (kind, parameters)")
	r.Assume("the harness knows what it passed and built; misuse the API documents as undefined (negative result counts, lying about argc) is not judged")
	n := r.N(20000, 400000)
	kinds := []func(int64, int) (string, c19Case){c19StructCase, c19EchoCase, c19HostHistory, c19ShadowNative, c19RoundTrip, c19NativeCase, c19NativeCase, c19NativeCase, c19CallCase, c19ErrorCase, c19SortCase, c19ReentrantCase, c19RebindCase}
	core.Parallel((n+99)/100, func(chunk int) {
		for i := chunk * 100; i < (chunk+1)*100 && i < n; i++ {
			f := kinds[i%len(kinds)]
			r.Eval(1)
			var what string
			var cs c19Case
			if p := core.Guard(func() { what, cs = f(r.Seed, i) }); p != "" {
				what = "a Go panic escaped into the host: " + p
				cs = c19Case{Kind: "panic", Seed: r.Seed, Idx: i}
			}
			if what != "" {
				r.Violate(core.Violation{Check: "c19", Index: i, What: cs.Kind + ": " + what, Case: cs})
				continue
			}
			r.Distinct(fmt.Sprint(cs.Kind, cs.Form, cs.Argc, cs.Rets, cs.Extra, cs.Args, cs.Script, i%len(kinds) == 0 && true, cs.Idx*boolInt(cs.Kind == "round-trip")))
			r.Count("kind:"+cs.Kind, 1)
			if cs.Kind == "native" {
				r.Count(fmt.Sprintf("native_form_%d", cs.Form), 1)
			}
			if i%1003 == 0 {
				r.Sample(cs)
			}
		}
	})
}

func boolInt(b bool) int {
	if b {
		return 1
	}
	return 0
}

func replayC19(r *core.Run, v *core.Violation) {
	var cs c19Case
	if err := remarshal(v.Case, &cs); err != nil {
		return
	}
	kinds := []func(int64, int) (string, c19Case){c19StructCase, c19EchoCase, c19HostHistory, c19ShadowNative, c19RoundTrip, c19NativeCase, c19NativeCase, c19NativeCase, c19CallCase, c19ErrorCase, c19SortCase, c19ReentrantCase, c19RebindCase}
	what, c2 := kinds[cs.Idx%len(kinds)](cs.Seed, cs.Idx)
	fmt.Printf("%+v\n", c2)
	if what != "" {
		r.Violate(core.Violation{Check: "c19", What: what, Case: c2})
	}
}
