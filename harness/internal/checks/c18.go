package checks

import (
	"fmt"
	"strings"

	"github.com/philhassey/goatlang"

	"verif/internal/core"
)

// C18 — incremental evaluation equals whole-program evaluation.
//
// Metamorphic oracle: one Eval of the whole text vs successive Evals of its
// chunks on one VM (sharing the WithEvalImports map, as the REPL does).
// Observed: concatenated stdout, the value(s) returned for the final
// expression (with dynamic types), and the final value and dynamic type of
// every global the program defines.

func init() { register("C18", &Check{Run: runC18, Replay: replayC18}) }

type c18Prog struct {
	Lines   []string `json:"statements"`
	Globals []string `json:"globals"`
}

type c18Gen struct {
	r                  *core.Rng
	lines              []string
	ints               []string
	strs               []string
	slices             []string
	maps               []string
	structs            []string // instances
	funcs              []string
	globals            []string
	hasType            bool
	lits               []string
	hasPkgs, hasNamed  bool
	hasShape, hasPrint bool
	hasTwins           bool
	n                  int
}

func (g *c18Gen) name(p string) string   { g.n++; return fmt.Sprintf("%s%d", p, g.n) }
func (g *c18Gen) add(f string, a ...any) { g.lines = append(g.lines, fmt.Sprintf(f, a...)) }

func (g *c18Gen) intExpr() string {
	if len(g.ints) == 0 {
		return fmt.Sprint(g.r.Intn(20))
	}
	a := core.Pick(g.r, g.ints)
	switch g.r.Intn(6) {
	case 0:
		return a
	case 1:
		return fmt.Sprintf("%s + %d", a, g.r.Intn(9))
	case 2:
		return fmt.Sprintf("%s * %s - %d", a, core.Pick(g.r, g.ints), g.r.Intn(5))
	case 3:
		if len(g.slices) > 0 {
			return fmt.Sprintf("len(%s) + %s", core.Pick(g.r, g.slices), a)
		}
		return a + " % 7"
	case 4:
		if len(g.funcs) > 0 {
			return fmt.Sprintf("%s(%s)", core.Pick(g.r, g.funcs), a)
		}
		return a + " << 1"
	default:
		if len(g.structs) > 0 {
			return core.Pick(g.r, g.structs) + ".A + " + a
		}
		return a + " ^ 5"
	}
}

func (g *c18Gen) step() {
	switch k := g.r.Intn(24); {
	case k < 3:
		v := g.name("v")
		switch g.r.Intn(4) {
		case 0:
			g.add("%s := %s", v, g.intExpr())
		case 1:
			g.add("var %s int = %s", v, g.intExpr())
		case 2:
			g.add("var %s int", v)
		default:
			g.add("var %s byte = %d", v, g.r.Intn(256))
			g.add("%s += 200", v)
			g.globals = append(g.globals, v)
			return
		}
		g.ints = append(g.ints, v)
		g.globals = append(g.globals, v)
	case k < 4:
		v := g.name("k")
		g.add("const %s = %d", v, g.r.Intn(50))
		g.ints = append(g.ints, v)
	case k < 5:
		v := g.name("s")
		g.add("%s := %q", v, core.Pick(g.r, []string{"a", "héllo", "", "x y"}))
		g.strs = append(g.strs, v)
		g.globals = append(g.globals, v)
	case k < 6:
		v := g.name("xs")
		g.add("%s := []int{%d, %d}", v, g.r.Intn(9), g.r.Intn(9))
		g.slices = append(g.slices, v)
		g.globals = append(g.globals, v)
	case k < 7:
		v := g.name("m")
		g.add("%s := map[string]int{\"a\": %d}", v, g.r.Intn(9))
		g.maps = append(g.maps, v)
	case k < 8:
		if !g.hasType {
			g.add("type T struct { A int; S string; L []int }")
			g.add("func (t *T) Double() int { return t.A * 2 }")
			g.add("func (t *T) Add(n int) { t.A += n; t.L = append(t.L, n) }")
			g.hasType = true
		}
		v := g.name("p")
		g.add("%s := &T{A: %s, S: \"t\"}", v, g.intExpr())
		g.structs = append(g.structs, v)
		g.globals = append(g.globals, v)
	case k < 9 && g.r.Chance(1, 4) && g.hasType && len(g.ints) > 0:
		// a function with a local type named like the global type, then package-level blocks that use the global one
		f := g.name("lt")
		g.add("func %s() int { type T struct { Q int }; t := &T{Q: %d}; return t.Q }", f, g.r.Intn(9))
		v := ""
		for _, x := range g.ints {
			if x[0] == 'v' {
				v = x
			}
		}
		if v == "" {
			return
		}
		g.add("if %s() >= 0 { q := &T{A: %d, S: \"b\"}; %s += q.A + q.Double() }", f, g.r.Intn(9), v)
		g.add("for i := 0; i < 2; i++ { q := &T{A: i}; q.Add(%s()); %s += q.A }", f, v)
	case k < 9 && g.r.Chance(1, 8) && !g.hasTwins:
		// two independent packages: one imports a third under an alias, the other uses that alias's name for a
		// variable of its own
		g.hasTwins = true
		g.add("import \"alpha\"")
		g.add("println(alpha.Tag(), alpha.Twice(%d))", g.r.Intn(9))
		g.add("import \"beta\"")
		g.add("println(beta.Tag(), beta.Twice(%d), alpha.Tag())", g.r.Intn(9))
	case k < 9 && g.r.Chance(1, 6) && !g.hasShape:
		// a package and another package that imports it, imported by separate statements: the later import
		// meets the first package's types again
		g.hasShape = true
		g.add("import \"shape\"")
		b1 := g.name("bx")
		g.add("%s := shape.New(%d)", b1, g.r.Intn(9))
		g.add("%s.Tag = \"first\"", b1)
		g.add("import \"draw\"")
		b2 := g.name("bx")
		g.add("%s := draw.Make(%d)", b2, g.r.Intn(9))
		g.add("fmt.Println(%s, %s, %s.Area(), draw.Count())", b1, b2, b1)
		g.add("%s := &shape.Box{H: 4}", g.name("bx"))
		g.add("fmt.Println(shape.New(1), %s.W+%s.H)", b2, b1)
	case k < 9 && g.r.Chance(1, 5):
		// variables and types of function type without results: such a statement may be the last text of a chunk
		v := g.name("cb")
		switch g.r.Intn(3) {
		case 0:
			g.add("var %s func()", v)
		case 1:
			g.add("var %s func(int)", v)
		default:
			g.add("type %s func(int, string)", g.name("H"))
			g.add("var %s func(int) int", v)
		}
		g.add("println(%s == nil)", v)
	case k < 9 && g.r.Chance(1, 6) && !g.hasPrint:
		// a package-level function named like the predeclared print: from its declaration on the name is the package's
		g.hasPrint = true
		g.add("func print(a int) int { return a*3 + 1 }")
		g.add("println(print(%d))", g.r.Intn(9))
		v := g.name("v")
		g.add("%s := print(%d) + print(1)", v, g.r.Intn(9))
		g.ints, g.globals = append(g.ints, v), append(g.globals, v)
	case k < 9 && g.r.Chance(1, 4):
		// constant blocks that count with iota (each block counts from zero)
		a, b, c := g.name("c"), g.name("c"), g.name("c")
		switch g.r.Intn(3) {
		case 0:
			g.add("const (\n\t%s = iota\n\t%s\n\t%s\n)", a, b, c)
		case 1:
			g.add("const (\n\t%s = iota * 10\n\t%s\n\t%s\n)", a, b, c)
		default:
			g.add("const (\n\t%s = 1 << iota\n\t%s\n\t%s\n)", a, b, c)
		}
		g.add("println(%s, %s, %s)", a, b, c)
		g.ints = append(g.ints, b, c)
	case k < 9 && g.r.Chance(1, 5) && !g.hasPkgs:
		// script packages imported by separate statements (two of them share their package name)
		g.hasPkgs = true
		g.add("import (cw \"wire/codec\")")
		g.add("println(cw.Tag, cw.Size(%d))", g.r.Intn(9))
		g.add("import (cd \"disk/codec\")")
		g.add("println(cd.Tag, cd.Size(%d), cw.Tag)", g.r.Intn(9))
		g.add("import \"util\"")
		g.add("println(util.Inc(), util.Count)")
	case k < 9 && g.r.Chance(1, 5) && !g.hasNamed:
		// named scalar types: a block-local type of the same name, the type declared again, identical statements
		// before and after it
		g.hasNamed = true
		g.add("type Nf float64")
		g.add("type U int8")
		g.add("nacc := 0")
		g.add("nacc += int(U(200))")
		g.add("if nacc < 0 { type Nf byte; var q Nf = 200; q += 100; println(\"blk\", q) }")
		g.add("var wn Nf = 7")
		g.add("println(wn / 2)")
		g.add("type U uint8")
		g.add("nacc += int(U(200))")
		g.add("println(nacc)")
		g.globals = append(g.globals, "nacc", "wn")
	case k < 9 && g.r.Chance(1, 4) && len(g.ints) > 0:
		// an init function runs where it stands
		v := ""
		for _, x := range g.ints {
			if x[0] == 'v' {
				v = x
			}
		}
		if v == "" {
			return
		}
		g.add("func init() { %s = %s*2 + %d }", v, v, g.r.Intn(9))
		g.add("println(%q, %s)", g.name("o"), v)
	case k < 9 && g.r.Chance(1, 3):
		// a function literal that declares a type of its own; several literals use the same type name
		// (each literal of a program starts at a column of its own: literals at one position of different
		// chunks are the recorded finding K05, pinned separately)
		f := g.name("lit" + strings.Repeat("x", len(g.lits)))
		fld := core.Pick(g.r, []string{"id int", "name string", "w float64", "id int; name string"})
		init := map[string]string{"id int": "id: a", "name string": "name: fmt.Sprint(a)", "w float64": "w: 0.5", "id int; name string": "id: a, name: \"n\""}[fld]
		g.add("%s := func(a int) string { type rec struct { %s }; r := &rec{%s}; return fmt.Sprint(r) }", f, fld, init)
		g.add("println(%s(%d))", f, g.r.Intn(9))
		g.lits = append(g.lits, f)
	case k < 9:
		f := g.name("f")
		body := "a + 1"
		if len(g.ints) > 0 {
			body = "a*2 + " + core.Pick(g.r, g.ints)
		}
		if len(g.funcs) > 0 && g.r.Bool() {
			body = core.Pick(g.r, g.funcs) + "(a) - 3"
		}
		g.add("func %s(a int) int { return %s }", f, body)
		g.funcs = append(g.funcs, f)
	case k < 12 && len(g.ints) > 0:
		// assignments to non-constant ints
		var vars []string
		for _, v := range g.ints {
			if v[0] == 'v' {
				vars = append(vars, v)
			}
		}
		if len(vars) == 0 {
			return
		}
		v := core.Pick(g.r, vars)
		switch g.r.Intn(4) {
		case 0:
			g.add("%s = %s", v, g.intExpr())
		case 1:
			g.add("%s += %s", v, g.intExpr())
		case 2:
			g.add("%s++", v)
		default:
			g.add("%s, %s = %s, %s", v, core.Pick(g.r, vars), g.intExpr(), v)
		}
	case k < 13 && len(g.slices) > 0:
		s := core.Pick(g.r, g.slices)
		if g.r.Bool() {
			g.add("%s = append(%s, %s)", s, s, g.intExpr())
		} else {
			g.add("%s[0] = %s", s, g.intExpr())
		}
	case k < 14 && len(g.maps) > 0:
		m := core.Pick(g.r, g.maps)
		switch g.r.Intn(3) {
		case 0:
			g.add("%s[\"a\"] = %s", m, g.intExpr())
		case 1:
			g.add("%s[\"a\"]++", m)
		default:
			g.add("delete(%s, \"zz\")", m)
		}
	case k < 15 && len(g.structs) > 0:
		p := core.Pick(g.r, g.structs)
		switch g.r.Intn(3) {
		case 0:
			g.add("%s.A += %s", p, g.intExpr())
		case 1:
			g.add("%s.Add(%s)", p, g.intExpr())
		default:
			g.add("%s.S = %s.S + \"!\"", p, p)
		}
	case k < 17:
		// control statements with block-local variables
		var vars []string
		for _, v := range g.ints {
			if v[0] == 'v' {
				vars = append(vars, v)
			}
		}
		if len(vars) == 0 {
			return
		}
		v := core.Pick(g.r, vars)
		if g.r.Chance(1, 4) {
			// a block header variable named like an existing global: inside the block it is the block's own
			// variable, afterwards the global again
			w := core.Pick(g.r, vars)
			switch g.r.Intn(3) {
			case 0:
				g.add("for %s := 0; %s < %d; %s++ { print(%s) }", w, w, g.r.Range(1, 4), w, w)
			case 1:
				g.add("if %s := %s; %s %% 2 == 0 { print(\"e\", %s) } else { print(\"o\", %s) }", w, g.intExpr(), w, w, w)
			default:
				g.add("for %s, e := range []int{4, 5} { print(%s + e) }", w, w)
			}
			g.add("println(%s)", w)
			return
		}
		switch g.r.Intn(5) {
		case 0:
			g.add("if %s > %d { t := %s * 2; %s = t - 1 } else { %s = %s + 100 }", g.intExpr(), g.r.Intn(40), v, v, v, v)
		case 1:
			g.add("for i := 0; i < %d; i++ { t := i * 2; %s += t }", g.r.Range(1, 4), v)
		case 2:
			if len(g.slices) > 0 {
				g.add("for i, e := range %s { %s += i + e }", core.Pick(g.r, g.slices), v)
			} else {
				g.add("for { %s++; if %s %% 3 == 0 { break } }", v, v)
			}
		case 3:
			g.add("switch %s %% 3 { case 0: %s += 1; case 1, 2: t := 5; %s -= t; default: %s = 0 }", g.intExpr(), v, v, v)
		default:
			g.add("if t := %s; t %% 2 == 0 { %s = t } else if t > 10 { %s = -t }", g.intExpr(), v, v)
		}
	case k < 20:
		var as []string
		as = append(as, fmt.Sprintf("%q", g.name("o")))
		for i := g.r.Range(1, 3); i > 0; i-- {
			switch g.r.Intn(4) {
			case 0:
				if len(g.strs) > 0 {
					as = append(as, core.Pick(g.r, g.strs))
					continue
				}
				fallthrough
			case 1:
				if len(g.slices) > 0 {
					as = append(as, core.Pick(g.r, g.slices))
					continue
				}
				fallthrough
			default:
				as = append(as, g.intExpr())
			}
		}
		if g.r.Bool() {
			g.add("fmt.Println(%s)", strings.Join(as, ", "))
		} else {
			g.add("println(%s)", strings.Join(as, ", "))
		}
	case k < 21 && len(g.funcs) > 0:
		g.add("%s(%s)", core.Pick(g.r, g.funcs), g.intExpr())
	case k < 22 && len(g.strs) > 0:
		s := core.Pick(g.r, g.strs)
		g.add("%s += fmt.Sprint(%s)", s, g.intExpr())
	default:
		if len(g.structs) > 0 {
			v := g.name("v")
			g.add("%s := %s.Double()", v, core.Pick(g.r, g.structs))
			g.ints = append(g.ints, v)
			g.globals = append(g.globals, v)
		}
	}
}

func c18Generate(seed int64, idx int) c18Prog {
	g := &c18Gen{r: core.Derive(seed, "c18", idx)}
	if g.r.Chance(1, 4) {
		g.add("package main") // a program text may begin with its package clause
	}
	g.add("import \"fmt\"")
	n := g.r.Range(4, 14)
	if g.r.Chance(1, 15) {
		// a long program: block-local variables of top-level statements are not recycled inside one compile
		// unit, so slot numbers grow past 7 and 8 bits in the whole-program evaluation only
		g.add("acc := 0")
		g.add("xs0 := []int{3, 4}")
		g.ints, g.globals, g.slices = append(g.ints, "acc"), append(g.globals, "acc", "xs0"), append(g.slices, "xs0")
		for i, m := 0, g.r.Range(50, 140); i < m; i++ {
			switch g.r.Intn(3) {
			case 0:
				g.add("for i := 0; i < 2; i++ { t := i + %d; acc += t }", i)
			case 1:
				g.add("if u := acc + %d; u > 0 { w := u %% 7; acc += w }", i)
			default:
				g.add("for k, e := range xs0 { acc += k*e + %d }", i)
			}
		}
		g.add("for k, e := range xs0 { println(k, e, acc) }")
		n = len(g.lines) + g.r.Range(2, 6)
	}
	for len(g.lines) < n {
		g.step()
	}
	for _, l := range g.lits {
		g.add("println(%s(%d))", l, g.r.Intn(9))
	}
	// final non-call expression
	switch g.r.Intn(4) {
	case 0:
		if len(g.slices) > 0 {
			g.add("%s", core.Pick(g.r, g.slices))
			break
		}
		fallthrough
	case 1:
		if len(g.strs) > 0 {
			g.add("%s + \"$\"", core.Pick(g.r, g.strs))
			break
		}
		fallthrough
	default:
		g.add("%s * 2", g.intExpr())
	}
	return c18Prog{Lines: g.lines, Globals: g.globals}
}

type c18Obs struct {
	Out     string            `json:"stdout"`
	Rets    string            `json:"returned"`
	Err     string            `json:"err,omitempty"`
	Globals map[string]string `json:"globals"`
}

// c18FS: two script packages with one package name under different import paths, and a third one.
var c18FS = core.MapFS(map[string]string{
	"wire/codec/codec.go": "package codec\n\nvar Tag = \"wire\"\n\nfunc Size(n int) int {\n\treturn n + 1\n}\n",
	"disk/codec/codec.go": "package codec\n\nvar Tag = \"disk\"\n\nfunc Size(n int) int {\n\treturn n * 4\n}\n",
	"util/util.go":        "package util\n\nvar Count = 10\n\nfunc Inc() int {\n\tCount++\n\treturn Count\n}\n",
	"a0pkg/a0.go":         "package a0pkg\n\nfunc Tag() string {\n\treturn \"package a0\"\n}\n\nfunc Twice(n int) int {\n\treturn n * 2\n}\n",
	"alpha/alpha.go":      "package alpha\n\nimport (\n\ta0 \"a0pkg\"\n)\n\nfunc Tag() string {\n\treturn \"alpha:\" + a0.Tag()\n}\n\nfunc Twice(n int) int {\n\treturn a0.Twice(n) + 1\n}\n",
	"beta/beta.go":        "package beta\n\ntype tg struct {\n\tk int\n}\n\nfunc (t *tg) Tag() string {\n\treturn \"variable a0\"\n}\n\nfunc (t *tg) Twice(n int) int {\n\treturn n*20 + t.k\n}\n\nvar a0 = &tg{k: 3}\n\nfunc Tag() string {\n\treturn \"beta:\" + a0.Tag()\n}\n\nfunc Twice(n int) int {\n\treturn a0.Twice(n)\n}\n",
	"shape/shape.go":      "package shape\n\ntype Box struct {\n\tW int\n\tH int\n\tTag string\n}\n\nfunc (b *Box) Area() int {\n\treturn b.W * b.H\n}\n\nfunc New(w int) *Box {\n\treturn &Box{W: w, H: w + 1, Tag: \"box\"}\n}\n",
	"draw/draw.go":        "package draw\n\nimport \"shape\"\n\nvar made int\n\nfunc Make(n int) *shape.Box {\n\tmade++\n\tb := shape.New(n)\n\tb.Tag = \"drawn\"\n\treturn b\n}\n\nfunc Count() int {\n\treturn made\n}\n",
})

func c18Run(p c18Prog, cuts []int) (c18Obs, bool) {
	m := core.NewMachine(core.VMOpts{Optimize: true, Obs: core.NewObs(core.SmallBudget, false, nil)})
	imports := map[string]string{}
	var obs c18Obs
	bounds := append(append([]int{0}, cuts...), len(p.Lines))
	var last core.Outcome
	for i := 0; i+1 < len(bounds); i++ {
		chunk := strings.Join(p.Lines[bounds[i]:bounds[i+1]], "\n")
		last = m.Eval(c18FS, chunk, goatlang.WithEvalImports(imports))
		if last.Panic != "" {
			obs.Err = "PANIC " + last.Panic
			return obs, false
		}
		if last.Budget {
			return obs, true
		}
		if last.Err != "" {
			obs.Err = fmt.Sprintf("chunk %d: %s", i, normErr(last.Err))
			break
		}
	}
	obs.Out = m.Out.String()
	obs.Rets = normRets(last.Rets, last.Types) + " :: " + strings.Join(last.Types, ",")
	obs.Globals = map[string]string{}
	for _, g := range p.Globals {
		v := m.VM.Get("main." + g)
		var s, t string
		core.Guard(func() { s, t = v.String(), m.VM.VerifTypeOf(v) })
		obs.Globals[g] = s + " (" + t + ")"
	}
	return obs, false
}

func c18Equal(a, b c18Obs) string {
	switch {
	case strings.HasPrefix(a.Err, "PANIC") || strings.HasPrefix(b.Err, "PANIC"):
		return "a Go panic escaped Eval"
	case (a.Err == "") != (b.Err == ""):
		return "one way of feeding the program fails, the other succeeds"
	case a.Out != b.Out:
		return "printed output differs"
	case a.Err == "" && a.Rets != b.Rets:
		return "the value returned for the last expression differs"
	}
	for k, v := range a.Globals {
		if b.Globals[k] != v {
			return "the final value of global " + k + " differs"
		}
	}
	return ""
}

type c18Case struct {
	Prog c18Prog `json:"program"`
	Cuts []int   `json:"cuts"`
}

func runC18(r *core.Run) {
	r.SetRule("generated sequences of 5-15 single-line top-level statements (import, const, var with and without initialiser, :=, typed byte arithmetic, assignments, op-assign, parallel assignment, if/else-if with init, for, range, switch with multi-value cases - all with block-local variables -, function, method and type definitions before use, calls, slice/map/struct mutation, printing, block header variables named like existing globals, function literals declaring same-named local types, functions with a local type named like a global one followed by package-level blocks using the global one, init functions between statements, script packages imported by separate statements (two sharing a package name), named scalar types with a block-local namesake and a later re-declaration around identical statements, a final non-call expression); one program in fifteen is long (50-140 top-level block statements before further range loops); every set of cut points between statements for programs of up to 8 statements, 64 random cut sets beyond. non-trivial = the whole-program evaluation succeeds and defines at least one global; distinct by (program, cut set)")
	r.Assume("metamorphic relation; cuts fall only on top-level statement boundaries; successive Evals share one WithEvalImports map as the REPL does")
	n := r.N(400, 12000)
	core.Parallel(n, func(i int) {
		p := c18Generate(r.Seed, i)
		whole, budget := c18Run(p, nil)
		if budget {
			r.Inconclusive("vm_budget")
			return
		}
		gaps := len(p.Lines) - 1
		var cutSets [][]int
		if gaps <= 7 {
			for mask := 1; mask < 1<<uint(gaps); mask++ {
				var cs []int
				for b := 0; b < gaps; b++ {
					if mask>>uint(b)&1 == 1 {
						cs = append(cs, b+1)
					}
				}
				cutSets = append(cutSets, cs)
			}
			r.Count("programs_with_all_cut_sets", 1)
		} else {
			rng := core.Derive(r.Seed, "c18-cuts", i)
			// always: one statement at a time
			var all []int
			for b := 1; b <= gaps; b++ {
				all = append(all, b)
			}
			cutSets = append(cutSets, all)
			for k := 0; k < 63; k++ {
				var cs []int
				for b := 1; b <= gaps; b++ {
					if rng.Bool() {
						cs = append(cs, b)
					}
				}
				if len(cs) > 0 {
					cutSets = append(cutSets, cs)
				}
			}
		}
		for _, cs := range cutSets {
			got, budget := c18Run(p, cs)
			r.Eval(1)
			if budget {
				r.Inconclusive("vm_budget")
				continue
			}
			if what := c18Equal(whole, got); what != "" {
				r.Violate(core.Violation{Check: "c18", Index: i, What: what, Case: c18Case{Prog: p, Cuts: cs}, Expected: whole, Observed: got})
				return
			}
			if whole.Err == "" && len(p.Globals) > 0 {
				r.Distinct(fmt.Sprint(p.Lines, cs))
			}
		}
		if i%97 == 0 {
			r.Sample(map[string]any{"statements": p.Lines, "cut_sets_tried": len(cutSets), "whole_program_result": whole.Rets})
		}
	})
	// recorded finding K05: literals at the same position of different chunks share their local types
	{
		k05 := c18Prog{Lines: []string{"import \"fmt\"", "a := func() string { type rec struct { w float64 }; return fmt.Sprint(&rec{w: 0.5}) }", "b := func() string { type rec struct { id int }; return fmt.Sprint(&rec{id: 5}) }", "println(a(), b())"}}
		whole, _ := c18Run(k05, nil)
		parts, _ := c18Run(k05, []int{1, 2, 3})
		r.Eval(1)
		if what := c18Equal(whole, parts); what != "" {
			if r.Findings().Open("K05") {
				r.KnownFinding("K05")
			} else {
				r.Violate(core.Violation{Check: "c18-k05", What: what, Case: c18Case{Prog: k05, Cuts: []int{1, 2, 3}}, Expected: whole, Observed: parts})
			}
		}
	}
	r.SetExhaustive(true)
	r.SetObserved("exhaustive_scope", "all 2^(n-1)-1 cut sets for every generated program with n <= 8 statements; 64 cut sets (always including one-statement-at-a-time) for longer programs")
}

func replayC18(r *core.Run, v *core.Violation) {
	var c c18Case
	if err := remarshal(v.Case, &c); err != nil {
		return
	}
	whole, _ := c18Run(c.Prog, nil)
	got, _ := c18Run(c.Prog, c.Cuts)
	fmt.Printf("whole: %+v\nchunked: %+v\n", whole, got)
	if what := c18Equal(whole, got); what != "" {
		r.Violate(core.Violation{Check: "c18", What: what, Case: c})
	}
}
