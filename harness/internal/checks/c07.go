package checks

import (
	"fmt"
	"strings"

	"github.com/philhassey/goatlang"

	"verif/internal/core"
	"verif/internal/gen"
	"verif/internal/mon"
)

// C07 — statements are stack-neutral and call frames are isolated.
//
// Observed: every executed instruction (verif step hook) with the operand
// depth before and after, operands, jump targets, slot indexes, call/return
// boundaries and the caller's locals. Oracle: the online trace specification
// in internal/mon (T1..T7, T9: a new frame starts with blank local slots) plus T8 (no residual values) — independent of the
// compiler, it only looks at what executes.

func init() { register("C07", &Check{Run: runC07, Replay: replayC07}) }

type c07Case struct {
	Kind     string            `json:"kind"` // program | eval
	Files    map[string]string `json:"files,omitempty"`
	Main     string            `json:"main_dir,omitempty"`
	Src      string            `json:"src,omitempty"`
	Optimize bool              `json:"optimize"`
	Stmts    bool              `json:"statements_only,omitempty"`
	Force    []bool            `json:"force,omitempty"`
	RandTail int               `json:"random_tail_index,omitempty"`
}

var c07Budget = core.Budget{MaxSteps: 200_000, MaxDepth: 600, MaxLen: 1 << 15, MaxOut: 1 << 20}
var c07ForcedBudget = core.Budget{MaxSteps: 12_000, MaxDepth: 300, MaxLen: 1 << 14, MaxOut: 1 << 18}

type c07Stats struct {
	cov       mon.Coverage
	forced    int
	runs      int
	steps     int
	unmod     map[string]int
	nontriv   bool
	budgetHit int
}

// c07Run executes one case under the monitor. forceLen>0 additionally
// re-runs main.main under every decision vector up to that length and nRand
// random-tail vectors. It returns the first finding (if any) and the case
// that produced it.
func c07Run(r *core.Run, c c07Case, forceLen, nRand int, seedIdx int) (*mon.Finding, c07Case, c07Stats) {
	var st c07Stats
	m := mon.New()
	obs := core.NewObs(c07Budget, false, m)
	vm := core.NewMachine(core.VMOpts{Optimize: c.Optimize, Obs: obs})
	var o core.Outcome
	if c.Kind == "eval" {
		c07RegisterNatives(vm)
	}
	if c.Kind == "program" {
		o = vm.LoadMain(core.MapFS(c.Files), c.Main)
	} else {
		o = vm.Eval(core.MapFS(c.Files), c.Src)
	}
	st.runs++
	if o.Budget {
		st.budgetHit++
	}
	done := func() {
		st.cov, st.unmod, st.forced, st.steps = m.Coverage(), m.Unmodelled, m.Forced, m.Steps
		st.nontriv = st.cov.Visited >= 10
	}
	if o.Panic != "" {
		f := &mon.Finding{Rule: "host", What: "a Go panic escaped: " + o.Panic}
		done()
		return f, c, st
	}
	if len(m.Findings) > 0 {
		done()
		return &m.Findings[0], c, st
	}
	// T8: a program made only of statements leaves nothing behind
	if c.Kind == "eval" && c.Stmts && !o.Failed() && (len(o.Rets) > 0 || m.Residual != 0) {
		done()
		return &mon.Finding{Rule: "T8", What: fmt.Sprintf("a program made only of statements returned %d residual value(s): %v", len(o.Rets), o.Rets)}, c, st
	}
	if c.Kind == "program" && strings.Contains(o.Err, "unexpected returns") {
		done()
		return &mon.Finding{Rule: "T8", What: "a program made only of statements left residual values: " + core.ErrFirstLine(o.Err)}, c, st
	}
	if c.Kind == "program" && !o.Failed() && forceLen > 0 {
		obs.Budget = c07ForcedBudget
		runForced := func(bits []bool, tail *core.Rng, tailIdx int) *mon.Finding {
			m.SetForce(bits, tail)
			vm.Call("main.main", 0)
			st.runs++
			if len(m.Findings) > 0 {
				return &m.Findings[0]
			}
			return nil
		}
		for l := 1; l <= forceLen; l++ {
			for code := 0; code < 1<<uint(l); code++ {
				bits := make([]bool, l)
				for i := range bits {
					bits[i] = code>>uint(i)&1 == 1
				}
				if f := runForced(bits, nil, 0); f != nil {
					fc := c
					fc.Force = bits
					done()
					return f, fc, st
				}
			}
		}
		for k := 0; k < nRand; k++ {
			tail := core.Derive(r.Seed, "c07-tail", seedIdx*1000+k)
			if f := runForced(nil, tail, seedIdx*1000+k); f != nil {
				fc := c
				fc.RandTail = seedIdx*1000 + k + 1
				done()
				return f, fc, st
			}
		}
		m.SetForce(nil, nil)
	}
	done()
	return nil, c, st
}

// c07Snippets are Eval inputs aimed at constructs whose stack effect is easy
// to get wrong.
var c07Snippets = []string{
	// a sort whose comparator sorts: every comparator activation has locals of its own
	"import \"golang.org/x/exp/slices\"\nfunc best(t []int) int { c := append([]int{}, t...); slices.SortFunc(c, func(a int, b int) bool { d := a * 2; return d > b*2 }); return c[0] }\nteams := [][]int{{1, 5}, {9, 2}, {3, 3}, {7, 8}, {0, 4}}\nfor round := 0; round < 2; round++ { slices.SortFunc(teams, func(a []int, b []int) bool { x := best(a); y := best(b); keep := x*100 + y; return keep/100 < keep%100 }) }\nw := teams[0][0]\n_ = w",
	// the comma-ok forms of a map lookup written as var declarations
	`m := map[string]int{"a": 1}; func f() int { var v, ok = m["a"]; var w, ok2 = m["zz"]; if ok && !ok2 { return v + w }; return -1 }; for i := 0; i < 3; i++ { var a, b = m["a"]; var c, d int = 1, 2; _, _, _, _ = a, b, c, d; x := f(); _ = x }`,
	// spread calls in every position a call can take: statement, value, sole operand of return, with other operands, method, nested
	`func f(xs ...int) int { t := 0; for _, x := range xs { t += x }; return t }; func g(xs ...int) int { return f(xs...) }; func h(a int, xs ...int) (int, int) { return f(xs...), a }; func k(xs ...int) (int, int) { return h(1, xs...) }; type T struct { X int }; func (t *T) M(xs ...int) int { return f(xs...) + t.X }; func (t *T) N(xs ...int) int { return t.M(xs...) }; t := &T{X: 1}; for i := 0; i < 3; i++ { s := []int{4, 5, i}; a := g(s...); b, c := k(s...); d := t.N(s...); g(s...); k(); _, _, _, _ = a, b, c, d; var none []int; e := g(none...); _ = e }`,
	// a local assigned to itself plus and minus several constants, at every nesting a statement can have
	`func st(n int) int { n = n + 1 + 1; if n > 2 { n = n - 2 + 1 }; for i := 0; i < 2; i++ { n = n + 1 + 2 + 3; switch { case n > 5: n = n - 1 - 1; default: n = n + 2 - 1 } }; return n }; x := st(1) + st(40); _ = x`,
	`func c(a []int, b []int) int { return copy(a, b) }; func c2(a []int, b []int) (int, int) { n := copy(a, b); return copy(b, a), n }; s := []int{1, 2, 3, 4}; for i := 0; i < 3; i++ { n := c(s, s[1:]); p, q := c2(s[i:], s); _, _, _ = n, p, q; c(s, nil) }`,
	`s := 0; for i := 0; i < 3; i++ { s += over1(i); over1(i); over0(i); a := over1(i)*2 + i; b, c := over2(a); _, _, _ = a, b, c; if over1(i) > 100 { break } }`,
	`func w(n int) int { return over1(n) }; func w2(n int) (int, int) { return over2(n) }; for i := 0; i < 3; i++ { a := w(i); b, c := w2(i); w(a + b + c) }`,
	`n := 0; func inc() int { n++; return n }; for inc(); n < 5; inc() { }; if inc(); n > 0 { n = 0 }`,
	`func ok(a int) bool { return a > 1 }; for i := 0; i < 4; i++ { switch { case ok(i): i = i + 0; case i == 0, i == 1: i += 0; default: } }`,
	`for i := 0; i < 4; i++ { switch i { case 1, 2, 3: if i == 2 { break }; default: if i == 0 { continue } } }`,
	`func two() (int, int) { return 1, 2 }; for i := 0; i < 3; i++ { _, b := two(); a, _ := two(); _, _ = a, b; two() }`,
	`m := map[string]int{"a": 1}; for i := 0; i < 3; i++ { _, ok := m["a"]; v, _ := m["b"]; _, _ = v, ok; delete(m, "zz") }`,
	`func f(xs ...int) int { t := 0; for _, x := range xs { t += x }; return t }; for i := 0; i < 3; i++ { f(); f(1); f(1, 2, 3); s := []int{4, 5}; f(s...) }`,
	`type T struct { X int }; func (t *T) M(a int, b int) (int, int) { return a + t.X, b }; t := &T{X: 1}; for i := 0; i < 3; i++ { t.M(1, 2); a, b := t.M(3, 4); m := t.M; m(5, 6); _, _ = a, b }`,
	`s := []int{1, 2, 3}; for i := range s { a := s[i:]; b := append(a, 1, 2); n := copy(b, a); copy(b, a); _ = n; x := len(b) > 2 && b[0] > 0 || i == 1; _ = x }`,
	`func r(n int) int { if n <= 0 { return 0 }; for i := 0; i < 2; i++ { if i == 1 { return n + r(n-1) } }; return -1 }; x := r(20); _ = x`,
	`func f(a int) (int, string) { switch { case a < 0: return -1, "neg"; case a == 0: return 0, "zero" }; for { if a > 10 { break }; a++ }; return a, "pos" }; for i := -1; i < 2; i++ { f(i) }`,
}

// c07WideProgram: functions whose frames are wide (100-300 local slots, slot numbers beyond 7 and 8 bits),
// calling each other with many arguments and results, with range loops, function literals and method calls
// placed after the many declarations, and a caller that itself has many live locals below the callee's frame.
func c07WideProgram(rng *core.Rng, id int) *gen.Program {
	var sb strings.Builder
	sb.WriteString("package main\n\nimport \"fmt\"\n\ntype W struct {\n\tN int\n}\n\n")
	sb.WriteString("func (w *W) Add(a int, b int, c int) (int, int) {\n\tw.N += a\n\treturn w.N + b, c\n}\n\n")
	nBig := rng.Range(100, 300)
	nArgs := rng.Range(1, 12)
	var ps, as []string
	for i := 0; i < nArgs; i++ {
		ps = append(ps, fmt.Sprintf("p%d int", i))
		as = append(as, fmt.Sprint(i+1))
	}
	fmt.Fprintf(&sb, "func big(%s) (int, int, int) {\n", strings.Join(ps, ", "))
	for i := 0; i < nBig; i++ {
		switch rng.Intn(4) {
		case 0:
			fmt.Fprintf(&sb, "\tv%d := p0 + %d\n", i, i)
		case 1:
			fmt.Fprintf(&sb, "\tvar v%d int = %d\n", i, i)
		case 2:
			fmt.Fprintf(&sb, "\tv%d := %d\n\tv%d++\n", i, i, i)
		default:
			fmt.Fprintf(&sb, "\tv%d := p%d * 2\n", i, rng.Intn(nArgs))
		}
		if i > 0 {
			fmt.Fprintf(&sb, "\t_ = v%d\n", i)
		}
	}
	last := nBig - 1
	sb.WriteString("\ts := v0\n")
	fmt.Fprintf(&sb, "\tfor k, e := range []int{3, 4, 5} {\n\t\ts += k*e + v%d\n\t}\n", last)
	sb.WriteString("\tm := map[string]int{\"a\": 1}\n\tfor k2, e2 := range m {\n\t\ts += len(k2) + e2\n\t}\n")
	sb.WriteString("\tfor i3 := range \"ab\" {\n\t\ts += i3\n\t}\n")
	sb.WriteString("\tw := &W{N: 1}\n\tq1, q2 := w.Add(s, 2, 3)\n")
	sb.WriteString("\tlit := func(a int, b int) (int, int) {\n\t\tz := a + b\n\t\treturn z, a\n\t}\n\tl1, l2 := lit(q1, q2)\n")
	fmt.Fprintf(&sb, "\tfor j := 0; j < 2; j++ {\n\t\tt := j + v%d\n\t\tif t > 1000000 {\n\t\t\tcontinue\n\t\t}\n\t\ts += t\n\t}\n", last/2)
	fmt.Fprintf(&sb, "\treturn s + l1, l2 + v%d, w.N\n}\n\n", last)
	nCaller := rng.Range(100, 200)
	sb.WriteString("func caller() int {\n")
	for i := 0; i < nCaller; i++ {
		fmt.Fprintf(&sb, "\ta%d := %d\n", i, i*3+1)
	}
	fmt.Fprintf(&sb, "\tr1, r2, r3 := big(%s)\n\tsum := r1 + r2 + r3\n", strings.Join(as, ", "))
	for i := 0; i < nCaller; i++ {
		fmt.Fprintf(&sb, "\tsum += a%d\n", i)
	}
	sb.WriteString("\treturn sum\n}\n\nfunc main() {\n\tfmt.Println(caller())\n\tfmt.Println(caller())\n}\n")
	dir := fmt.Sprintf("ref/w%06d/cmd%06d", id, id)
	return &gen.Program{Files: map[string]string{dir + "/main.go": sb.String()}, MainDir: dir, Profile: "wide-frames"}
}

// c07RegisterNatives: host functions that leave more on the stack than they declare; the call site still
// gets exactly what it asked for.
func c07RegisterNatives(vm *core.Machine) {
	// host functions that leave more on the stack than they declare: the call site still gets exactly
	// what it asked for
	I := goatlang.Int
	vm.VM.Set("main.over1", goatlang.NewFunc(1, 1, func(v *goatlang.VM, args []goatlang.Value) []goatlang.Value {
		return []goatlang.Value{I(args[0].Int() + 1), I(77), I(88)}
	}))
	vm.VM.Set("main.over0", goatlang.NewFunc(1, 0, func(v *goatlang.VM, args []goatlang.Value) []goatlang.Value {
		return []goatlang.Value{I(99)}
	}))
	vm.VM.Set("main.over2", goatlang.NewFunc(1, 2, func(v *goatlang.VM, args []goatlang.Value) []goatlang.Value {
		return []goatlang.Value{args[0], I(5), I(66), I(67)}
	}))
}

func runC07(r *core.Run) {
	r.SetRule("generated programs of every profile (both optimizer settings) hand-written Eval snippets and wide-frame programs (functions with 100-300 local slots, up to 12 parameters, range loops / literals / method calls after the declarations, called from a frame with 100-200 live locals) run under the VM trace monitor; each generated program is additionally re-run under every branch-decision vector up to a fixed length (forced-branch mode: the hook overwrites the condition before JUMPFALSE/JUMPTRUE/AND/OR) and under random decision tails. non-trivial = at least 10 distinct instructions executed under the monitor; distinct by source text and optimizer setting")
	r.Assume("the trace specification (per-opcode stack effect, depth is a function of pc, slot operands inside the frame, branch targets on instruction starts, RETURN depth, caller locals untouched) is written from the instruction-set semantics in do.go; it is data-independent, so paths forced against the program's own data cannot raise false alarms")
	perProfile := r.N(45, 700)
	forceLen := r.N(5, 8)
	nRand := r.N(6, 40)
	nGen := len(gen.Profiles) * perProfile
	total := mon.Coverage{}
	agg := func(st c07Stats) {
		r.Count("monitored_runs", st.runs)
		r.Count("instructions_executed_under_monitor", st.steps)
		r.Count("branch_conditions_forced", st.forced)
		r.Count("distinct_instructions_executed", st.cov.Visited)
		r.Count("instructions_in_executed_code", st.cov.Instructions)
		r.Count("branch_sites_executed", st.cov.Branches)
		r.Count("branch_sites_taken_both_ways", st.cov.BranchesBoth)
		r.Count("runs_stopped_by_budget", st.budgetHit)
		for k, v := range st.unmod {
			r.Count("unmodelled_opcode:"+k, v)
		}
	}
	_ = total
	decide := func(idx int, c c07Case, fl, nr int, sample bool) {
		f, fc, st := c07Run(r, c, fl, nr, idx)
		r.Eval(1)
		agg(st)
		if f != nil {
			r.Violate(core.Violation{Check: "c07", Index: idx, What: f.Rule + ": " + f.What, Case: fc, Observed: f})
			return
		}
		if st.nontriv {
			key := c.Src
			for _, s := range c.Files {
				key += s
			}
			r.Distinct(fmt.Sprint(c.Optimize) + key)
		}
		if sample {
			src := c.Src
			if c.Kind == "program" {
				src = excerpt(c.Files[c.Main+"/main.go"], 25)
			}
			r.Sample(map[string]any{"kind": c.Kind, "optimize": c.Optimize, "source": src, "monitored_runs": st.runs, "distinct_instructions": st.cov.Visited, "branch_sites_both_ways": st.cov.BranchesBoth})
		}
	}
	core.Parallel(nGen, func(i int) {
		prof := gen.Profiles[i/perProfile]
		rng := core.Derive(r.Seed, "c07-"+prof, i%perProfile)
		p := gen.Generate(rng, i, prof)
		decide(i, c07Case{Kind: "program", Files: p.Files, Main: p.MainDir, Optimize: true}, forceLen, nRand, i%97 == 0)
		decide(i, c07Case{Kind: "program", Files: p.Files, Main: p.MainDir, Optimize: false}, forceLen-2, nRand/2, false)
	})
	var cases []c07Case
	for _, s := range sentinelPrograms(nGen) {
		cases = append(cases, c07Case{Kind: "program", Files: s.Files, Main: s.MainDir, Optimize: true}, c07Case{Kind: "program", Files: s.Files, Main: s.MainDir})
	}
	for _, s := range c07Snippets {
		cases = append(cases, c07Case{Kind: "eval", Src: s, Optimize: true, Stmts: true}, c07Case{Kind: "eval", Src: s, Stmts: true})
	}
	for i := 0; i < r.N(12, 200); i++ {
		w := c07WideProgram(core.Derive(r.Seed, "c07-wide", i), i)
		cases = append(cases, c07Case{Kind: "program", Files: w.Files, Main: w.MainDir, Optimize: true}, c07Case{Kind: "program", Files: w.Files, Main: w.MainDir})
		r.Count("wide_frame_programs", 1)
	}
	// The repository's test strings are not used here: many are deliberately not
	// Go (a bare 'continue', 'for { 42 continue 43 }', functions without
	// return), and C07 speaks about programs from the supported subset. They
	// are inputs of C02 and C03.
	core.Parallel(len(cases), func(i int) {
		decide(nGen+i, cases[i], forceLen, nRand, i%301 == 0)
	})
	if n := r.Counter("instructions_executed_under_monitor"); n == 0 {
		r.Inconclusive("monitor_saw_no_instruction")
	}
}

func replayC07(r *core.Run, v *core.Violation) {
	var c c07Case
	if err := remarshal(v.Case, &c); err != nil {
		return
	}
	m := mon.New()
	obs := core.NewObs(c07Budget, false, m)
	vm := core.NewMachine(core.VMOpts{Optimize: c.Optimize, Obs: obs})
	if c.Kind == "program" {
		vm.LoadMain(core.MapFS(c.Files), c.Main)
		if len(m.Findings) == 0 && (c.Force != nil || c.RandTail > 0) {
			obs.Budget = c07ForcedBudget
			var tail *core.Rng
			if c.RandTail > 0 {
				tail = core.Derive(v.Seed, "c07-tail", c.RandTail-1)
			}
			m.SetForce(c.Force, tail)
			vm.Call("main.main", 0)
		}
	} else {
		c07RegisterNatives(vm)
		vm.Eval(core.MapFS(c.Files), c.Src)
	}
	if len(m.Findings) > 0 {
		f := m.Findings[0]
		r.Violate(core.Violation{Check: "c07", What: f.Rule + ": " + f.What, Case: c, Observed: f})
	}
}
