package checks

import (
	"fmt"
	"strings"

	"github.com/philhassey/goatlang"

	"verif/internal/core"
)

// C12 — struct fields are independent, typed, and shared through references.
//
// Script level: oracle is the Go toolchain (GOARCH=386) on generated struct
// types with 0..200 fields and up to 50 methods, several instances and
// aliases; before goatlang compiles a case the harness interns a random
// number of junk global names so that field and method name indexes land on
// chosen residues (collision chains, wrap-around, growth thresholds of the
// field table). Table level: the field-table implementation (exposed by the
// verif hook) against map[int]Value plus robin-hood structural invariants
// checked after every operation.

func init() { register("C12", &Check{Run: runC12, Replay: replayC12}) }

const c12Prelude = `package main

import "fmt"

func hdr(id string) {
	fmt.Println("==", id)
}

`

type c12FieldT struct {
	name string
	lits []string
	show func(e string) string
	mut  func(e string) string // a statement mutating e in a type-revealing way
}

var c12FieldTypes = []c12FieldT{
	{"int", []string{"7", "-3", "2147483647"}, func(e string) string { return e }, func(e string) string { return e + " += 2147483647" }},
	{"byte", []string{"200", "255", "1"}, func(e string) string { return e }, func(e string) string { return e + " += 100" }},
	{"int8", []string{"-128", "127", "5"}, func(e string) string { return e }, func(e string) string { return e + "--" }},
	{"uint32", []string{"4000000000", "0"}, func(e string) string { return e }, func(e string) string { return e + " -= 5" }},
	{"float64", []string{"1.5", "2", "-0.25"}, func(e string) string { return e }, func(e string) string { return e + " /= 4" }},
	{"string", []string{`"a"`, `"héllo"`, `""`}, func(e string) string { return e + ", len(" + e + ")" }, func(e string) string { return e + ` += "+"` }},
	{"bool", []string{"true", "false"}, func(e string) string { return e }, func(e string) string { return e + " = !" + e }},
	{"[]int", []string{"[]int{1, 2}", "nil", "[]int{}"}, func(e string) string { return e + ", len(" + e + "), " + e + " == nil" }, func(e string) string { return e + " = append(" + e + ", 9)" }},
	{"map[string]int", []string{`map[string]int{"k": 1}`, "nil"}, func(e string) string { return "len(" + e + "), " + e + " == nil" }, func(e string) string { return e + ` = map[string]int{"z": 2, "y": 3}` }},
}

func c12Case(seed int64, idx int) (packedCase, int) {
	rng := core.Derive(seed, "c12", idx)
	T := fmt.Sprintf("T%d", idx)
	var nf int
	switch rng.Intn(6) {
	case 0:
		nf = rng.Intn(4)
	case 1:
		nf = rng.Range(10, 14) // first growth threshold (12)
	case 2:
		nf = rng.Range(22, 26)
	case 3:
		nf = rng.Range(46, 50)
	case 4:
		nf = rng.Range(94, 98)
	default:
		nf = rng.Range(5, 200)
	}
	nm := rng.Intn(6)
	if rng.Chance(1, 6) {
		nm = rng.Range(10, 50)
	}
	types := make([]c12FieldT, nf)
	var sb strings.Builder
	fmt.Fprintf(&sb, "type %s struct {\n", T)
	for i := 0; i < nf; i++ {
		types[i] = core.Pick(rng, c12FieldTypes)
		fmt.Fprintf(&sb, "\tF%dx%d %s\n", idx, i, types[i].name)
	}
	if rng.Bool() {
		fmt.Fprintf(&sb, "\tNext%d *%s\n", idx, T)
	}
	sb.WriteString("}\n\n")
	hasNext := strings.Contains(sb.String(), fmt.Sprintf("Next%d", idx))
	fname := func(i int) string { return fmt.Sprintf("F%dx%d", idx, i) }
	for m := 0; m < nm; m++ {
		if nf > 0 {
			f := rng.Intn(nf)
			fmt.Fprintf(&sb, "func (r *%s) M%dx%d() {\n\tfmt.Println(\"M%d\", %s)\n\t%s\n}\n\n", T, idx, m, m, types[f].show("r."+fname(f)), types[f].mut("r."+fname(f)))
		} else {
			fmt.Fprintf(&sb, "func (r *%s) M%dx%d() {\n\tfmt.Println(\"M%d\", r != nil)\n}\n\n", T, idx, m, m)
		}
	}
	// a method with a variadic tail that stores what it was given in a field (called below through locals, a field
	// and an alias, with no, one and several surplus arguments and with a spread slice)
	vf := -1
	for i := 0; i < nf; i++ {
		if types[i].name == "int" {
			vf = i
			break
		}
	}
	if vf >= 0 {
		fmt.Fprintf(&sb, "func (r *%s) Acc%d(k int, xs ...int) int {\n\tfor _, x := range xs {\n\t\tr.%s += x\n\t}\n\tr.%s += k\n\treturn r.%s*10 + len(xs)\n}\n\n", T, idx, fname(vf), fname(vf), fname(vf))
	}
	// a method that guards its receiver, and a second type declared after all of T's names, both called on nil references
	fmt.Fprintf(&sb, "func (r *%s) NS%d(k int) int {\n\tif r == nil {\n\t\treturn -k\n\t}\n\treturn k\n}\n\n", T, idx)
	fmt.Fprintf(&sb, "type U%d struct {\n\tV%d int\n\tLink%d *U%d\n}\n\n", idx, idx, idx, idx)
	fmt.Fprintf(&sb, "func (u *U%d) Depth%d() int {\n\tif u == nil {\n\t\treturn 0\n\t}\n\treturn 1 + u.Link%d.Depth%d()\n}\n\n", idx, idx, idx, idx)
	fmt.Fprintf(&sb, "func lt%d(n int) string {\n\ttype %s struct {\n\t\tZq float64\n\t\tZs string\n\t}\n\tf := func(a int) int {\n\t\treturn a + 1\n\t}\n\ttype loc%d struct {\n\t\tW int\n\t}\n\tv := &%s{Zq: 3, Zs: \"s\"}\n\tw := &loc%d{W: f(n)}\n\tg := func() int {\n\t\treturn 2\n\t}\n\tu := &%s{Zq: 5}\n\treturn fmt.Sprint(v.Zq/2, v.Zs, w.W, u.Zq/float64(g()))\n}\n\n", idx, T, idx, T, idx, T)
	alias := ""
	if rng.Chance(1, 3) {
		alias = fmt.Sprintf("A%d", idx)
		fmt.Fprintf(&sb, "type %s = %s\n\n", alias, T)
	}
	// driver
	fmt.Fprintf(&sb, "func d%d() {\n", idx)
	inst := []string{"a", "b", "c"}
	// literals initialise a random subset of fields
	for k, in := range inst {
		tn := T
		if alias != "" && k == 2 {
			tn = alias
		}
		var fs []string
		for i := 0; i < nf; i++ {
			if rng.Chance(1, 4) {
				fs = append(fs, fname(i)+": "+core.Pick(rng, types[i].lits))
			}
		}
		if len(fs) > 12 {
			fs = fs[:12]
		}
		fmt.Fprintf(&sb, "\t%s := &%s{%s}\n", in, tn, strings.Join(fs, ", "))
	}
	sb.WriteString("\tp := a\n\tq := b\n\t_, _, _ = p, q, c\n")
	fmt.Fprintf(&sb, "\tvar z *%s\n\tvar zu *U%d\n\tu2 := &U%d{V%d: 1, Link%d: &U%d{V%d: 2}}\n", T, idx, idx, idx, idx, idx, idx)
	fmt.Fprintf(&sb, "\tfmt.Println(\"nil\", z.NS%d(3), a.NS%d(4), zu.Depth%d(), u2.Depth%d(), u2.Link%d.Link%d.Depth%d())\n", idx, idx, idx, idx, idx, idx, idx)
	if hasNext {
		fmt.Fprintf(&sb, "\tfmt.Println(\"nilnext\", c.Next%d.NS%d(5))\n", idx, idx)
	}
	fmt.Fprintf(&sb, "\tfmt.Println(\"lt\", lt%d(%d))\n", idx, idx%7)
	if vf >= 0 {
		fmt.Fprintf(&sb, "\tsp := []int{2, 3}\n\tfmt.Println(\"acc\", a.Acc%d(1), a.Acc%d(1, 5), p.Acc%d(1, 5, 6), q.Acc%d(2, sp...), c.Acc%d(0, sp[:1]...))\n\tfmt.Println(\"accf\", a.%s, b.%s)\n", idx, idx, idx, idx, idx, fname(vf), fname(vf))
	}
	if hasNext {
		fmt.Fprintf(&sb, "\ta.Next%d = b\n\tb.Next%d = c\n", idx, idx)
	}
	refs := []string{"a", "b", "c", "p", "q"}
	if hasNext {
		refs = append(refs, fmt.Sprintf("a.Next%d", idx), fmt.Sprintf("a.Next%d.Next%d", idx, idx))
	}
	ops := rng.Range(10, 40)
	for o := 0; o < ops; o++ {
		ref := core.Pick(rng, refs)
		switch k := rng.Intn(10); {
		case k < 4 && nf > 0:
			f := rng.Intn(nf)
			fmt.Fprintf(&sb, "\t%s.%s = %s\n", ref, fname(f), core.Pick(rng, types[f].lits))
		case k < 6 && nf > 0:
			f := rng.Intn(nf)
			fmt.Fprintf(&sb, "\t%s\n", types[f].mut(ref+"."+fname(f)))
		case k < 9 && nf > 0:
			f := rng.Intn(nf)
			fmt.Fprintf(&sb, "\tfmt.Println(\"r%d\", %s)\n", o, types[f].show(ref+"."+fname(f)))
		case nm > 0:
			fmt.Fprintf(&sb, "\t%s.M%dx%d()\n", ref, idx, rng.Intn(nm))
		}
	}
	// final dump of every field of every instance (all fields hold the last value stored to them)
	for _, in := range inst {
		for i := 0; i < nf; i++ {
			fmt.Fprintf(&sb, "\tfmt.Println(\"%s.%d\", %s)\n", in, i, types[i].show(in+"."+fname(i)))
		}
	}
	sb.WriteString("\tfmt.Println(p == a, q == b, a == b)\n}\n")
	return packedCase{ID: fmt.Sprintf("t%d", idx), Decl: sb.String(), Call: fmt.Sprintf("\thdr(\"t%d\")\n\td%d()\n", idx, idx)}, nf
}

// ---------------------------------------------------------------------------
// table level

type c12TableOp struct {
	Op string `json:"op"`
	K  int    `json:"k"`
	V  int    `json:"v"`
}

type c12TableCase struct {
	Alloc int          `json:"alloc"`
	Ops   []c12TableOp `json:"ops"`
}

func c12GenTable(seed int64, idx int) c12TableCase {
	rng := core.Derive(seed, "c12-table", idx)
	c := c12TableCase{Alloc: core.Pick(rng, []int{0, 0, 1, 7, 8, 9, 20, 100})}
	stride := core.Pick(rng, []int{1, 16, 32, 64, 48, 17})
	base := rng.Intn(64)
	universe := rng.Range(4, 220)
	negative := rng.Chance(1, 10)
	key := func() int {
		k := base + stride*rng.Intn(universe)
		if rng.Chance(1, 6) {
			k = rng.Intn(40)
		}
		if negative && rng.Chance(1, 3) {
			k = -k - 1
		}
		return k
	}
	n := rng.Range(20, 400)
	// phases: fill, drain, churn
	for i := 0; i < n; i++ {
		phase := (i * 3) / n
		k := key()
		switch r := rng.Intn(10); {
		case phase == 0 && r < 8, phase == 2 && r < 4:
			c.Ops = append(c.Ops, c12TableOp{Op: "set", K: k, V: rng.Intn(1000)})
		case phase == 1 && r < 7, phase == 2 && r < 7:
			c.Ops = append(c.Ops, c12TableOp{Op: "delete", K: k})
		case r < 8:
			c.Ops = append(c.Ops, c12TableOp{Op: "assign", K: k, V: rng.Intn(1000)})
		case r < 9:
			c.Ops = append(c.Ops, c12TableOp{Op: "get", K: k})
		default:
			c.Ops = append(c.Ops, c12TableOp{Op: "copy"})
		}
	}
	return c
}

func c12Invariants(t *goatlang.VerifIntMap, mirror map[int]int) string {
	size, total, _, max := t.Geometry()
	if size < 16 || size&(size-1) != 0 {
		return fmt.Sprintf("table size %d is not a power of two >= 16", size)
	}
	mask := size - 1
	occupied := 0
	seen := map[int]bool{}
	dist := make([]int, size)
	keys := make([]int, size)
	t.Walk(func(slot, d, k int, v goatlang.Value) {
		dist[slot], keys[slot] = d, k
	})
	for slot := 0; slot < size; slot++ {
		d, k := dist[slot], keys[slot]
		if d == 0 {
			continue
		}
		occupied++
		if seen[k] {
			return fmt.Sprintf("key %d is stored twice", k)
		}
		seen[k] = true
		want := ((slot - goatlang.VerifIntMapHash(k)) & mask) + 1
		if d != want {
			return fmt.Sprintf("slot %d holds key %d with distance %d, its displacement from the home slot is %d", slot, k, d, want)
		}
		if d > 1 {
			prev := (slot - 1) & mask
			if dist[prev] == 0 {
				return fmt.Sprintf("key %d at slot %d (distance %d) is preceded by an empty slot: a probe from its home slot would stop before reaching it", k, slot, d)
			}
			if dist[prev] < d-1 {
				return fmt.Sprintf("robin-hood order broken at slot %d: distance %d follows distance %d", slot, d, dist[prev])
			}
		}
		if _, ok := mirror[k]; !ok {
			return fmt.Sprintf("the table holds key %d, which was deleted or never stored", k)
		}
	}
	if occupied != total {
		return fmt.Sprintf("total says %d, %d slots are occupied", total, occupied)
	}
	if total != len(mirror) {
		return fmt.Sprintf("the table holds %d keys, the model %d", total, len(mirror))
	}
	if total > max {
		return fmt.Sprintf("%d entries exceed the load limit %d of a table of size %d", total, max, size)
	}
	if t.Len() != len(mirror) {
		return fmt.Sprintf("Len() = %d, the model has %d", t.Len(), len(mirror))
	}
	return ""
}

func c12RunTable(c c12TableCase) (string, int) {
	t := goatlang.NewVerifIntMap(c.Alloc)
	mirror := map[int]int{}
	for oi, op := range c.Ops {
		var p string
		pan := core.Guard(func() {
			switch op.Op {
			case "set":
				t.Set(op.K, goatlang.Int(op.V))
				mirror[op.K] = op.V
			case "assign":
				t.Assign(op.K, goatlang.Int(op.V)) // stores only into an existing key
				if _, ok := mirror[op.K]; ok {
					mirror[op.K] = op.V
				}
			case "delete":
				t.Delete(op.K)
				delete(mirror, op.K)
			case "get":
				v, ok := t.Get(op.K)
				want, present := mirror[op.K]
				if ok != present || (ok && v.Int() != want) {
					p = fmt.Sprintf("Get(%d) = %v,%v; the model has %v,%v", op.K, v, ok, want, present)
				}
			case "copy":
				cp := t.Copy()
				// the copy must be independent of its source
				before := map[int]int{}
				for k, v := range mirror {
					before[k] = v
				}
				cp.Set(987654, goatlang.Int(1))
				for k := range before {
					cp.Assign(k, goatlang.Int(-5))
					break
				}
				for k := range before {
					cp.Delete(k)
					break
				}
				for k, want := range before {
					if v, ok := t.Get(k); !ok || v.Int() != want {
						p = fmt.Sprintf("after modifying a Copy, the source answers Get(%d) = %v,%v instead of %d", k, v, ok, want)
					}
				}
				if _, ok := t.Get(987654); ok {
					p = "a key stored in a Copy appeared in the source"
				}
			}
			if p == "" {
				// every key of the model answers
				if oi%7 == 0 || len(mirror) < 30 {
					for k, want := range mirror {
						if v, ok := t.Get(k); !ok || v.Int() != want {
							p = fmt.Sprintf("Get(%d) = %v,%v after op %d; the model has %d", k, v, ok, oi, want)
							break
						}
					}
				}
			}
			if p == "" {
				p = c12Invariants(t, mirror)
			}
		})
		if pan != "" {
			return fmt.Sprintf("op %d (%s %d) panicked: %s", oi, op.Op, op.K, pan), oi
		}
		if p != "" {
			return fmt.Sprintf("op %d (%s %d): %s", oi, op.Op, op.K, p), oi
		}
	}
	return "", len(c.Ops)
}

var c12Budget = core.Budget{MaxSteps: 400000, MaxDepth: 200, MaxLen: 1 << 14, MaxOut: 1 << 20}

func runC12(r *core.Run) {
	r.SetRule("script level: generated struct types (0-200 fields over 9 field types, up to 50 methods, optional self-reference and alias type), three instances plus aliases, 10-40 random field stores (constants, nil), type-revealing compound updates, reads and method calls through every reference, then a dump of every field of every instance; 0-700 junk names interned first to move the field/method/type indexes; a receiver-guarding method and a later-declared second type are called on nil references; package level: struct types with methods declared in packages whose import path differs from the package name (nested paths, two packages of the same name), used from main through constructors, literals, fields and methods, next to a local named like the import whose fields collide with package members; host level: instances made with NewStruct (with and without initial data) and by scripts, fields through SetAttr/GetAttr, methods fetched by name and called through Func, an instance made through an alias type. table level: random Set/Assign/Get/Delete/Copy histories in fill/drain/churn phases with keys drawn from clustered residues, the structure checked after every operation. non-trivial = script case accepted by Go with >= 3 lines, table history with >= 10 operations; distinct by text / history")
	r.Assume("Go toolchain (GOARCH=386) for the script level; map[int]Value plus the robin-hood invariants (displacement equals stored distance, no gap before a displaced entry, distances grow by at most one, no duplicate key, total equals occupancy and stays within the load limit, power-of-two size >= 16) for the table level")
	n := r.N(300, 12000)
	cases := make([]packedCase, n)
	fields := make([]int, n)
	for i := range cases {
		cases[i], fields[i] = c12Case(r.Seed, i)
	}
	res := runPackedPrep(r, "st", c12Prelude, cases, 100, c12Budget, func(m *core.Machine, i int) {
		rng := core.Derive(r.Seed, "c12-junk", i)
		junk := rng.Intn(130)
		if rng.Chance(1, 4) {
			junk = rng.Range(130, 700) // type and name indexes beyond 8 and 9 bits
		}
		for k := 0; k < junk; k++ {
			m.VM.Set(fmt.Sprintf("junk.j%d", k), goatlang.Nil())
		}
	})
	for i, pr := range res {
		r.Eval(1)
		if !pr.GoOK {
			r.Inconclusive("no_reference_output")
			continue
		}
		what := ""
		switch {
		case pr.Goat.Panic != "":
			what = "a Go panic escaped: " + pr.Goat.Panic
		case pr.Goat.Err != "" && !pr.GoPanic:
			what = "goatlang fails where Go succeeds: " + core.ErrFirstLine(pr.Goat.Err)
		case pr.Goat.Out != pr.Go:
			what = "a field read, method call or the final field dump differs from Go"
		}
		if what != "" {
			r.Violate(core.Violation{Check: "c12", Index: i, What: what, Case: cases[i], Expected: pr.Go, Observed: pr.Goat, Extra: firstDiff(pr.Go, pr.Goat.Out)})
			continue
		}
		if strings.Count(pr.Go, "\n") >= 3 {
			r.Distinct(cases[i].Decl)
		}
		switch {
		case fields[i] <= 12:
			r.Count("types_with_up_to_12_fields", 1)
		case fields[i] <= 48:
			r.Count("types_with_13_to_48_fields", 1)
		default:
			r.Count("types_with_more_than_48_fields", 1)
		}
		if i%211 == 0 {
			r.Sample(map[string]any{"fields": fields[i], "source_excerpt": excerpt(cases[i].Decl, 25)})
		}
	}
	c12RunPkgCases(r)
	for i := 0; i < r.N(300, 6000); i++ {
		r.Eval(1)
		if what := c12Host(r.Seed, i); what != "" {
			r.Violate(core.Violation{Check: "c12-host", Index: i, What: "host-side instances: " + what, Case: map[string]any{"seed": r.Seed, "index": i}})
		} else {
			r.DistinctN(1)
			r.Count("host_api_cases", 1)
		}
	}
	nt := r.N(6000, 400000)
	core.Parallel((nt+199)/200, func(chunk int) {
		for i := chunk * 200; i < (chunk+1)*200 && i < nt; i++ {
			c := c12GenTable(r.Seed, i)
			r.Eval(1)
			p, done := c12RunTable(c)
			if p != "" {
				r.Violate(core.Violation{Check: "c12-table", Index: i, What: p, Case: c})
				continue
			}
			r.Count("table_operations", done)
			if done >= 10 {
				r.Distinct(fmt.Sprint(c))
			}
			if i%7001 == 0 {
				if len(c.Ops) > 12 {
					c.Ops = c.Ops[:12]
				}
				r.Sample(map[string]any{"table_history_prefix": c})
			}
		}
	})
}

// c12PkgCase: struct types and methods that live in imported packages.
func c12PkgCase(seed int64, idx int) core.RefCase {
	rng := core.Derive(seed, "c12-pkg", idx)
	root := fmt.Sprintf("ref/k%06d", idx)
	dir := root + fmt.Sprintf("/cmd%06d", idx)
	paths := []string{"geom", "shapes/geom", "a/b/geom", "vec"}
	p1 := core.Pick(rng, paths)
	two := rng.Bool()
	p2 := "other/" + p1[strings.LastIndex(p1, "/")+1:] // same package name under another path
	name := p1[strings.LastIndex(p1, "/")+1:]
	lib := func(tag string, k int) string {
		var sb strings.Builder
		fmt.Fprintf(&sb, "package %s\n\nimport \"fmt\"\n\n", name)
		fmt.Fprintf(&sb, "type P struct {\n\tX int\n\tY int\n\tTag string\n}\n\n")
		fmt.Fprintf(&sb, "func (p *P) Move(dx int) {\n\tp.X += dx * %d\n}\n\n", k)
		fmt.Fprintf(&sb, "func (p *P) Show() string {\n\tif p == nil {\n\t\treturn \"%s-nil\"\n\t}\n\treturn \"%s\" + fmt.Sprint(p.X, p.Y, p.Tag)\n}\n\n", tag, tag)
		fmt.Fprintf(&sb, "func New(x int) *P {\n\treturn &P{X: x, Y: x * %d, Tag: \"%s\"}\n}\n\n", k+1, tag)
		fmt.Fprintf(&sb, "type Q struct {\n\tP *P\n\tN int\n}\n\n")
		fmt.Fprintf(&sb, "func (q *Q) Sum() int {\n\treturn q.P.X + q.N + %d\n}\n\n", k)
		fmt.Fprintf(&sb, "var K = %d\nvar Tag = \"%s-pkg\"\n\n", k*100, tag)
		// a method may be called init; types defined from something else than a struct declaration
		fmt.Fprintf(&sb, "func (q *Q) init(n int) *Q {\n\tq.N = n + %d\n\treturn q\n}\n\n", k)
		fmt.Fprintf(&sb, "func NewQ(n int) *Q {\n\tq := &Q{P: New(n)}\n\treturn q.init(n)\n}\n\n")
		fmt.Fprintf(&sb, "type Celsius float64\n\ntype Count uint8\n\ntype Same = P\n\n")
		fmt.Fprintf(&sb, "func Warm(c Celsius) Celsius {\n\treturn c / 2\n}\n\n")
		return sb.String()
	}
	splitLib := func(dir, src string, files map[string]string) {
		// methods and functions in a_ops.go, type declarations and variables in types.go (or all in one file)
		if !rng.Bool() {
			files[dir+"/"+name+".go"] = src
			return
		}
		hdr := src[:strings.Index(src, "type P struct")]
		var ops, types []string
		for _, d := range strings.Split(src[len(hdr):], "\n\n") {
			if strings.HasPrefix(d, "func ") {
				ops = append(ops, d)
			} else if strings.TrimSpace(d) != "" {
				types = append(types, d)
			}
		}
		files[dir+"/"+core.Pick(rng, []string{"a_ops.go", "latest.go", "contest.go", "a_ops.go"})] = hdr + strings.Join(ops, "\n\n") + "\n"
		files[dir+"/types.go"] = "package " + name + "\n\n" + strings.Join(types, "\n\n") + "\n"
	}
	files := map[string]string{}
	splitLib(root+"/"+p1, lib("g1", rng.Range(1, 5)), files)
	var sb strings.Builder
	sb.WriteString("package main\n\nimport (\n\t\"fmt\"\n")
	a1, a2 := name, "gb"
	if two || rng.Bool() {
		a1 = "ga"
		fmt.Fprintf(&sb, "\tga \"%s/%s\"\n", root, p1)
	} else {
		fmt.Fprintf(&sb, "\t\"%s/%s\"\n", root, p1)
	}
	if two {
		splitLib(root+"/"+p2, lib("g2", rng.Range(6, 9)), files)
		fmt.Fprintf(&sb, "\tgb \"%s/%s\"\n", root, p2)
	}
	sb.WriteString(")\n\n")
	fmt.Fprintf(&sb, "type L struct {\n\tG *%s.P\n\tK int\n\tTemp %s.Celsius\n\tN %s.Count\n\tS *%s.Same\n}\n\n", a1, a1, a1, a1)
	fmt.Fprintf(&sb, "func (l *L) init(k int) {\n\tl.K += k\n\tl.Temp = 5\n\tl.N = 250\n}\n\n")
	fmt.Fprintf(&sb, "func (l *L) Show() string {\n\treturn l.G.Show() + fmt.Sprint(l.K)\n}\n\n")
	// a local named like the import: stores through it are stores to the local's fields, also where the package has members of those names
	fmt.Fprintf(&sb, "type Sh struct {\n\tK int\n\tTag string\n}\n\nfunc shadow(n int) string {\n\t%s := &Sh{K: 1, Tag: \"local\"}\n\talias := %s\n\t%s.K = n\n\t%s.K++\n\t%s.K += 10\n\t%s.Tag = \"changed\"\n\treturn fmt.Sprint(%s.K, alias.K) + %s.Tag + alias.Tag\n}\n\n", a1, a1, a1, a1, a1, a1, a1, a1)
	sb.WriteString("func main() {\n")
	x, d := rng.Intn(20), rng.Intn(9)
	fmt.Fprintf(&sb, "\ta := %s.New(%d)\n\tb := &%s.P{X: %d}\n\ta.Move(%d)\n\tb.Move(%d)\n\tb.Tag = \"lit\"\n", a1, x, a1, d, d, x)
	fmt.Fprintf(&sb, "\tq := &%s.Q{P: a, N: %d}\n\tl := &L{G: b, K: %d}\n\tvar z *%s.P\n", a1, d, x, a1)
	sb.WriteString("\tfmt.Println(a.Show(), b.Show(), q.Sum(), l.Show(), z.Show(), q.P.Show())\n")
	sb.WriteString("\tf := a.Show\n\ta.Move(1)\n\tfmt.Println(f(), a.X, b.Y)\n")
	fmt.Fprintf(&sb, "\tl.init(%d)\n\tl.N += 10\n\tfmt.Println(l.K, l.Temp/2, l.N, l.S == nil, l.S.Show(), %s.Warm(l.Temp), %s.NewQ(%d).Sum())\n", d+1, a1, a1, x)
	fmt.Fprintf(&sb, "\tvar t %s.Celsius = 7\n\tvar cn %s.Count = 200\n\tcn += 100\n\tl.S = a\n\tfmt.Println(t/2, cn, l.S.Show())\n", a1, a1)
	fmt.Fprintf(&sb, "\tfmt.Println(shadow(%d), %s.K, %s.Tag)\n", x, a1, a1)
	if two {
		fmt.Fprintf(&sb, "\tc := %s.New(%d)\n\tc.Move(2)\n\tq2 := &%s.Q{P: c, N: 1}\n\tvar z2 *%s.P\n", a2, x+1, a2, a2)
		sb.WriteString("\tfmt.Println(c.Show(), q2.Sum(), z2.Show(), a.Show())\n")
	}
	sb.WriteString("}\n")
	files[dir+"/main.go"] = sb.String()
	return core.RefCase{Files: files, MainDir: dir}
}

func c12RunPkgCases(r *core.Run) {
	n := r.N(60, 1500)
	var cases []core.RefCase
	for i := 0; i < n; i++ {
		cases = append(cases, c12PkgCase(r.Seed, i))
	}
	refs, err := core.RunRef(cases)
	if err != nil {
		r.Inconclusive("reference_executor_failed")
		return
	}
	core.Parallel(n, func(i int) {
		r.Eval(1)
		if refs[i].Rejected {
			r.Count("rejected_by_go", 1)
			r.NoteReject(firstLine(refs[i].RejectMsg))
			return
		}
		m := core.NewMachine(core.VMOpts{Optimize: i%2 == 0, Obs: core.NewObs(core.SmallBudget, false, nil)})
		o := m.LoadMain(core.MapFS(cases[i].Files), cases[i].MainDir)
		if what := compareWithGo(refs[i], o); what != "" {
			r.Violate(core.Violation{Check: "c12-pkg", Index: i, What: "types and methods of imported packages: " + what, Case: cases[i], Expected: refs[i].Out, Observed: o, Extra: firstDiff(refs[i].Out, o.Out)})
			return
		}
		r.Distinct(treeKey(cases[i].Files))
		r.Count("package_level_cases", 1)
	})
}

// c12Host: instances built and used through the host API (NewStruct, GetAttr, SetAttr, methods fetched by name)
// are instances like any other: own fields, zero values, methods found and bound.
func c12Host(seed int64, idx int) string {
	rng := core.Derive(seed, "c12-host", idx)
	m := core.NewMachine(core.VMOpts{Optimize: rng.Bool(), Obs: core.NewObs(core.SmallBudget, false, nil)})
	if o := m.Eval(nil, `type T struct { X int; Y int; S string; L []int }
type D = T
func (t *T) Add(n int) int { t.X += n; return t.X }
func (t *T) Name() string { return "<" + t.S + ">" }
func mk() *T { return &T{} }
func mkD() *D { return &D{} }
func mkY(y int) *T { return &T{Y: y} }
func sum(t *T) int { return t.X*100 + t.Y }
type AN struct { V any; E error; K int }
func mkAN() *AN { return &AN{K: 2} }
func readAN(a *AN) string { if a.V == nil && a.E == nil { return "nil nil" }; return "set" }
type N struct { V int }
var keep = &N{V: 4}
func mkN(v int) *N { return &N{V: v} }`); o.Failed() {
		return "set-up failed: " + o.Err + o.Panic
	}
	var what string
	if p := core.Guard(func() {
		I, S := goatlang.Int, goatlang.String
		base := m.VM.Get("main.T")
		x, y, n := rng.Intn(50)+1, rng.Intn(50)+1, rng.Intn(9)+1
		a := goatlang.NewStruct(base, nil)
		b := goatlang.NewStruct(base, nil)
		c := goatlang.NewStruct(base, []goatlang.Value{S("X"), I(3), S("S"), S("c")})
		order := rng.Intn(3)
		if order == 0 {
			a.SetAttr("X", I(x))
			a.SetAttr("S", S("a"))
		}
		b.SetAttr("Y", I(y))
		if order != 0 {
			a.SetAttr("X", I(x))
			a.SetAttr("S", S("a"))
		}
		str := func(v goatlang.Value) string { return v.String() }
		expect := func(label, got, want string) {
			if what == "" && got != want {
				what = fmt.Sprintf("%s = %s, want %s", label, got, want)
			}
		}
		expect("a.X", str(a.GetAttr("X")), fmt.Sprint(x))
		expect("a.Y (never stored)", str(a.GetAttr("Y")), "0")
		expect("b.X (stored on another instance only)", str(b.GetAttr("X")), "0")
		expect("b.Y", str(b.GetAttr("Y")), fmt.Sprint(y))
		expect("b.S", str(b.GetAttr("S")), "")
		expect("c.X", str(c.GetAttr("X")), "3")
		expect("c", str(c), "&{X:3 Y:0 S:c L:[]}")
		d := m.Call("main.mk", 1)
		expect("a script-made instance created after host-side stores", fmt.Sprint(d.Rets), "[&{X:0 Y:0 S: L:[]}]")
		e := goatlang.NewStruct(base, nil)
		expect("a host-made instance created after host-side stores", str(e), "&{X:0 Y:0 S: L:[]}")
		// methods fetched by name, on host-made and script-made instances
		add := a.GetAttr("Add")
		if add.IsNil() {
			what = "GetAttr(\"Add\") on a host-made instance is nil"
			return
		}
		r1 := m.Func(add, 1, I(n))
		expect("calling a.Add fetched by name", fmt.Sprintf("%v|%s", r1.Rets, r1.Err), fmt.Sprintf("[%d]|", x+n))
		expect("a.X after a.Add", str(a.GetAttr("X")), fmt.Sprint(x+n))
		expect("b.X after a.Add", str(b.GetAttr("X")), "0")
		r2 := m.Call("main.sum", 1, a)
		expect("sum(a) in the script", fmt.Sprintf("%v|%s", r2.Rets, r2.Err), fmt.Sprintf("[%d]|", (x+n)*100))
		var inst goatlang.Value
		rets, err := m.VM.Call("main.mkY", 1, I(y))
		if err != nil || len(rets) != 1 {
			what = fmt.Sprint("mkY failed: ", err)
			return
		}
		inst = rets[0]
		nm := inst.GetAttr("Name")
		if nm.IsNil() {
			what = "GetAttr(\"Name\") on a script-made instance is nil"
			return
		}
		inst.SetAttr("S", S("q"))
		r3 := m.Func(nm, 1)
		expect("calling inst.Name fetched by name", fmt.Sprintf("%v|%s", r3.Rets, r3.Err), "[<q>]|")
		r4 := m.Func(inst.GetAttr("Add"), 1, I(2))
		expect("calling inst.Add fetched by name", fmt.Sprintf("%v|%s", r4.Rets, r4.Err), "[2]|")
		expect("inst", str(inst), fmt.Sprintf("&{X:2 Y:%d S:q L:[]}", y))
		// an instance of a type defined from T
		// the type declared again with many more methods: instances made before find every one of them
		var decl strings.Builder
		decl.WriteString("type T struct { X int; Y int; S string; L []int }\n")
		nExtra := rng.Range(12, 20)
		for i := 0; i < nExtra; i++ {
			fmt.Fprintf(&decl, "func (t *T) Extra%d() int { return t.X*100 + %d }\n", i, i)
		}
		if o := m.Eval(nil, decl.String()); o.Failed() {
			what = "declaring the type again fails: " + core.ErrFirstLine(o.Err) + o.Panic
			return
		}
		for _, i := range []int{0, nExtra / 2, nExtra - 1} {
			ex := a.GetAttr(fmt.Sprintf("Extra%d", i))
			if ex.IsNil() {
				what = fmt.Sprintf("method Extra%d (of %d added by a later declaration of the type) is not found on an instance made before", i, nExtra)
				return
			}
			r6 := m.Func(ex, 1)
			expect(fmt.Sprintf("Extra%d on an instance made before the type was declared again", i), fmt.Sprintf("%v|%s", r6.Rets, r6.Err), fmt.Sprintf("[%d]|", (x+n)*100+i))
		}
		if o := m.Eval(nil, fmt.Sprintf("func viaScript(t *T) int { return t.Extra%d() + t.Add(0) }", nExtra-1)); o.Failed() {
			what = "a function using the added methods fails to compile: " + core.ErrFirstLine(o.Err)
			return
		}
		r7 := m.Call("main.viaScript", 1, a)
		expect("script call of an added method on an old instance", fmt.Sprintf("%v|%s", r7.Rets, r7.Err), fmt.Sprintf("[%d]|", (x+n)*100+nExtra-1+x+n))
		// fields of interface type that hold nil are fields all the same: read as nil by name, from host and script
		for _, how := range []string{"host", "script"} {
			var an goatlang.Value
			if how == "host" {
				an = goatlang.NewStruct(m.VM.Get("main.AN"), []goatlang.Value{S("K"), I(2)})
			} else if rets, err := m.VM.Call("main.mkAN", 1); err == nil && len(rets) == 1 {
				an = rets[0]
			} else {
				what = fmt.Sprint("mkAN failed: ", err)
				return
			}
			for round := 0; round < 2; round++ {
				expect(how+"-made instance: an any-typed field holding nil, read by name", fmt.Sprintf("%v %v %s", an.GetAttr("V").IsNil(), an.GetAttr("E").IsNil(), str(an.GetAttr("K"))), "true true 2")
				ra := m.Call("main.readAN", 1, an)
				expect(how+"-made instance: the script reads its nil interface fields", fmt.Sprintf("%v|%s", ra.Rets, ra.Err), "[nil nil]|")
				an.SetAttr("V", I(7))
				expect(how+"-made instance: the any-typed field after a store", str(an.GetAttr("V")), "7")
				an.SetAttr("V", goatlang.Nil())
			}
		}
		// a type that had no method when its instances were made gets its first methods from a later Eval
		nBase := m.VM.Get("main.N")
		hostN := goatlang.NewStruct(nBase, []goatlang.Value{S("V"), I(6)})
		var scriptN goatlang.Value
		if rets, err := m.VM.Call("main.mkN", 1, I(5)); err == nil && len(rets) == 1 {
			scriptN = rets[0]
		} else {
			what = fmt.Sprint("mkN failed: ", err)
			return
		}
		if o := m.Eval(nil, "func (n *N) Val() int { return n.V * 2 }\nfunc (n *N) Bump() { n.V++ }\nfunc useKeep() int { keep.Bump(); return keep.Val() }"); o.Failed() {
			what = "adding the first methods of a type in a later Eval fails: " + core.ErrFirstLine(o.Err) + o.Panic
			return
		}
		r8 := m.Call("main.useKeep", 1)
		expect("first methods of a type, added later, called on an instance made before (script)", fmt.Sprintf("%v|%s", r8.Rets, r8.Err), "[10]|")
		for _, in := range []struct {
			label string
			v     goatlang.Value
			want  int
		}{{"host-made", hostN, 12}, {"script-made", scriptN, 10}} {
			val := in.v.GetAttr("Val")
			if val.IsNil() {
				what = "the first method of a type, added by a later Eval, is not found on a " + in.label + " instance made before"
				return
			}
			r9 := m.Func(val, 1)
			expect("Val() on a "+in.label+" instance made before the type had methods", fmt.Sprintf("%v|%s", r9.Rets, r9.Err), fmt.Sprintf("[%d]|", in.want))
		}
		// an instance of the alias type, made by a script, is an instance of T
		if rets, err := m.VM.Call("main.mkD", 1); err == nil && len(rets) == 1 {
			r5 := m.Func(rets[0].GetAttr("Add"), 1, I(1))
			expect("method of T fetched by name on an instance made through the alias type", fmt.Sprintf("%v|%s", r5.Rets, r5.Err), "[1]|")
		} else {
			what = fmt.Sprint("mkD failed: ", err)
		}
	}); p != "" {
		return "a Go panic escaped the host API: " + p
	}
	return what
}

func replayC12(r *core.Run, v *core.Violation) {
	if v.Check == "c12-table" {
		var c c12TableCase
		if err := remarshal(v.Case, &c); err == nil {
			if p, _ := c12RunTable(c); p != "" {
				r.Violate(core.Violation{Check: "c12-table", What: p, Case: c})
			}
		}
		return
	}
	var c packedCase
	if err := remarshal(v.Case, &c); err != nil {
		return
	}
	res := runPackedPrep(r, "str", c12Prelude, []packedCase{c}, 1, c12Budget, func(m *core.Machine, i int) {
		rng := core.Derive(v.Seed, "c12-junk", v.Index)
		junk := rng.Intn(130)
		if rng.Chance(1, 4) {
			junk = rng.Range(130, 700) // type and name indexes beyond 8 and 9 bits
		}
		for k := 0; k < junk; k++ {
			m.VM.Set(fmt.Sprintf("junk.j%d", k), goatlang.Nil())
		}
	})
	fmt.Printf("--- go ---\n%s--- goatlang ---\n%s err=%s\n", excerpt(res[0].Go, 60), excerpt(res[0].Goat.Out, 60), res[0].Goat.Err)
	if res[0].GoOK && (res[0].Goat.Out != res[0].Go || res[0].Goat.Err != "") {
		r.Violate(core.Violation{Check: "c12", What: "output differs from Go's", Case: c, Extra: firstDiff(res[0].Go, res[0].Goat.Out)})
	}
}
