package core

import (
	"bytes"
	"context"
	"fmt"
	"os"
	"os/exec"
	"path/filepath"
	"runtime"
	"strings"
	"sync"
	"time"
)

// RefCase is one program for the Go/386 reference executor. Files are keyed
// by their path inside the module "ref" INCLUDING the leading "ref/" (the same
// keys are used for goatlang's in-memory file system, so import paths are
// identical on both sides). MainDir is the directory of package main, e.g.
// "ref/c0007/cmd0007"; its last element must be unique within a batch.
type RefCase struct {
	Files   map[string]string
	MainDir string
}

type RefResult struct {
	Out       string `json:"out"`
	Stderr    string `json:"stderr,omitempty"`
	Exit      int    `json:"exit"`
	Rejected  bool   `json:"rejected,omitempty"` // the Go compiler refused the program
	RejectMsg string `json:"reject_msg,omitempty"`
	Panicked  bool   `json:"panicked,omitempty"` // run-time panic (exit 2 with a Go trace)
	TimedOut  bool   `json:"timed_out,omitempty"`
}

// RunRef compiles all cases with GOARCH=386 (so int is 32 bit) in one
// go build invocation and runs every binary.
// refCache is the build cache of the reference builds: every generated program leaves its compiled package
// there (about 100 KB each), so the cache is kept apart from the user's and emptied when it passes a size cap;
// the only cost of emptying it is one rebuild of the 386 standard library.
func refCache() string {
	exe, err := os.Executable()
	if err != nil {
		return ""
	}
	dir := filepath.Join(filepath.Dir(exe), "gocache-ref")
	var size int64
	filepath.WalkDir(dir, func(_ string, d os.DirEntry, err error) error {
		if err == nil && !d.IsDir() {
			if fi, e := d.Info(); e == nil {
				size += fi.Size()
			}
		}
		return nil
	})
	if size > 6<<30 {
		// over the cap: drop what has not been touched for a while (another check may be building from this cache right
		// now, so entries in recent use stay)
		for _, age := range []time.Duration{45 * time.Minute, 10 * time.Minute} {
			cut := time.Now().Add(-age)
			var left int64
			filepath.WalkDir(dir, func(p string, d os.DirEntry, err error) error {
				if err == nil && !d.IsDir() {
					if fi, e := d.Info(); e == nil {
						if fi.ModTime().Before(cut) {
							os.Remove(p)
						} else {
							left += fi.Size()
						}
					}
				}
				return nil
			})
			if left <= 6<<30 {
				break
			}
		}
	}
	if os.MkdirAll(dir, 0o755) != nil {
		return ""
	}
	return dir
}

func RunRef(cases []RefCase) ([]RefResult, error) {
	res := make([]RefResult, len(cases))
	if len(cases) == 0 {
		return res, nil
	}
	dir, err := os.MkdirTemp("", "verif-goref-")
	if err != nil {
		return nil, err
	}
	defer os.RemoveAll(dir)
	if err := os.WriteFile(filepath.Join(dir, "go.mod"), []byte("module ref\n\ngo 1.20\n"), 0o644); err != nil {
		return nil, err
	}
	for _, c := range cases {
		for p, src := range c.Files {
			rel := strings.TrimPrefix(p, "ref/")
			full := filepath.Join(dir, rel)
			if err := os.MkdirAll(filepath.Dir(full), 0o755); err != nil {
				return nil, err
			}
			if err := os.WriteFile(full, []byte(src), 0o644); err != nil {
				return nil, err
			}
		}
	}
	// The build cache is shared by all reference builds of this machine; another check running at the same time may
	// empty it when it has grown past its cap. A build that fails without naming a package of ours is tried again,
	// the last time with a cache of its own.
	var stderr bytes.Buffer
	var buildErr error
	var msgs map[string]string
	for attempt := 0; attempt < 3; attempt++ {
		cmd := exec.Command("go", "build", "-o", "bin/", "./...")
		cmd.Dir = dir
		cmd.Env = append(os.Environ(), "GOARCH=386", "GOOS=linux", "CGO_ENABLED=0", "GOFLAGS=-mod=mod", "GOPROXY=off", "GOSUMDB=off", "GOTOOLCHAIN=local", "GOWORK=off")
		if attempt == 2 {
			cmd.Env = append(cmd.Env, "GOCACHE="+filepath.Join(dir, "gocache-own"))
		} else if gc := refCache(); gc != "" {
			cmd.Env = append(cmd.Env, "GOCACHE="+gc)
		}
		stderr.Reset()
		cmd.Stderr = &stderr
		cmd.Stdout = &stderr
		buildErr = cmd.Run()
		msgs = splitBuildErrors(stderr.String())
		produced, _ := os.ReadDir(filepath.Join(dir, "bin"))
		ours := false
		for k := range msgs {
			for _, c := range cases {
				if strings.HasPrefix(k, filepath.Dir(c.MainDir)) {
					ours = true
				}
			}
		}
		cacheTrouble := strings.Contains(stderr.String(), "gocache-ref") && strings.Contains(stderr.String(), "no such file or directory")
		if buildErr == nil || ((len(produced) > 0 || ours) && !cacheTrouble) {
			break
		}
		time.Sleep(2 * time.Second)
	}

	type job struct{ i int }
	jobs := make(chan int)
	var wg sync.WaitGroup
	workers := runtime.NumCPU()
	for w := 0; w < workers; w++ {
		wg.Add(1)
		go func() {
			defer wg.Done()
			for i := range jobs {
				c := cases[i]
				bin := filepath.Join(dir, "bin", filepath.Base(c.MainDir))
				if _, err := os.Stat(bin); err != nil {
					res[i].Rejected = true
					res[i].RejectMsg = msgs[c.MainDir]
					if res[i].RejectMsg == "" {
						// a library package of this case failed
						for k, m := range msgs {
							if strings.HasPrefix(k, filepath.Dir(c.MainDir)+"/") {
								res[i].RejectMsg += m
							}
						}
					}
					if res[i].RejectMsg == "" {
						res[i].RejectMsg = "no binary produced; build output: " + truncate(stderr.String(), 2000)
					}
					continue
				}
				res[i] = runBinary(bin)
			}
		}()
	}
	for i := range cases {
		jobs <- i
	}
	close(jobs)
	wg.Wait()
	if buildErr != nil && len(msgs) == 0 {
		return res, fmt.Errorf("go build failed without per-package errors: %v: %s", buildErr, truncate(stderr.String(), 4000))
	}
	return res, nil
}

func truncate(s string, n int) string {
	if len(s) > n {
		return s[:n] + "..."
	}
	return s
}

func splitBuildErrors(out string) map[string]string {
	m := map[string]string{}
	cur := ""
	for _, line := range strings.Split(out, "\n") {
		if strings.HasPrefix(line, "# ") {
			cur = strings.TrimSpace(strings.TrimPrefix(line, "# "))
			if i := strings.IndexByte(cur, ' '); i >= 0 {
				cur = cur[:i]
			}
			continue
		}
		if cur != "" && line != "" {
			m[cur] += line + "\n"
		}
	}
	return m
}

func runBinary(bin string) RefResult {
	ctx, cancel := context.WithTimeout(context.Background(), 60*time.Second)
	defer cancel()
	cmd := exec.CommandContext(ctx, bin)
	var out, errb bytes.Buffer
	cmd.Stdout = &out
	cmd.Stderr = &errb
	cmd.Env = []string{"GOTRACEBACK=single", "GOMAXPROCS=2"}
	err := cmd.Run()
	r := RefResult{Out: out.String(), Stderr: truncate(errb.String(), 1500)}
	if ctx.Err() != nil {
		r.TimedOut = true
		return r
	}
	if err != nil {
		if ee, ok := err.(*exec.ExitError); ok {
			r.Exit = ee.ExitCode()
		} else {
			r.Exit = -1
		}
		if strings.Contains(r.Stderr, "panic:") || strings.Contains(r.Stderr, "fatal error:") {
			r.Panicked = true
		}
	}
	return r
}
