package core

import (
	"hash/fnv"
	"os"
	"strconv"
)

// Rng is a small deterministic PRNG (splitmix64). Every random choice in the
// harness derives from VERIF_SEED through Derive, so a case index identifies
// the same case on every run with the same seed.
type Rng struct{ s uint64 }

func NewRng(seed uint64) *Rng { return &Rng{s: seed} }

func (r *Rng) Uint64() uint64 {
	r.s += 0x9e3779b97f4a7c15
	z := r.s
	z = (z ^ (z >> 30)) * 0xbf58476d1ce4e5b9
	z = (z ^ (z >> 27)) * 0x94d049bb133111eb
	return z ^ (z >> 31)
}

// Intn returns a value in [0,n). n<=0 returns 0.
func (r *Rng) Intn(n int) int {
	if n <= 0 {
		return 0
	}
	return int(r.Uint64() % uint64(n))
}

// Range returns a value in [lo,hi].
func (r *Rng) Range(lo, hi int) int { return lo + r.Intn(hi-lo+1) }
func (r *Rng) Bool() bool           { return r.Uint64()&1 == 1 }

// Chance returns true with probability num/den.
func (r *Rng) Chance(num, den int) bool { return r.Intn(den) < num }

func Pick[T any](r *Rng, xs []T) T { return xs[r.Intn(len(xs))] }

func Shuffle[T any](r *Rng, xs []T) {
	for i := len(xs) - 1; i > 0; i-- {
		j := r.Intn(i + 1)
		xs[i], xs[j] = xs[j], xs[i]
	}
}

// Seed returns VERIF_SEED (default 1).
func Seed() int64 {
	if s := os.Getenv("VERIF_SEED"); s != "" {
		if v, err := strconv.ParseInt(s, 10, 64); err == nil {
			return v
		}
	}
	return 1
}

// Derive gives the PRNG for one case of one check.
func Derive(seed int64, check string, index int) *Rng {
	h := fnv.New64a()
	h.Write([]byte(check))
	var b [16]byte
	for i := 0; i < 8; i++ {
		b[i] = byte(uint64(seed) >> (8 * i))
		b[8+i] = byte(uint64(index) >> (8 * i))
	}
	h.Write(b[:])
	r := NewRng(h.Sum64())
	r.Uint64()
	return r
}

func HashString(s string) uint64 {
	h := fnv.New64a()
	h.Write([]byte(s))
	return h.Sum64()
}
