package core

import (
	"runtime"
	"sync"
)

// Parallel runs f(i) for i in [0,n) on all cores. Each case must only touch
// its own VMs; shared counters go through Run's locked methods.
func Parallel(n int, f func(i int)) {
	workers := runtime.NumCPU()
	if workers > n {
		workers = n
	}
	if workers < 1 {
		workers = 1
	}
	var wg sync.WaitGroup
	ch := make(chan int, 64)
	for w := 0; w < workers; w++ {
		wg.Add(1)
		go func() {
			defer wg.Done()
			for i := range ch {
				f(i)
			}
		}()
	}
	for i := 0; i < n; i++ {
		ch <- i
	}
	close(ch)
	wg.Wait()
}
