package core

import (
	"encoding/json"
	"fmt"
	"os"
	"path/filepath"
	"sort"
	"sync"
	"time"
)

// Root is /verif (VERIF_ROOT is set by the check script).
func Root() string {
	if r := os.Getenv("VERIF_ROOT"); r != "" {
		return r
	}
	return "/verif"
}

// Run collects what one invocation of one check observed and renders the
// evidence file, the VIOLATION / KNOWN-FINDING lines and the exit status.
type Run struct {
	ID    string
	Tier  string
	Seed  int64
	start time.Time

	mu             sync.Mutex
	evaluations    int
	distinct       map[uint64]struct{}
	distinctExtra  int
	rule           string
	samples        []any
	observed       map[string]any
	counters       map[string]int
	inconclusive   map[string]int
	assumptions    []string
	exhaustive     *bool
	violations     []Violation
	known          map[string]int
	kf             *KnownFindings
	maxSamples     int
	NoEvidence     bool
	TooManyRejects bool
	rejects        map[string]int
}

type Violation struct {
	Property string `json:"property"`
	Check    string `json:"check"`
	Seed     int64  `json:"seed"`
	Index    int    `json:"index"`
	What     string `json:"what"`
	Case     any    `json:"case"`
	Expected any    `json:"expected,omitempty"`
	Observed any    `json:"observed,omitempty"`
	Extra    any    `json:"extra,omitempty"`
}

func NewRun(id, tier string) *Run {
	return &Run{
		ID: id, Tier: tier, Seed: Seed(), start: time.Now(),
		distinct: map[uint64]struct{}{}, observed: map[string]any{}, counters: map[string]int{},
		inconclusive: map[string]int{}, known: map[string]int{}, kf: LoadKnownFindings(), maxSamples: 6,
	}
}

func (r *Run) Thorough() bool { return r.Tier == "thorough" }

// N picks the tier's case count.
func (r *Run) N(quick, thorough int) int {
	if r.Thorough() {
		return thorough
	}
	return quick
}

func (r *Run) SetRule(s string)            { r.rule = s }
func (r *Run) Assume(s string)             { r.mu.Lock(); r.assumptions = append(r.assumptions, s); r.mu.Unlock() }
func (r *Run) SetExhaustive(b bool)        { r.exhaustive = &b }
func (r *Run) SetObserved(k string, v any) { r.mu.Lock(); r.observed[k] = v; r.mu.Unlock() }

// Eval counts one executed case.
func (r *Run) Eval(n int) { r.mu.Lock(); r.evaluations += n; r.mu.Unlock() }

// Distinct records one case that is non-trivial by the check's rule; key is
// its canonical text so duplicates are counted once.
func (r *Run) Distinct(key string) {
	h := HashString(key)
	r.mu.Lock()
	r.distinct[h] = struct{}{}
	r.mu.Unlock()
}

// DistinctN adds n cases that are distinct and non-trivial by construction
// (used where hashing every case would cost more than running it).
func (r *Run) DistinctN(n int) { r.mu.Lock(); r.distinctExtra += n; r.mu.Unlock() }

// NoteReject records why the Go compiler refused a generated program.
func (r *Run) NoteReject(msg string) {
	r.mu.Lock()
	if r.rejects == nil {
		r.rejects = map[string]int{}
	}
	if len(r.rejects) < 40 {
		r.rejects[msg]++
	}
	r.mu.Unlock()
}

func (r *Run) Count(k string, n int) { r.mu.Lock(); r.counters[k] += n; r.mu.Unlock() }

// MergeCounts adds selected entries of m to the counters under a prefix.
func (r *Run) MergeCounts(prefix string, m map[string]int, keys []string) {
	r.mu.Lock()
	for _, k := range keys {
		if v := m[k]; v > 0 {
			r.counters[prefix+k] += v
		}
	}
	r.mu.Unlock()
}

func (r *Run) Counter(k string) int  { r.mu.Lock(); defer r.mu.Unlock(); return r.counters[k] }
func (r *Run) Inconclusive(k string) { r.mu.Lock(); r.inconclusive[k]++; r.mu.Unlock() }

// Sample keeps the first few cases written out.
func (r *Run) Sample(v any) {
	r.mu.Lock()
	if len(r.samples) < r.maxSamples {
		r.samples = append(r.samples, v)
	}
	r.mu.Unlock()
}

func (r *Run) NViolations() int { r.mu.Lock(); defer r.mu.Unlock(); return len(r.violations) }

// Violate records a violation unless a known finding explains it (explained
// is decided by the caller through KnownFinding).
func (r *Run) Violate(v Violation) {
	v.Property = r.ID
	v.Seed = r.Seed
	r.mu.Lock()
	r.violations = append(r.violations, v)
	r.mu.Unlock()
}

// KnownFinding reports that a listed finding was observed again.
func (r *Run) KnownFinding(id string) {
	r.mu.Lock()
	r.known[id]++
	r.mu.Unlock()
}

func (r *Run) Findings() *KnownFindings { return r.kf }

type evidence struct {
	PropertyID  string         `json:"property_id"`
	Tier        string         `json:"tier"`
	Seed        int64          `json:"seed"`
	Level       string         `json:"level"`
	Coverage    map[string]any `json:"coverage"`
	Assumptions []string       `json:"assumptions"`
	WallS       float64        `json:"wall_s"`
	Violations  int            `json:"violations"`
}

// ViolationCount is the number of violations recorded so far.
func (r *Run) ViolationCount() int {
	r.mu.Lock()
	defer r.mu.Unlock()
	return len(r.violations)
}

// Finish writes the evidence file, prints verdict lines and returns the
// process exit status.
func (r *Run) Finish() int {
	r.mu.Lock()
	defer r.mu.Unlock()
	root := Root()
	cov := map[string]any{
		"evaluations":         r.evaluations,
		"distinct_nontrivial": len(r.distinct) + r.distinctExtra,
		"rule":                r.rule,
		"samples":             r.samples,
	}
	if r.samples == nil {
		cov["samples"] = []any{}
	}
	if r.exhaustive != nil {
		cov["exhaustive"] = *r.exhaustive
	}
	if len(r.counters) > 0 {
		cov["counters"] = r.counters
	}
	if len(r.observed) > 0 {
		cov["observed"] = r.observed
	}
	cov["inconclusive"] = r.inconclusive
	if len(r.rejects) > 0 {
		cov["rejected_by_go_reasons"] = r.rejects
	}
	if len(r.known) > 0 {
		cov["known_findings_hit"] = r.known
	}
	ev := evidence{
		PropertyID: r.ID, Tier: r.Tier, Seed: r.Seed, Level: "exploration",
		Coverage: cov, Assumptions: r.assumptions,
		WallS:      time.Since(r.start).Seconds(),
		Violations: len(r.violations),
	}
	if ev.Assumptions == nil {
		ev.Assumptions = []string{}
	}
	os.MkdirAll(filepath.Join(root, "evidence"), 0o755)
	b, err := json.MarshalIndent(ev, "", " ")
	if err != nil {
		// a sample that JSON cannot express (NaN, Inf): keep the counts, drop the samples' detail
		cov["samples"] = []any{fmt.Sprintf("%d samples could not be serialised: %v", len(r.samples), err)}
		b, _ = json.MarshalIndent(ev, "", " ")
	}
	evPath := filepath.Join(root, "evidence", r.ID+".json")
	if err := os.WriteFile(evPath, append(b, '\n'), 0o644); err != nil {
		fmt.Fprintln(os.Stderr, "cannot write evidence:", err)
		return 2
	}
	// a per-tier copy, so that the record of the last thorough run survives later quick runs
	os.MkdirAll(filepath.Join(root, "evidence", r.Tier), 0o755)
	os.WriteFile(filepath.Join(root, "evidence", r.Tier, r.ID+".json"), append(b, '\n'), 0o644)

	ids := make([]string, 0, len(r.known))
	for id := range r.known {
		ids = append(ids, id)
	}
	sort.Strings(ids)
	for _, id := range ids {
		f := r.kf.ByID(id)
		fmt.Printf("KNOWN-FINDING: property=%s %s (seen %d times; id=%s)\n", r.ID, f.What, r.known[id], id)
	}

	// replay files of an earlier run with the same tier and seed are stale now
	if old, _ := filepath.Glob(filepath.Join(root, "violations", r.ID, fmt.Sprintf("%s-seed%d-*.json", r.Tier, r.Seed))); len(old) > 0 {
		for _, f := range old {
			os.Remove(f)
		}
	}
	if len(r.violations) > 0 {
		dir := filepath.Join(root, "violations", r.ID)
		os.MkdirAll(dir, 0o755)
		max := len(r.violations)
		if max > 20 {
			max = 20
		}
		for i := 0; i < max; i++ {
			v := r.violations[i]
			p := filepath.Join(dir, fmt.Sprintf("%s-seed%d-%s-%d.json", r.Tier, r.Seed, v.Check, i))
			vb, _ := json.MarshalIndent(v, "", " ")
			os.WriteFile(p, append(vb, '\n'), 0o644)
			fmt.Printf("VIOLATION property=%s replay=%s\n", r.ID, p)
			fmt.Printf("  what: %s\n", v.What)
		}
		if len(r.violations) > max {
			fmt.Printf("  (%d further violations not written)\n", len(r.violations)-max)
		}
		return 1
	}
	if r.TooManyRejects {
		fmt.Printf("INCONCLUSIVE property=%s: more than 5%% of the generated programs were rejected by the Go compiler\n", r.ID)
		return 2
	}
	if len(r.distinct)+r.distinctExtra < 2 || r.evaluations < 1 {
		fmt.Printf("INCONCLUSIVE property=%s: the run observed nothing (evaluations=%d distinct=%d)\n", r.ID, r.evaluations, len(r.distinct)+r.distinctExtra)
		return 2
	}
	fmt.Printf("OK property=%s tier=%s seed=%d evaluations=%d distinct_nontrivial=%d wall=%.1fs\n",
		r.ID, r.Tier, r.Seed, r.evaluations, len(r.distinct)+r.distinctExtra, ev.WallS)
	return 0
}

// FinishReplay prints the verdict of a replayed case without touching the
// evidence file.
func (r *Run) FinishReplay() int {
	r.mu.Lock()
	defer r.mu.Unlock()
	if len(r.violations) > 0 {
		for _, v := range r.violations {
			b, _ := json.MarshalIndent(v, "", " ")
			fmt.Printf("REPLAY: violation reproduced: %s\n%s\n", v.What, b)
		}
		return 1
	}
	fmt.Println("REPLAY: the recorded case no longer violates the property")
	return 0
}
