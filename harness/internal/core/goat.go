package core

import (
	"bytes"
	"fmt"
	"io/fs"
	"regexp"
	"strings"
	"testing/fstest"

	"github.com/philhassey/goatlang"
)

// ---------------------------------------------------------------------------
// opcode names

var OpNames = map[int]string{}
var OpByName = map[string]int{}

func init() {
	for i := -8; i < 256; i++ {
		// (a name table that cannot render one of these numbers must not take the harness down: the checks
		// that print instructions will meet it through the code under test)
		n := ""
		func() {
			defer func() { _ = recover() }()
			n = goatlang.VerifOpName(i)
		}()
		if n != "" {
			OpNames[i] = n
			OpByName[n] = i
		}
	}
}

// ---------------------------------------------------------------------------
// budget + histogram observer

const BudgetMarker = "VERIF-BUDGET"

type Budget struct {
	MaxSteps int // instructions per Top (0 = unlimited)
	MaxDepth int // nested script calls
	MaxLen   int // strings concatenated, slices made/spread
	MaxOut   int // bytes written to stdout
}

var DefaultBudget = Budget{MaxSteps: 2_000_000, MaxDepth: 2500, MaxLen: 1 << 20, MaxOut: 8 << 20}

// SmallBudget is for workloads that include mutants and fuzz inputs, where
// runaway loops are common: it keeps quadratic string growth and endless
// printing cheap.
var SmallBudget = Budget{MaxSteps: 200_000, MaxDepth: 1500, MaxLen: 1 << 15, MaxOut: 1 << 20}

// limitWriter is the VM's stdout: it panics with the budget marker (which the
// VM turns into an ordinary run error) once too much has been printed.
type limitWriter struct {
	buf *bytes.Buffer
	max int
}

func (w *limitWriter) Write(p []byte) (int, error) {
	if w.max > 0 && w.buf.Len()+len(p) > w.max {
		panic(BudgetMarker + ": output size")
	}
	return w.buf.Write(p)
}

// Obs is the observer installed on harness VMs. It enforces the budget,
// optionally counts executed opcodes, and forwards to an inner observer (the
// C07 trace monitor).
type Obs struct {
	Budget Budget
	Steps  int
	Depth  int
	Hist   []int // indexed by opcode+8, nil = off
	Inner  goatlang.VerifObserver

	opAdd, opLocalAdd, opAppend, opMake int
}

func NewObs(b Budget, hist bool, inner goatlang.VerifObserver) *Obs {
	o := &Obs{Budget: b, Inner: inner,
		opAdd: OpByName["ADD"], opLocalAdd: OpByName["LOCALADD"], opAppend: OpByName["APPEND"], opMake: OpByName["MAKE"]}
	if hist {
		o.Hist = make([]int, 264)
	}
	return o
}

func (o *Obs) Reset() { o.Steps, o.Depth = 0, 0 }

func (o *Obs) Top(v *goatlang.VM, slots int) {
	if o.Inner != nil {
		o.Inner.Top(v, slots)
	}
}
func (o *Obs) End(v *goatlang.VM) {
	if o.Inner != nil {
		o.Inner.End(v)
	}
}
func (o *Obs) Step(v *goatlang.VM) {
	o.Steps++
	if o.Budget.MaxSteps > 0 && o.Steps > o.Budget.MaxSteps {
		panic(BudgetMarker + ": steps")
	}
	op := v.VerifOp()
	if o.Hist != nil {
		o.Hist[op+8]++
	}
	if o.Budget.MaxLen > 0 {
		switch op {
		case o.opAdd:
			d := v.VerifDepth()
			if d >= 2 {
				a := v.VerifStack(d - 1)
				if a.Type() == goatlang.TypeString && a.Len() > o.Budget.MaxLen {
					panic(BudgetMarker + ": string length")
				}
			}
		case o.opLocalAdd:
			_, a, _, _ := v.VerifIns(v.VerifPC())
			idx := v.VerifBase() + a
			if idx >= 0 && idx < v.VerifDepth() {
				x := v.VerifStack(idx)
				if x.Type() == goatlang.TypeString && x.Len() > o.Budget.MaxLen {
					panic(BudgetMarker + ": string length")
				}
			}
		case o.opAppend:
			d := v.VerifDepth()
			if d >= 1 {
				x := v.VerifStack(d - 1)
				if x.Type() == goatlang.TypeSlice && x.Len() > o.Budget.MaxLen {
					panic(BudgetMarker + ": slice length")
				}
			}
		case o.opMake:
			d := v.VerifDepth()
			if d >= 1 {
				x := v.VerifStack(d - 1)
				if n := x.Float64(); n > float64(o.Budget.MaxLen) {
					panic(BudgetMarker + ": make length")
				}
			}
		}
	}
	if o.Inner != nil {
		o.Inner.Step(v)
	}
}
func (o *Obs) Enter(v *goatlang.VM, args, rets, slots int) {
	o.Depth++
	if o.Budget.MaxDepth > 0 && o.Depth > o.Budget.MaxDepth {
		o.Depth--
		panic(BudgetMarker + ": call depth")
	}
	if o.Inner != nil {
		o.Inner.Enter(v, args, rets, slots)
	}
}
func (o *Obs) Leave(v *goatlang.VM, topN, rets int) {
	o.Depth--
	if o.Inner != nil {
		o.Inner.Leave(v, topN, rets)
	}
}

// HistMap renders the histogram with opcode names.
func (o *Obs) HistMap() map[string]int {
	m := map[string]int{}
	for i, n := range o.Hist {
		if n > 0 {
			m[OpNames[i-8]] = n
		}
	}
	return m
}

func MergeHist(dst map[string]int, src map[string]int) {
	for k, v := range src {
		dst[k] += v
	}
}

// ---------------------------------------------------------------------------
// VM construction with deterministic stand-ins for the natives that touch the
// outside world.

type VMOpts struct {
	Optimize bool
	Obs      *Obs // may be nil
	NoStubs  bool
}

type Machine struct {
	VM  *goatlang.VM
	Out *bytes.Buffer
	Obs *Obs
}

func NewMachine(o VMOpts) *Machine {
	m := &Machine{Out: &bytes.Buffer{}, Obs: o.Obs}
	max := DefaultBudget.MaxOut
	if o.Obs != nil {
		max = o.Obs.Budget.MaxOut
	}
	m.VM = goatlang.New(goatlang.WithStdout(&limitWriter{buf: m.Out, max: max}))
	if !o.NoStubs {
		installStubs(m.VM)
	}
	if !o.NoStubs {
		maxLen := DefaultBudget.MaxLen
		if o.Obs != nil && o.Obs.Budget.MaxLen > 0 {
			maxLen = o.Obs.Budget.MaxLen
		}
		installGuards(m.VM, maxLen)
	}
	m.VM.VerifSetOptimize(o.Optimize)
	if o.Obs != nil {
		m.VM.VerifObserve(o.Obs)
	}
	return m
}

var wideVerb = regexp.MustCompile(`\d{5,}`)

// installGuards wraps the natives that can amplify their input (a runaway
// loop around s = fmt.Sprintf("%s%s", s, s) doubles a string per iteration,
// far inside the instruction budget). The wrapper only checks sizes and then
// calls the original native, so behaviour below the limit is the library's
// own; above it the run ends as an ordinary budget error.
func installGuards(vm *goatlang.VM, maxLen int) {
	wrap := func(name string, fixed int, check func(args []goatlang.Value) bool) {
		orig := vm.Get(name)
		if orig.IsNil() {
			return
		}
		depth := 0
		vm.Set(name, goatlang.NewFunc(fixed+1, 1, func(v *goatlang.VM, args []goatlang.Value, vargs ...goatlang.Value) []goatlang.Value {
			all := append(append([]goatlang.Value{}, args...), vargs...)
			if !check(all) {
				panic(BudgetMarker + ": " + name + " output size")
			}
			// the wrapped native never calls back into this wrapper; if it does, Set did not install a new
			// value under the name but changed the old function value itself
			if depth > 8 {
				panic("the function value that stood under " + name + " before Set now runs the code that was set")
			}
			depth++
			defer func() { depth-- }()
			rets, err := v.Func(orig, 1, all...)
			if err != nil {
				panic(err)
			}
			return rets
		}))
	}
	strLen := func(v goatlang.Value) int {
		if v.Type() == goatlang.TypeString || v.Type() == goatlang.TypeSlice {
			return v.Len()
		}
		return 8
	}
	total := func(args []goatlang.Value) int {
		n := 0
		for _, a := range args {
			n += strLen(a)
			if a.Type() == goatlang.TypeSlice && a.Len() < 4096 {
				for i := 0; i < a.Len(); i++ {
					e, _ := a.Get(goatlang.Int(i))
					n += strLen(e)
				}
			}
		}
		return n
	}
	wrap("fmt.Sprintf", 1, func(a []goatlang.Value) bool {
		return total(a) <= maxLen && (len(a) == 0 || a[0].Type() != goatlang.TypeString || !wideVerb.MatchString(a[0].String()))
	})
	wrap("fmt.Sprint", 0, func(a []goatlang.Value) bool { return total(a) <= maxLen })
	wrap("strings.Join", 2, func(a []goatlang.Value) bool {
		return len(a) < 2 || total(a[:1])+a[0].Len()*strLen(a[1]) <= maxLen
	})
	for _, n := range []string{"strings.ReplaceAll", "strings.Replace"} {
		wrap(n, 3, func(a []goatlang.Value) bool {
			return len(a) < 3 || (strLen(a[0])+1)*(strLen(a[2])+1) <= maxLen
		})
	}
}

func installStubs(vm *goatlang.VM) {
	var ctr uint64 = 12345
	next := func() uint64 {
		ctr += 0x9e3779b97f4a7c15
		z := ctr
		z = (z ^ (z >> 30)) * 0xbf58476d1ce4e5b9
		z = (z ^ (z >> 27)) * 0x94d049bb133111eb
		return z ^ (z >> 31)
	}
	vm.Set("math/rand.Float64", goatlang.NewFunc(0, 1, func(v *goatlang.VM) goatlang.Value {
		return goatlang.Float64(float64(next()>>11) / (1 << 53))
	}))
	vm.Set("math/rand.Int", goatlang.NewFunc(0, 1, func(v *goatlang.VM) goatlang.Value {
		return goatlang.Int32(int32(next() >> 33))
	}))
	vm.Set("math/rand.Int31", goatlang.NewFunc(0, 1, func(v *goatlang.VM) goatlang.Value {
		return goatlang.Int32(int32(next() >> 33))
	}))
	vm.Set("math/rand.Uint32", goatlang.NewFunc(0, 1, func(v *goatlang.VM) goatlang.Value {
		return goatlang.Uint32(uint32(next() >> 32))
	}))
	intn := func(v *goatlang.VM, args []goatlang.Value) goatlang.Value {
		n := args[0].Int()
		if n <= 0 {
			panic("invalid argument to Intn")
		}
		return goatlang.Int32(int32(next()>>33) % int32(n))
	}
	vm.Set("math/rand.Intn", goatlang.NewFunc(1, 1, intn))
	vm.Set("math/rand.Int31n", goatlang.NewFunc(1, 1, intn))
	vm.Set("math/rand.Seed", goatlang.NewFunc(1, 0, func(v *goatlang.VM, args []goatlang.Value) {
		ctr = uint64(args[0].Float64())
	}))
	vm.Set("time.Sleep", goatlang.NewFunc(1, 0, func(v *goatlang.VM, args []goatlang.Value) {}))
	var clock int32 = 1000
	vm.Set("time.Now", goatlang.NewFunc(0, 1, func(v *goatlang.VM) goatlang.Value {
		clock += 16
		return goatlang.Wrap(&fakeTime{ms: clock})
	}))
	files := map[string][]byte{}
	vm.Set("os.ReadFile", goatlang.NewFunc(1, 2, func(v *goatlang.VM, args []goatlang.Value) []goatlang.Value {
		b, ok := files[args[0].String()]
		if !ok {
			return []goatlang.Value{goatlang.Nil(), goatlang.Error(fs.ErrNotExist)}
		}
		res := make([]goatlang.Value, len(b))
		for i, c := range b {
			res[i] = goatlang.Byte(c)
		}
		return []goatlang.Value{goatlang.NewSlice(goatlang.TypeUint8, res), goatlang.Nil()}
	}))
	vm.Set("os.WriteFile", goatlang.NewFunc(3, 1, func(v *goatlang.VM, args []goatlang.Value) goatlang.Value {
		n := args[1].Len()
		b := make([]byte, 0, n)
		next := args[1].Range()
		for {
			_, x, ok := next()
			if !ok {
				break
			}
			b = append(b, x.Uint8())
		}
		files[args[0].String()] = b
		return goatlang.Nil()
	}))
	vm.Set("os.Args", goatlang.NewSlice(goatlang.TypeString, []goatlang.Value{goatlang.String("prog")}))
	vm.Set("strings.Repeat", goatlang.NewFunc(2, 1, func(v *goatlang.VM, args []goatlang.Value) goatlang.Value {
		s, n := args[0].String(), args[1].Int()
		if n < 0 {
			panic("strings: negative Repeat count")
		}
		if len(s)*n > 1<<20 {
			panic(BudgetMarker + ": Repeat length")
		}
		return goatlang.String(strings.Repeat(s, n))
	}))
}

type fakeTime struct {
	goatlang.Object
	ms int32
}

func (t *fakeTime) GetAttr(k string) (res goatlang.Value) {
	if k == "UnixMilli" {
		res = goatlang.NewFunc(0, 1, func(vm *goatlang.VM, args []goatlang.Value) goatlang.Value {
			return goatlang.Int32(t.ms)
		})
	}
	return res
}

// ---------------------------------------------------------------------------
// run helpers

// Outcome is what one goatlang execution let the host observe.
type Outcome struct {
	Out    string   `json:"out"`
	Rets   []string `json:"rets,omitempty"`
	Types  []string `json:"types,omitempty"`
	Err    string   `json:"err,omitempty"`
	Panic  string   `json:"panic,omitempty"` // a Go panic that escaped the API
	Budget bool     `json:"budget,omitempty"`
	Steps  int      `json:"steps,omitempty"`
}

func (o Outcome) Failed() bool { return o.Err != "" || o.Panic != "" }

// Guard runs f and converts an escaping Go panic into Outcome.Panic.
func Guard(f func()) (panicked string) {
	defer func() {
		if r := recover(); r != nil {
			panicked = fmt.Sprint(r)
		}
	}()
	f()
	return ""
}

func (m *Machine) finish(o *Outcome, rets []goatlang.Value, err error) {
	o.Out = m.Out.String()
	if err != nil {
		o.Err = err.Error()
		if strings.Contains(o.Err, BudgetMarker) {
			o.Budget = true
		}
	}
	for _, r := range rets {
		var s, t string
		if p := Guard(func() { s = r.String(); t = m.VM.VerifTypeOf(r) }); p != "" {
			o.Panic = "rendering result: " + p
		}
		o.Rets = append(o.Rets, s)
		o.Types = append(o.Types, t)
	}
	if m.Obs != nil {
		o.Steps = m.Obs.Steps
	}
}

// Eval evaluates src at top level.
func (m *Machine) Eval(sys fs.FS, src string, opts ...goatlang.RunOption) Outcome {
	var o Outcome
	if sys == nil {
		sys = fstest.MapFS{}
	}
	if m.Obs != nil {
		m.Obs.Reset()
	}
	var rets []goatlang.Value
	var err error
	if p := Guard(func() { rets, err = m.VM.Eval(sys, "t.go", src, opts...) }); p != "" {
		o.Panic = p
	}
	m.finish(&o, rets, err)
	return o
}

// LoadMain loads package/file arg and calls main.main.
func (m *Machine) LoadMain(sys fs.FS, arg string, opts ...goatlang.RunOption) Outcome {
	var o Outcome
	if m.Obs != nil {
		m.Obs.Reset()
	}
	var err error
	if p := Guard(func() { err = m.VM.Load(sys, arg, opts...) }); p != "" {
		o.Panic = p
		m.finish(&o, nil, nil)
		return o
	}
	if err != nil {
		m.finish(&o, nil, err)
		return o
	}
	if p := Guard(func() { _, err = m.VM.Call("main.main", 0) }); p != "" {
		o.Panic = p
	}
	if err != nil {
		err = fmt.Errorf("error in call: %w", err)
	}
	m.finish(&o, nil, err)
	return o
}

// Call invokes a global function.
func (m *Machine) Call(name string, xRets int, args ...goatlang.Value) Outcome {
	var o Outcome
	if m.Obs != nil {
		m.Obs.Reset()
	}
	m.Out.Reset()
	var rets []goatlang.Value
	var err error
	if p := Guard(func() { rets, err = m.VM.Call(name, xRets, args...) }); p != "" {
		o.Panic = p
	}
	m.finish(&o, rets, err)
	return o
}

// Func invokes a function value.
func (m *Machine) Func(f goatlang.Value, xRets int, args ...goatlang.Value) Outcome {
	var o Outcome
	if m.Obs != nil {
		m.Obs.Reset()
	}
	m.Out.Reset()
	var rets []goatlang.Value
	var err error
	if p := Guard(func() { rets, err = m.VM.Func(f, xRets, args...) }); p != "" {
		o.Panic = p
	}
	m.finish(&o, rets, err)
	return o
}

// MapFS builds an in-memory tree.
func MapFS(files map[string]string) fstest.MapFS {
	sys := fstest.MapFS{}
	for k, v := range files {
		sys[k] = &fstest.MapFile{Data: []byte(v)}
	}
	return sys
}

// ErrLine extracts "file:line" of the first line of a run-time error and the
// message after the opcode name, for comparisons that must ignore the opcode.
func ErrFirstLine(err string) string {
	if i := strings.IndexByte(err, '\n'); i >= 0 {
		return err[:i]
	}
	return err
}
