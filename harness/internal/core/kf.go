package core

import (
	"encoding/json"
	"os"
	"path/filepath"
)

// KnownFindings is /verif/known_findings.json: genuine defects that were
// recorded rather than repaired (status "open") and repaired ones (status
// "fixed", which suppress nothing). The file is never written at run time.
type KnownFindings struct {
	Findings []Finding `json:"findings"`
}

type Finding struct {
	ID       string `json:"id"`
	Property string `json:"property"`
	Status   string `json:"status"` // open | fixed
	Commit   string `json:"commit,omitempty"`
	What     string `json:"what"`
	Witness  string `json:"witness,omitempty"`
}

func LoadKnownFindings() *KnownFindings {
	kf := &KnownFindings{}
	b, err := os.ReadFile(filepath.Join(Root(), "known_findings.json"))
	if err != nil {
		return kf
	}
	json.Unmarshal(b, kf)
	return kf
}

func (k *KnownFindings) ByID(id string) Finding {
	for _, f := range k.Findings {
		if f.ID == id {
			return f
		}
	}
	return Finding{ID: id, What: id}
}

// Open reports whether a finding with this id is listed as open.
func (k *KnownFindings) Open(id string) bool {
	for _, f := range k.Findings {
		if f.ID == id && f.Status == "open" {
			return true
		}
	}
	return false
}
